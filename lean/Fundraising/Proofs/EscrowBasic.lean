import Fundraising.Spec.Invariants
import Fundraising.Proofs.ExecLemmas
/-
  C01 infrastructure: inversion of `do` blocks, effect of bank primitives on a single
  (address, denom), the "slack" of the three escrows of one auction, and the frame
  (`Local`) of an operation on one auction.
-/
namespace Fundraising.EscrowInv

/-! ### `Except` plumbing -/

theorem bind_ok {ε α β : Type} {x : Except ε α} {f : α → Except ε β} {b : β} :
    (x >>= f) = Except.ok b ↔ ∃ a, x = .ok a ∧ f a = .ok b := by
  cases x with
  | error e => simp [bind, Except.bind]
  | ok a => simp [bind, Except.bind]

theorem pure_ok {ε α : Type} {a b : α} : (pure a : Except ε α) = Except.ok b ↔ a = b := by
  simp [pure, Except.pure]

theorem fail_ok {α : Type} {c : Ctx} {e : Err} {b : α} : (c.fail e : M α) = Except.ok b ↔ False := by
  simp [Ctx.fail]

theorem check_ok {c : Ctx} {b : Bool} {u : Unit} : c.check b = Except.ok u ↔ b = true :=
  check_ok_iff

/-! ### bank primitives -/

/-- index of the auction an escrow address belongs to -/
def escIdx : Addr → Option Nat
  | .sell a => some a
  | .pay a => some a
  | .vest a => some a
  | _ => none

theorem esc_ne_sell {x : Addr} {i j : Nat} (hx : escIdx x = some j) (hj : j ≠ i) : x ≠ .sell i := by
  intro e; subst e; simp [escIdx] at hx; exact hj hx.symm
theorem esc_ne_pay {x : Addr} {i j : Nat} (hx : escIdx x = some j) (hj : j ≠ i) : x ≠ .pay i := by
  intro e; subst e; simp [escIdx] at hx; exact hj hx.symm
theorem esc_ne_vest {x : Addr} {i j : Nat} (hx : escIdx x = some j) (hj : j ≠ i) : x ≠ .vest i := by
  intro e; subst e; simp [escIdx] at hx; exact hj hx.symm
theorem esc_ne_user {x : Addr} {j : Nat} {u : Acc} (hx : escIdx x = some j) : x ≠ .user u := by
  intro e; subst e; simp [escIdx] at hx
theorem esc_ne_pool {x : Addr} {j : Nat} (hx : escIdx x = some j) : x ≠ .pool := by
  intro e; subst e; simp [escIdx] at hx

theorem move_zero (b : Bank) (src dst : Addr) (d : Denom) : b.move src dst d 0 = b := by
  funext a d'
  simp [Bank.move]

theorem sendCoins_mk {b b' : Bank} {src dst : Addr} {d : Denom} {amt : Int}
    (h : b.sendCoins src dst (if amt = 0 then [] else [⟨d, amt⟩]) = some b') :
    b' = b.move src dst d amt := by
  by_cases h0 : amt = 0
  · subst h0
    simp only [if_true, Bank.sendCoins, Option.some.injEq] at h
    subst h
    exact (move_zero b src dst d).symm
  · rw [if_neg h0, sendCoins_single] at h
    by_cases hlt : b src d < amt
    · simp [hlt] at h
    · simp only [hlt, if_false, Option.some.injEq] at h
      exact h.symm

/-- a multi-coin send touches only its two endpoints -/
theorem sendCoins_frame {src dst : Addr} : ∀ {coins : List Coin} {b b' : Bank},
    b.sendCoins src dst coins = some b' → ∀ x, x ≠ src → x ≠ dst → ∀ d, b' x d = b x d := by
  intro coins
  induction coins with
  | nil =>
    intro b b' h x _ _ d
    simp only [Bank.sendCoins, Option.some.injEq] at h
    rw [h]
  | cons c cs ih =>
    intro b b' h x hs hd d
    simp only [Bank.sendCoins] at h
    by_cases hlt : b src c.denom < c.amt
    · simp [hlt] at h
    · simp only [hlt, if_false] at h
      rw [ih h x hs hd d, move_apply]
      simp [hs, hd]

/-- the module state after a successful bank call: only the bank changed -/
theorem bankCall_core {c c' : Ctx} {k : XKind} {src dst : Addr} {coins : List Coin}
    (h : c.bankCall k src dst coins = .ok c') :
    ∃ b', c.s.bank.sendCoins src dst coins = some b' ∧ c'.s = { c.s with bank := b' } := by
  obtain ⟨_, b, hb, rfl⟩ := bankCall_ok h
  exact ⟨b, hb, rfl⟩

/-- `mkCoins` followed by a bank call: one `move` -/
theorem send_mk {c0 c c' : Ctx} {k : XKind} {src dst : Addr} {d : Denom} {amt : Int} {coins : List Coin}
    (h1 : mkCoins c0 d amt = .ok coins) (h2 : c.bankCall k src dst coins = .ok c') :
    0 ≤ amt ∧ c'.s = { c.s with bank := c.s.bank.move src dst d amt } := by
  obtain ⟨hnn, rfl⟩ := mkCoins_ok h1
  obtain ⟨b', hb, hs⟩ := bankCall_core h2
  rw [sendCoins_mk hb] at hs
  exact ⟨hnn, hs⟩

/-- a bank call with one explicit coin -/
theorem send_single {c c' : Ctx} {k : XKind} {src dst : Addr} {d : Denom} {amt : Int}
    (h : c.bankCall k src dst [⟨d, amt⟩] = .ok c') :
    c'.s = { c.s with bank := c.s.bank.move src dst d amt } := by
  obtain ⟨b', hb, hs⟩ := bankCall_core h
  rw [sendCoins_single] at hb
  by_cases hlt : c.s.bank src d < amt
  · simp [hlt] at hb
  · simp only [hlt, if_false, Option.some.injEq] at hb
    rw [← hb] at hs; exact hs

/-- a fee payment (user → pool, any coins): no escrow is touched -/
theorem fee_core {c c' : Ctx} {k : XKind} {u : Acc} {coins : List Coin}
    (h : c.bankCall k (.user u) .pool coins = .ok c') :
    ∃ b', c'.s = { c.s with bank := b' } ∧ ∀ x j, escIdx x = some j → ∀ d, b' x d = c.s.bank x d := by
  obtain ⟨b', hb, hs⟩ := bankCall_core h
  refine ⟨b', hs, ?_⟩
  intro x j hx d
  apply sendCoins_frame hb
  · intro e; subst e; simp [escIdx] at hx
  · intro e; subst e; simp [escIdx] at hx

/-! ### slack of the three escrows -/

def slackSell (s : Core) (i : Nat) (v : AView) (d : Denom) : Int :=
  s.bank (.sell i) d - (if d = v.a.sellDenom then owedSell v else 0)

def slackPay (s : Core) (i : Nat) (v : AView) (d : Denom) : Int :=
  s.bank (.pay i) d - (if d = v.a.payDenom then owedPay v else 0)

def slackVest (s : Core) (i : Nat) (v : AView) (d : Denom) : Int :=
  s.bank (.vest i) d - (if d = v.a.payDenom then owedVest v else 0)

theorem escrowCovered_iff (s : Core) (i : Nat) (v : AView) :
    EscrowCovered s i v ↔
      0 ≤ slackSell s i v v.a.sellDenom ∧ 0 ≤ slackPay s i v v.a.payDenom ∧
      0 ≤ slackVest s i v v.a.payDenom := by
  simp only [slackSell, slackPay, slackVest, if_true]
  constructor
  · intro ⟨a, b, c⟩; omega
  · intro ⟨a, b, c⟩; exact ⟨by omega, by omega, by omega⟩

theorem escrowExact_iff (s : Core) (i : Nat) (v : AView) :
    EscrowExact s i v ↔
      ∀ d, slackSell s i v d = 0 ∧ slackPay s i v d = 0 ∧ slackVest s i v d = 0 := by
  simp only [slackSell, slackPay, slackVest]
  constructor
  · intro ⟨a, b, c⟩ d
    have := a d; have := b d; have := c d
    omega
  · intro h
    refine ⟨fun d => ?_, fun d => ?_, fun d => ?_⟩ <;> have := h d <;> omega

/-- the accounting of auction `i` is kept by a transition: denominations stay, and each
    escrow's slack either stays or drops to zero (a sweep of the entire balance) -/
structure Keeps (s s' : Core) (i : Nat) (v v' : AView) : Prop where
  sd : v'.a.sellDenom = v.a.sellDenom
  pd : v'.a.payDenom = v.a.payDenom
  sell : ∀ d, slackSell s' i v' d = slackSell s i v d ∨ slackSell s' i v' d = 0
  pay : ∀ d, slackPay s' i v' d = slackPay s i v d ∨ slackPay s' i v' d = 0
  vest : ∀ d, slackVest s' i v' d = slackVest s i v d ∨ slackVest s' i v' d = 0

theorem Keeps.covered {s s' : Core} {i : Nat} {v v' : AView} (k : Keeps s s' i v v')
    (h : EscrowCovered s i v) : EscrowCovered s' i v' := by
  rw [escrowCovered_iff] at h ⊢
  rw [k.sd, k.pd]
  obtain ⟨a, b, c⟩ := h
  have := k.sell v.a.sellDenom; have := k.pay v.a.payDenom; have := k.vest v.a.payDenom
  omega

theorem Keeps.exact {s s' : Core} {i : Nat} {v v' : AView} (k : Keeps s s' i v v')
    (h : EscrowExact s i v) : EscrowExact s' i v' := by
  rw [escrowExact_iff] at h ⊢
  intro d
  obtain ⟨a, b, c⟩ := h d
  have := k.sell d; have := k.pay d; have := k.vest d
  omega

/-! ### frame of an operation on auction `i` -/

structure Local (i : Nat) (s s' : Core) : Prop where
  len : s'.views.length = s.views.length
  views : ∀ j, j ≠ i → s'.views[j]? = s.views[j]?
  bank : ∀ x j, escIdx x = some j → j ≠ i → ∀ d, s'.bank x d = s.bank x d

/-- a successful operation on auction `i` (whose record is well formed) -/
def Good (i : Nat) (s s' : Core) : Prop :=
  ∃ v, s.views[i]? = some v ∧
    (ViewWF i v → Local i s s' ∧ ∃ v', s'.views[i]? = some v' ∧ Keeps s s' i v v')

theorem Keeps.trans {s s' s'' : Core} {i : Nat} {v v' v'' : AView} (k1 : Keeps s s' i v v')
    (k2 : Keeps s' s'' i v' v'') : Keeps s s'' i v v'' := by
  refine ⟨k2.sd.trans k1.sd, k2.pd.trans k1.pd, fun d => ?_, fun d => ?_, fun d => ?_⟩
  · have := k1.sell d; have := k2.sell d; omega
  · have := k1.pay d; have := k2.pay d; omega
  · have := k1.vest d; have := k2.vest d; omega

theorem Local.trans {s s' s'' : Core} {i : Nat} (l1 : Local i s s') (l2 : Local i s' s'') :
    Local i s s'' :=
  ⟨l2.len.trans l1.len, fun j hj => (l2.views j hj).trans (l1.views j hj),
   fun x j hx hj d => (l2.bank x j hx hj d).trans (l1.bank x j hx hj d)⟩

theorem Local.refl (i : Nat) (s : Core) : Local i s s := ⟨rfl, fun _ _ => rfl, fun _ _ _ _ _ => rfl⟩

def AllCov (s : Core) : Prop := ∀ i v, s.views[i]? = some v → EscrowCovered s i v

def AllEx (s : Core) : Prop :=
  (∀ i v, s.views[i]? = some v → EscrowExact s i v) ∧ FutureEscrowsEmpty s

theorem escrowCovered_frame {s s' : Core} {j : Nat} {v : AView}
    (hb : ∀ x, escIdx x = some j → ∀ d, s'.bank x d = s.bank x d)
    (h : EscrowCovered s j v) : EscrowCovered s' j v := by
  obtain ⟨a, b, c⟩ := h
  exact ⟨by rw [hb _ rfl]; exact a, by rw [hb _ rfl]; exact b, by rw [hb _ rfl]; exact c⟩

theorem escrowExact_frame {s s' : Core} {j : Nat} {v : AView}
    (hb : ∀ x, escIdx x = some j → ∀ d, s'.bank x d = s.bank x d)
    (h : EscrowExact s j v) : EscrowExact s' j v := by
  obtain ⟨a, b, c⟩ := h
  exact ⟨fun d => by rw [hb _ rfl]; exact a d, fun d => by rw [hb _ rfl]; exact b d,
    fun d => by rw [hb _ rfl]; exact c d⟩

theorem Good.allCov {i : Nat} {s s' : Core} (g : Good i s s')
    (hwf : ∀ v, s.views[i]? = some v → ViewWF i v) (h : AllCov s) : AllCov s' := by
  obtain ⟨v, hv, hk⟩ := g
  obtain ⟨l, v', hv', k⟩ := hk (hwf v hv)
  intro j w hj
  by_cases hji : j = i
  · subst hji
    rw [hv'] at hj
    cases hj
    exact k.covered (h j v hv)
  · rw [l.views j hji] at hj
    exact escrowCovered_frame (fun x hx d => l.bank x j hx hji d) (h j w hj)

theorem Good.allEx {i : Nat} {s s' : Core} (g : Good i s s')
    (hwf : ∀ v, s.views[i]? = some v → ViewWF i v) (h : AllEx s) : AllEx s' := by
  obtain ⟨v, hv, hk⟩ := g
  obtain ⟨l, v', hv', k⟩ := hk (hwf v hv)
  refine ⟨?_, ?_⟩
  · intro j w hj
    by_cases hji : j = i
    · subst hji
      rw [hv'] at hj
      cases hj
      exact k.exact (h.1 j v hv)
    · rw [l.views j hji] at hj
      exact escrowExact_frame (fun x hx d => l.bank x j hx hji d) (h.1 j w hj)
  · intro j hj d
    rw [l.len] at hj
    have hi : i < s.views.length := by
      rcases Nat.lt_or_ge i s.views.length with h1 | h1
      · exact h1
      · rw [List.getElem?_eq_none h1] at hv; cases hv
    have hji : j ≠ i := by omega
    rw [l.bank (.sell j) j rfl hji, l.bank (.pay j) j rfl hji, l.bank (.vest j) j rfl hji]
    exact h.2 j hj d

/-- same views, same escrow balances -/
theorem allCov_of_same {s s' : Core} (hv : s'.views = s.views)
    (hb : ∀ x j, escIdx x = some j → ∀ d, s'.bank x d = s.bank x d) (h : AllCov s) : AllCov s' := by
  intro j w hj
  rw [hv] at hj
  exact escrowCovered_frame (fun x hx d => hb x j hx d) (h j w hj)

theorem allEx_of_same {s s' : Core} (hv : s'.views = s.views)
    (hb : ∀ x j, escIdx x = some j → ∀ d, s'.bank x d = s.bank x d) (h : AllEx s) : AllEx s' := by
  refine ⟨?_, ?_⟩
  · intro j w hj
    rw [hv] at hj
    exact escrowExact_frame (fun x hx d => hb x j hx d) (h.1 j w hj)
  · intro j hj d
    rw [hv] at hj
    rw [hb (.sell j) j rfl, hb (.pay j) j rfl, hb (.vest j) j rfl]
    exact h.2 j hj d

/-- the usual shape of a handler's result: view `i` replaced, bank changed away from the
    escrows of other auctions -/
theorem good_of_set_wf {s s' : Core} {i : Nat} {v v' : AView} (hv : s.views[i]? = some v)
    (hviews : s'.views = s.views.set i v')
    (h : ViewWF i v → (∀ x j, escIdx x = some j → j ≠ i → ∀ d, s'.bank x d = s.bank x d) ∧
      Keeps s s' i v v') : Good i s s' := by
  have hi : i < s.views.length := by
    rcases Nat.lt_or_ge i s.views.length with h1 | h1
    · exact h1
    · rw [List.getElem?_eq_none h1] at hv; cases hv
  refine ⟨v, hv, fun hw => ⟨⟨?_, ?_, (h hw).1⟩, v', ?_, (h hw).2⟩⟩
  · rw [hviews, List.length_set]
  · intro j hj
    rw [hviews, List.getElem?_set_ne (Ne.symm hj)]
  · rw [hviews, List.getElem?_set_self hi]

theorem good_of_set {s s' : Core} {i : Nat} {v v' : AView} (hv : s.views[i]? = some v)
    (hviews : s'.views = s.views.set i v')
    (hbank : ∀ x j, escIdx x = some j → j ≠ i → ∀ d, s'.bank x d = s.bank x d)
    (hk : ViewWF i v → Keeps s s' i v v') : Good i s s' :=
  good_of_set_wf hv hviews (fun w => ⟨hbank, hk w⟩)

theorem local_of_set {s s' : Core} {i : Nat} {v v' : AView} (hv : s.views[i]? = some v)
    (hviews : s'.views = s.views.set i v')
    (hbank : ∀ x j, escIdx x = some j → j ≠ i → ∀ d, s'.bank x d = s.bank x d) :
    Local i s s' ∧ s'.views[i]? = some v' := by
  have hi : i < s.views.length := by
    rcases Nat.lt_or_ge i s.views.length with h1 | h1
    · exact h1
    · rw [List.getElem?_eq_none h1] at hv; cases hv
  refine ⟨⟨?_, ?_, hbank⟩, ?_⟩
  · rw [hviews, List.length_set]
  · intro j hj
    rw [hviews, List.getElem?_set_ne (Ne.symm hj)]
  · rw [hviews, List.getElem?_set_self hi]

/-- the records that enter the owed amounts and the escrow balances are unchanged -/
theorem keeps_of_eq {s s' : Core} {i : Nat} {v v' : AView}
    (hbank : ∀ x, escIdx x = some i → ∀ d, s'.bank x d = s.bank x d)
    (hst : v'.a.status = v.a.status) (hsd : v'.a.sellDenom = v.a.sellDenom)
    (hpd : v'.a.payDenom = v.a.payDenom) (hsa : v'.a.sellAmt = v.a.sellAmt)
    (hr : reservedTotal v' = reservedTotal v) (hu : unreleasedTotal v' = unreleasedTotal v) :
    Keeps s s' i v v' := by
  refine ⟨hsd, hpd, ?_, ?_, ?_⟩
  · intro d; left
    simp only [slackSell, owedSell, hbank (.sell i) rfl, hst, hsd, hsa]
  · intro d; left
    simp only [slackPay, owedPay, hbank (.pay i) rfl, hst, hpd, hr]
  · intro d; left
    simp only [slackVest, owedVest, hbank (.vest i) rfl, hst, hpd, hu]

/-- nothing relevant changed -/
theorem good_of_same {s s' : Core} {i : Nat} {v : AView} (hv : s.views[i]? = some v)
    (hviews : s'.views = s.views) (hbank : s'.bank = s.bank) : Good i s s' := by
  refine ⟨v, hv, fun _ => ⟨⟨by rw [hviews], fun j _ => by rw [hviews], fun x j _ _ d => by rw [hbank]⟩,
    v, by rw [hviews]; exact hv,
    keeps_of_eq (fun x _ d => by rw [hbank]) rfl rfl rfl rfl rfl rfl⟩⟩

/-! ### a new auction appended -/

theorem allCov_append {s s' : Core} {v : AView} (hviews : s'.views = s.views ++ [v])
    (hbank : ∀ x j, escIdx x = some j → j ≠ s.views.length → ∀ d, s'.bank x d = s.bank x d)
    (hnew : EscrowCovered s' s.views.length v) (h : AllCov s) : AllCov s' := by
  intro j w hj
  rw [hviews] at hj
  rcases Nat.lt_trichotomy j s.views.length with hlt | heq | hgt
  · rw [List.getElem?_append_left hlt] at hj
    exact escrowCovered_frame (fun x hx d => hbank x j hx (by omega) d) (h j w hj)
  · subst heq
    rw [List.getElem?_append_right (Nat.le_refl _)] at hj
    simp at hj
    subst hj
    exact hnew
  · rw [List.getElem?_eq_none (by simp; omega)] at hj
    cases hj

theorem allEx_append {s s' : Core} {v : AView} (hviews : s'.views = s.views ++ [v])
    (hbank : ∀ x j, escIdx x = some j → j ≠ s.views.length → ∀ d, s'.bank x d = s.bank x d)
    (hnew : EscrowExact s' s.views.length v) (h : AllEx s) : AllEx s' := by
  refine ⟨?_, ?_⟩
  · intro j w hj
    rw [hviews] at hj
    rcases Nat.lt_trichotomy j s.views.length with hlt | heq | hgt
    · rw [List.getElem?_append_left hlt] at hj
      exact escrowExact_frame (fun x hx d => hbank x j hx (by omega) d) (h.1 j w hj)
    · subst heq
      rw [List.getElem?_append_right (Nat.le_refl _)] at hj
      simp at hj
      subst hj
      exact hnew
    · rw [List.getElem?_eq_none (by simp; omega)] at hj
      cases hj
  · intro j hj d
    rw [hviews] at hj
    simp at hj
    have hne : j ≠ s.views.length := by omega
    rw [hbank (.sell j) j rfl hne, hbank (.pay j) j rfl hne, hbank (.vest j) j rfl hne]
    exact h.2 j (by omega) d

end Fundraising.EscrowInv
