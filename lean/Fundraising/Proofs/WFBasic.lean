import Fundraising.Spec.Invariants
import Fundraising.Proofs.ExecLemmas
/-
  Generic tools for the invariant proofs: inversion of `>>=` in `Except`, the frame
  lemmas of `WF` (bank / clock changes, replacing one view, appending a view), and
  what the primitives do to `WF` and `BankNonneg`.
-/
namespace Fundraising.WFInv

theorem bind_ok {ε α β : Type} {x : Except ε α} {f : α → Except ε β} {b : β} :
    (x >>= f) = .ok b ↔ ∃ a, x = .ok a ∧ f a = .ok b := by
  cases x <;> simp [bind, Except.bind]

theorem pure_ok {ε α : Type} {a b : α} : (pure a : Except ε α) = .ok b ↔ a = b := by
  simp [pure, Except.pure]

theorem fail_ne_ok {α : Type} {c : Ctx} {e : Err} {a : α} : (c.fail e : M α) = .ok a ↔ False := by
  simp [Ctx.fail]

/-! ### frames -/

/-- `s'` differs from `s` at most in the bank -/
structure Frame (s s' : Core) : Prop where
  params : s'.params = s.params
  views : s'.views = s.views
  enableAdd : s'.enableAdd = s.enableAdd
  now : s'.now = s.now

theorem Frame.refl (s : Core) : Frame s s := ⟨rfl, rfl, rfl, rfl⟩

theorem Frame.trans {s s' s'' : Core} (h : Frame s s') (h' : Frame s' s'') : Frame s s'' :=
  ⟨h'.params.trans h.params, h'.views.trans h.views, h'.enableAdd.trans h.enableAdd,
    h'.now.trans h.now⟩

theorem Frame.of_eq {s s' : Core} (h : s' = s) : Frame s s' := by subst h; exact Frame.refl _

theorem WF.of_eqs {s s' : Core} (hp : s'.params = s.params) (hv : s'.views = s.views)
    (he : s'.enableAdd = s.enableAdd) (h : WF s) : WF s' :=
  ⟨by rw [hp]; exact h.params, by rw [hv]; exact h.views, by rw [he]; exact h.switchOff⟩

theorem WF.frame {s s' : Core} (f : Frame s s') (h : WF s) : WF s' :=
  WF.of_eqs f.params f.views f.enableAdd h

theorem WF.frame_back {s s' : Core} (f : Frame s s') (h : WF s') : WF s :=
  WF.of_eqs f.params.symm f.views.symm f.enableAdd.symm h

/-- replacing one view by a well-formed one -/
theorem WF.setView {s : Core} (h : WF s) (aid : Nat) (v' : AView) (hv : ViewWF aid v') :
    WF { s with views := s.views.set aid v' } := by
  refine ⟨h.params, ?_, h.switchOff⟩
  intro i v hi
  simp only [List.getElem?_set] at hi
  by_cases e : aid = i
  · subst e
    by_cases hl : aid < s.views.length
    · simp [hl] at hi; subst hi; exact hv
    · simp [hl] at hi
  · simp only [e, if_false] at hi
    exact h.views i v hi

theorem WF.ctx_setView {c : Ctx} (h : WF c.s) (aid : Nat) (v' : AView) (hv : ViewWF aid v') :
    WF (c.setView aid v').s := WF.setView h aid v' hv

/-- appending a well-formed view -/
theorem WF.append {s : Core} (h : WF s) (v' : AView) (hv : ViewWF s.views.length v') :
    WF { s with views := s.views ++ [v'] } := by
  refine ⟨h.params, ?_, h.switchOff⟩
  intro i v hi
  by_cases hl : i < s.views.length
  · rw [List.getElem?_append_left hl] at hi
    exact h.views i v hi
  · have hl' : s.views.length ≤ i := Nat.le_of_not_lt hl
    rw [List.getElem?_append_right hl'] at hi
    by_cases e : i - s.views.length = 0
    · have : i = s.views.length := by omega
      subst this
      simp at hi
      subst hi
      exact hv
    · have : ∃ k, i - s.views.length = k + 1 := ⟨i - s.views.length - 1, by omega⟩
      obtain ⟨k, hk⟩ := this
      rw [hk] at hi
      simp at hi

/-! ### bank -/

theorem move_nonneg {b : Bank} {src dst : Addr} {d : Denom} {amt : Int}
    (hb : ∀ a d, 0 ≤ b a d) (h0 : 0 ≤ amt) (hle : amt ≤ b src d) :
    ∀ a d', 0 ≤ (b.move src dst d amt) a d' := by
  intro a d'
  rw [move_apply]
  have := hb a d'
  by_cases h1 : a = src ∧ d' = d
  · have hle' : amt ≤ b a d' := by rw [h1.1, h1.2]; exact hle
    rw [if_pos h1]; split <;> omega
  · rw [if_neg h1]; split <;> omega

theorem sendCoins_nonneg {coins : List Coin} : ∀ {b b' : Bank} {src dst : Addr},
    (∀ a d, 0 ≤ b a d) → (∀ x ∈ coins, 0 ≤ x.amt) → b.sendCoins src dst coins = some b' →
    ∀ a d, 0 ≤ b' a d := by
  induction coins with
  | nil =>
    intro b b' src dst hb _ h
    simp [Bank.sendCoins] at h; subst h; exact hb
  | cons x xs ih =>
    intro b b' src dst hb hx h
    unfold Bank.sendCoins at h
    by_cases hlt : b src x.denom < x.amt
    · simp [hlt] at h
    · simp only [hlt, if_false] at h
      exact ih (move_nonneg hb (hx x (List.mem_cons_self ..)) (Int.not_lt.mp hlt))
        (fun y hy => hx y (List.mem_cons_of_mem _ hy)) h

theorem validCoins_pos : ∀ {l : List Coin}, validCoins l = true → ∀ x ∈ l, 0 ≤ x.amt
  | [], _, x, hx => by cases hx
  | [c], h, x, hx => by
    simp [validCoins] at h
    simp at hx; subst hx; omega
  | c :: c' :: rest, h, x, hx => by
    simp only [validCoins, Bool.and_eq_true, decide_eq_true_eq] at h
    rcases List.mem_cons.mp hx with rfl | hx
    · omega
    · exact validCoins_pos h.2 x hx

/-- what a successful bank call does to the invariants -/
theorem bankCall_frame {c c' : Ctx} {k : XKind} {src dst : Addr} {coins : List Coin}
    (h : c.bankCall k src dst coins = .ok c') :
    Frame c.s c'.s ∧ c'.ctl = c.ctl ∧
    ((∀ x ∈ coins, 0 ≤ x.amt) → BankNonneg c.s → BankNonneg c'.s) := by
  obtain ⟨_, b, hb, rfl⟩ := bankCall_ok h
  refine ⟨⟨rfl, rfl, rfl, rfl⟩, rfl, ?_⟩
  intro hx hn
  exact sendCoins_nonneg hn hx hb

theorem hook_frame {c c' : Ctx} {name : String} {args : List String} (h : c.hook name args = .ok c') :
    Frame c.s c'.s ∧ c'.ctl = c.ctl ∧ (BankNonneg c.s → BankNonneg c'.s) := by
  obtain ⟨h1, h2, _, _⟩ := hook_ok h
  refine ⟨Frame.of_eq h1, h2, ?_⟩
  rw [h1]; exact id

theorem mkCoins_nonneg {c : Ctx} {d : Denom} {amt : Int} {cs : List Coin} (h : mkCoins c d amt = .ok cs) :
    ∀ x ∈ cs, 0 ≤ x.amt := by
  obtain ⟨h0, rfl⟩ := mkCoins_ok h
  intro x hx
  by_cases e : amt = 0
  · simp [e] at hx
  · simp [e] at hx; subst hx; exact h0

theorem BankNonneg.of_bank_eq {s s' : Core} (h : s'.bank = s.bank) (hn : BankNonneg s) : BankNonneg s' := by
  unfold BankNonneg; rw [h]; exact hn

end Fundraising.WFInv
