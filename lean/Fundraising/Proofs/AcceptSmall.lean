import Fundraising.Proofs.AcceptBase
/-
  C18, MsgCancelAuction, MsgAddAllowedBidder, MsgUpdateParams, and a bid without type.
-/
set_option linter.unusedSimpArgs false
set_option linter.unusedVariables false
namespace Fundraising
namespace AcceptAux

/-! ### MsgCancelAuction -/

/-- what a successful cancel checked and did -/
theorem cancel_inv {c c' : Ctx} {signer : Acc} {aid : Nat}
    (h : deliver c (.cancel signer aid) = .ok c') :
    validAcc signer = true ∧ ∃ v, c.s.views[aid]? = some v ∧ v.a.auctioneer = signer ∧
      v.a.status = .standby ∧
      c'.s.views = c.s.views.set aid
        { v with a := { v.a with remaining := if v.a.type = .fixed then 0 else v.a.remaining,
                                 status := .cancelled } } ∧
      c'.s.bank (.sell aid) v.a.sellDenom = 0 := by
  unfold deliver at h
  simp only [bind_ok, check_ok, handle] at h
  obtain ⟨_, hvb, h⟩ := h
  unfold cancelAuction at h
  simp only [bind_ok, check_ok, pure_ok, view_ok_iff] at h
  obtain ⟨v, hv, _, h1, _, h2, coins, hmk, c1, hsend, c2, hhk, rfl⟩ := h
  have h1 : v.a.auctioneer = signer := by simpa using h1
  have h2 := status_of_beq h2
  simp only [validateBasic] at hvb
  obtain ⟨_, hcoins⟩ := mkCoins_ok hmk
  obtain ⟨_, b, hb, rfl⟩ := bankCall_ok hsend
  obtain ⟨hs, _⟩ := hook_ok hhk
  refine ⟨hvb, v, hv, h1, h2, ?_, ?_⟩
  · rw [setView_views, hs]
  · rw [setView_bank, hs]
    simp only
    subst hcoins
    by_cases hz : c.bal (.sell aid) v.a.sellDenom = 0
    · rw [if_pos hz, sendCoins_nil] at hb
      cases hb
      exact hz
    · rw [if_neg hz, sendCoins_single] at hb
      split at hb
      · cases hb
      · cases hb
        simp [move_apply, Ctx.bal]

theorem cancel_accept_of_ok {c c' : Ctx} {signer : Acc} {aid : Nat}
    (h : deliver c (.cancel signer aid) = .ok c') : AcceptCancel c.s signer aid := by
  obtain ⟨h1, v, hv, h2, h3, _⟩ := cancel_inv h
  exact ⟨h1, v, hv, h2, h3⟩

theorem cancel_ok_of_accept {c : Ctx} {signer : Acc} {aid : Nat} (hnn : BankNonneg c.s)
    (hf : c.ctl.failhook = none) (hk : c.ctl.fault = none) (ha : AcceptCancel c.s signer aid) :
    ∃ c', deliver c (.cancel signer aid) = .ok c' := by
  obtain ⟨v, hv, h2, h3⟩ := ha.exists_
  have hvb : validateBasic (.cancel signer aid) = true := ha.signerOk
  unfold deliver
  rw [bind_of_ok (check_of hvb)]
  show ∃ c', cancelAuction c signer aid = .ok c'
  unfold cancelAuction
  rw [bind_of_ok (view_ok_iff.mpr hv)]
  rw [bind_of_ok (check_of (by simp [h2])), bind_of_ok (check_of (by simp [h3]))]
  have hbal : 0 ≤ c.bal (.sell aid) v.a.sellDenom := hnn _ _
  rw [bind_of_ok (mkCoins_of_nonneg c _ _ hbal)]
  have hk0 : c.ctl.fault ≠ some c.calls := by rw [hk]; simp
  have hsend : ∃ b, c.s.bank.sendCoins (.sell aid) (.user v.a.auctioneer)
      (if c.bal (.sell aid) v.a.sellDenom = 0 then [] else [⟨v.a.sellDenom, c.bal (.sell aid) v.a.sellDenom⟩])
        = some b := by
    by_cases hz : c.bal (.sell aid) v.a.sellDenom = 0
    · rw [if_pos hz]; exact ⟨_, rfl⟩
    · rw [if_neg hz]
      exact (send_pos_iff _ _ _ _ _).mpr (Int.le_refl _)
  obtain ⟨b, hb⟩ := hsend
  rw [bind_of_ok (bankCall_of_send hk0 hb)]
  refine exists_hook_bind hf ?_
  intro c2 _ _
  exact ⟨_, rfl⟩

/-! ### MsgAddAllowedBidder -/

theorem addAllowed_not_ok {c c' : Ctx} {aid : Nat} {ab : AllowedArg} (hoff : c.s.enableAdd = false)
    (h : deliver c (.addAllowed aid ab) = .ok c') : False := by
  unfold deliver at h
  simp only [bind_ok, check_ok, handle] at h
  obtain ⟨_, _, _, h1, _⟩ := h
  rw [hoff] at h1
  cases h1

/-! ### a bid without a type -/

theorem place_none_not_ok {c c' : Ctx} {bidder : Acc} {aid : Nat} {price : Dec} {denom : Denom} {amt : Int}
    (h : deliver c (.place bidder aid none price denom amt) = .ok c') : False := by
  unfold deliver at h
  simp only [bind_ok, check_ok, handle] at h
  obtain ⟨_, _, h⟩ := h
  exact fail_ok.mp h

/-! ### MsgUpdateParams -/

theorem params_accept_of_ok {c c' : Ctx} {signer : Acc} {p : Params}
    (h : deliver c (.updateParams signer p) = .ok c') : AcceptParams c.s signer p := by
  unfold deliver at h
  simp only [bind_ok, check_ok, handle, pure_ok] at h
  obtain ⟨_, _, _, _, _, h2, _, h3, _⟩ := h
  simp only [Bool.and_eq_true] at h3
  exact ⟨by simpa using h2, h3⟩

theorem params_ok_of_accept {c : Ctx} {signer : Acc} {p : Params} (ha : AcceptParams c.s signer p) :
    ∃ c', deliver c (.updateParams signer p) = .ok c' := by
  have h1 := ha.authority
  obtain ⟨h2, h3⟩ := ha.fees
  unfold deliver
  rw [bind_of_ok (check_of (by rfl))]
  show ∃ c', (do
    c.check (validAcc signer)
    c.check (signer == AUTHORITY)
    c.check (validCoins p.creationFee && validCoins p.bidFee)
    pure { c with s := { c.s with params := p } } : M Ctx) = .ok c'
  rw [bind_of_ok (check_of (by rw [h1]; decide)), bind_of_ok (check_of (by simp [h1])),
    bind_of_ok (check_of (by simp [h2, h3]))]
  exact ⟨_, rfl⟩

end AcceptAux
end Fundraising
