import Fundraising.Model.Match
/-
  Go's `sort.Search` loop (`searchLoop`): loop invariant and the "least fitting index"
  result.
-/
namespace Fundraising

theorem searchLoop_inv (f : Nat → MRes) (n : Nat)
    (hnp : ∀ h, h < n → f h ≠ .panic)
    (hmono : ∀ h h', h ≤ h' → h' < n → (∃ acc, f h = .fit acc) → ∃ acc, f h' = .fit acc) :
    ∀ (fuel i j : Nat) (last : Option MAcc), i ≤ j → j ≤ n → j - i ≤ fuel →
      (∀ h, h < i → f h = .nofit) →
      (j < n → ∃ acc, f j = .fit acc ∧ last = some acc) →
      (j = n → last = none) →
      ((∀ h, h < n → f h = .nofit) ∧ searchLoop f fuel i j last = some none ∨
       ∃ h acc, h < n ∧ f h = .fit acc ∧ (∀ h', h' < h → f h' = .nofit) ∧
         searchLoop f fuel i j last = some (some acc)) := by
  have done : ∀ (i : Nat) (last : Option MAcc), i ≤ n →
      (∀ h, h < i → f h = .nofit) →
      (i < n → ∃ acc, f i = .fit acc ∧ last = some acc) →
      (i = n → last = none) →
      ((∀ h, h < n → f h = .nofit) ∧ some last = some none ∨
       ∃ h acc, h < n ∧ f h = .fit acc ∧ (∀ h', h' < h → f h' = .nofit) ∧
         some last = some (some acc)) := by
    intro i last hin hlo hj1 hj2
    by_cases hi : i = n
    · left; subst hi; exact ⟨hlo, by rw [hj2 rfl]⟩
    · right
      obtain ⟨acc, h1, h2⟩ := hj1 (by omega)
      exact ⟨i, acc, by omega, h1, hlo, by rw [h2]⟩
  intro fuel
  induction fuel with
  | zero =>
    intro i j last hij hjn hfuel hlo hj1 hj2
    have : i = j := by omega
    subst this
    simp only [searchLoop]
    exact done i last hjn hlo hj1 hj2
  | succ fuel ih =>
    intro i j last hij hjn hfuel hlo hj1 hj2
    by_cases hlt : i < j
    · have hh1 : i ≤ (i + j) / 2 := by omega
      have hh2 : (i + j) / 2 < j := by omega
      have hhn : (i + j) / 2 < n := by omega
      simp only [searchLoop, hlt, if_true]
      cases hf : f ((i + j) / 2) with
      | panic => exact absurd hf (hnp _ hhn)
      | nofit =>
        simp only
        apply ih ((i + j) / 2 + 1) j last (by omega) hjn (by omega) _ hj1 hj2
        intro h' hh'
        by_cases hlow : h' < i
        · exact hlo h' hlow
        · cases hf' : f h' with
          | panic => exact absurd hf' (hnp _ (by omega))
          | nofit => rfl
          | fit acc =>
            obtain ⟨acc', hacc'⟩ := hmono h' ((i + j) / 2) (by omega) hhn ⟨acc, hf'⟩
            rw [hf] at hacc'; cases hacc'
      | fit acc =>
        simp only
        apply ih i ((i + j) / 2) (some acc) hh1 (by omega) (by omega) hlo
        · intro _; exact ⟨acc, hf, rfl⟩
        · intro e; omega
    · have : i = j := by omega
      subst this
      simp only [searchLoop, hlt, if_false]
      exact done i last hjn hlo hj1 hj2

theorem searchLoop_least' (f : Nat → MRes) (n : Nat)
    (hnp : ∀ h, h < n → f h ≠ .panic)
    (hmono : ∀ h h', h ≤ h' → h' < n → (∃ acc, f h = .fit acc) → ∃ acc, f h' = .fit acc) :
    (∀ h, h < n → f h = .nofit) ∧ searchLoop f n 0 n none = some none ∨
    ∃ h acc, h < n ∧ f h = .fit acc ∧ (∀ h', h' < h → f h' = .nofit) ∧
      searchLoop f n 0 n none = some (some acc) :=
  searchLoop_inv f n hnp hmono n 0 n none (Nat.zero_le _) (Nat.le_refl _) (by omega)
    (fun h hh => absurd hh (Nat.not_lt_zero _)) (fun h => absurd h (Nat.lt_irrefl _)) (fun _ => rfl)

end Fundraising
