import Fundraising.Spec.Invariants
import Fundraising.Proofs.TotalBase
/-
  C07 helpers, part 3: covered transfers succeed.  `XFrame`/`Frame`: what a piece of the
  settlement of auction `aid` leaves untouched.
-/
namespace Fundraising

/-- a single covered, non-negative transfer succeeds and moves exactly `amt` -/
theorem bankCall_amt (c : Ctx) (hf : c.ctl.fault = none) (k : XKind) (src dst : Addr) (d : Denom)
    (amt : Int) (hle : amt ≤ c.s.bank src d) :
    ∃ c', c.bankCall k src dst (if amt = 0 then [] else [⟨d, amt⟩]) = .ok c' ∧
      c'.ctl = c.ctl ∧ c'.s.views = c.s.views ∧
      ∀ a d', c'.s.bank a d' = c.s.bank a d' - (if a = src ∧ d' = d then amt else 0)
        + (if a = dst ∧ d' = d then amt else 0) := by
  have hne : c.ctl.fault ≠ some c.calls := by rw [hf]; exact fun e => by cases e
  by_cases hz : amt = 0
  · rw [if_pos hz]
    refine ⟨_, bankCall_of_send hne (sendCoins_nil _ _ _), rfl, rfl, ?_⟩
    intro a d'
    show c.s.bank a d' = _
    rw [hz]
    simp
  · rw [if_neg hz]
    have hs : c.s.bank.sendCoins src dst [⟨d, amt⟩] = some (c.s.bank.move src dst d amt) := by
      rw [sendCoins_single, if_neg (by omega)]
    refine ⟨_, bankCall_of_send hne hs, rfl, rfl, ?_⟩
    intro a d'
    rfl

/-- transfers out of `src` to user accounts -/
structure XFrame (src : Addr) (c c' : Ctx) : Prop where
  ctl : c'.ctl = c.ctl
  views : c'.s.views = c.s.views
  nonneg : BankNonneg c.s → BankNonneg c'.s
  other : ∀ a, a ≠ src → (∀ u, a ≠ .user u) → ∀ d, c'.s.bank a d = c.s.bank a d

theorem XFrame.refl (src : Addr) (c : Ctx) : XFrame src c c :=
  ⟨rfl, rfl, id, fun _ _ _ _ => rfl⟩

theorem XFrame.trans {src : Addr} {c c1 c2 : Ctx} (h1 : XFrame src c c1) (h2 : XFrame src c1 c2) :
    XFrame src c c2 :=
  ⟨h2.ctl.trans h1.ctl, h2.views.trans h1.views, fun h => h2.nonneg (h1.nonneg h),
   fun a ha hu d => (h2.other a ha hu d).trans (h1.other a ha hu d)⟩

/-- one covered transfer from an escrow to a user -/
theorem send_user_ok (c : Ctx) (hf : c.ctl.fault = none) (k : XKind) (src : Addr) (u : Acc)
    (hsrc : ∀ u, src ≠ .user u) (d : Denom) (amt : Int) (h0 : 0 ≤ amt) (hle : amt ≤ c.s.bank src d) :
    ∃ c', c.bankCall k src (.user u) (if amt = 0 then [] else [⟨d, amt⟩]) = .ok c' ∧
      XFrame src c c' ∧ c'.s.bank src d = c.s.bank src d - amt := by
  obtain ⟨c', hc, h1, h2, h3⟩ := bankCall_amt c hf k src (.user u) d amt hle
  refine ⟨c', hc, ⟨h1, h2, ?_, ?_⟩, ?_⟩
  · intro hn a d'
    have := hn a d'
    rw [h3]
    by_cases ha : a = src ∧ d' = d
    · obtain ⟨rfl, rfl⟩ := ha
      have hu : ¬ (a = Addr.user u ∧ d' = d') := fun e => hsrc u e.1
      rw [if_pos ⟨rfl, rfl⟩, if_neg hu]
      omega
    · rw [if_neg ha]
      split <;> omega
  · intro a ha hu d'
    rw [h3, if_neg (fun e => ha e.1), if_neg (fun e => hu u e.1)]
    omega
  · rw [h3, if_pos ⟨rfl, rfl⟩, if_neg (fun e => hsrc u e.1)]
    omega

/-- `payOut`: non-negative amounts whose sum the source holds -/
theorem payOut_ok (src : Addr) (hsrc : ∀ u, src ≠ .user u) (d : Denom) :
    ∀ (l : List (Acc × Int)) (c : Ctx), c.ctl.fault = none → (∀ p ∈ l, 0 ≤ p.2) →
      (l.map (·.2)).sum ≤ c.s.bank src d →
      ∃ c', payOut c src d l = .ok c' ∧ XFrame src c c'
  | [], c, _, _, _ => ⟨c, rfl, XFrame.refl _ _⟩
  | (u, amt) :: rest, c, hf, h0, hsum => by
    have ha : 0 ≤ amt := h0 (u, amt) (List.mem_cons_self)
    have h0' : ∀ p ∈ rest, 0 ≤ p.2 := fun p hp => h0 p (List.mem_cons_of_mem _ hp)
    have hr : 0 ≤ (rest.map (·.2)).sum := by
      clear hsum
      induction rest with
      | nil => exact Int.le_refl 0
      | cons p rest ih =>
        have h1 := h0' p (List.mem_cons_self)
        have h2 := ih (fun q hq => h0 q (by
          rcases List.mem_cons.1 hq with rfl | hq
          · exact List.mem_cons_self
          · exact List.mem_cons_of_mem _ (List.mem_cons_of_mem _ hq)))
          (fun q hq => h0' q (List.mem_cons_of_mem _ hq))
        simp only [List.map_cons, List.sum_cons]
        omega
    simp only [List.map_cons, List.sum_cons] at hsum
    simp only [payOut]
    by_cases hz : amt = 0
    · rw [if_pos hz]
      exact payOut_ok src hsrc d rest c hf h0' (by omega)
    · rw [if_neg hz, mkCoins_of_nonneg c d amt ha, ok_bind]
      obtain ⟨c1, hc1, hx, hb⟩ := send_user_ok c hf .io src u hsrc d amt ha (by omega)
      rw [hc1, ok_bind]
      obtain ⟨c2, hc2, hx2⟩ := payOut_ok src hsrc d rest c1 (by rw [hx.ctl]; exact hf) h0'
        (by rw [hb]; omega)
      exact ⟨c2, hc2, hx.trans hx2⟩

/-- what the block step of auction `aid` leaves untouched -/
structure Frame (aid : Nat) (c c' : Ctx) : Prop where
  ctl : c'.ctl = c.ctl
  len : c'.s.views.length = c.s.views.length
  views : ∀ j, j ≠ aid → c'.s.views[j]? = c.s.views[j]?
  nonneg : BankNonneg c.s → BankNonneg c'.s
  sell : ∀ j, j ≠ aid → ∀ d, c'.s.bank (.sell j) d = c.s.bank (.sell j) d
  pay : ∀ j, j ≠ aid → ∀ d, c'.s.bank (.pay j) d = c.s.bank (.pay j) d
  vest : ∀ j, j ≠ aid → ∀ d, c'.s.bank (.vest j) d = c.s.bank (.vest j) d

theorem Frame.refl (aid : Nat) (c : Ctx) : Frame aid c c :=
  ⟨rfl, rfl, fun _ _ => rfl, id, fun _ _ _ => rfl, fun _ _ _ => rfl, fun _ _ _ => rfl⟩

theorem Frame.trans {aid : Nat} {c c1 c2 : Ctx} (h1 : Frame aid c c1) (h2 : Frame aid c1 c2) :
    Frame aid c c2 :=
  ⟨h2.ctl.trans h1.ctl, h2.len.trans h1.len, fun j hj => (h2.views j hj).trans (h1.views j hj),
   fun h => h2.nonneg (h1.nonneg h),
   fun j hj d => (h2.sell j hj d).trans (h1.sell j hj d),
   fun j hj d => (h2.pay j hj d).trans (h1.pay j hj d),
   fun j hj d => (h2.vest j hj d).trans (h1.vest j hj d)⟩

/-- the escrows of auction `aid` -/
def escrowOf (aid : Nat) (src : Addr) : Prop := src = .sell aid ∨ src = .pay aid ∨ src = .vest aid

theorem escrowOf_not_user {aid : Nat} {src : Addr} (h : escrowOf aid src) : ∀ u, src ≠ .user u := by
  intro u e
  rcases h with h | h | h <;> rw [h] at e <;> cases e

theorem XFrame.frame {aid : Nat} {src : Addr} {c c' : Ctx} (hs : escrowOf aid src)
    (h : XFrame src c c') : Frame aid c c' := by
  refine ⟨h.ctl, by rw [h.views], fun j _ => by rw [h.views], h.nonneg, ?_, ?_, ?_⟩
  · intro j hj d
    refine h.other _ ?_ (fun u e => by cases e) d
    intro e
    rcases hs with hs | hs | hs <;> rw [hs] at e <;> cases e
    exact hj rfl
  · intro j hj d
    refine h.other _ ?_ (fun u e => by cases e) d
    intro e
    rcases hs with hs | hs | hs <;> rw [hs] at e <;> cases e
    exact hj rfl
  · intro j hj d
    refine h.other _ ?_ (fun u e => by cases e) d
    intro e
    rcases hs with hs | hs | hs <;> rw [hs] at e <;> cases e
    exact hj rfl

/-- a store write to auction `aid` -/
theorem setView_frame (aid : Nat) (c : Ctx) (v : AView) : Frame aid c (c.setView aid v) := by
  refine ⟨rfl, ?_, ?_, id, fun _ _ _ => rfl, fun _ _ _ => rfl, fun _ _ _ => rfl⟩
  · show (c.s.views.set aid v).length = _
    simp
  · intro j hj
    show (c.s.views.set aid v)[j]? = _
    rw [List.getElem?_set_ne (fun e => hj e.symm)]

theorem setView_get (aid : Nat) (c : Ctx) (v : AView) (h : aid < c.s.views.length) :
    (c.setView aid v).s.views[aid]? = some v := by
  show (c.s.views.set aid v)[aid]? = _
  rw [List.getElem?_set_self h]

theorem view_of_get {c : Ctx} {aid : Nat} {v : AView} (h : c.s.views[aid]? = some v) :
    c.view aid = .ok v := view_ok_iff.2 h

theorem lt_of_get {c : Ctx} {aid : Nat} {v : AView} (h : c.s.views[aid]? = some v) :
    aid < c.s.views.length := by
  rcases Nat.lt_or_ge aid c.s.views.length with h1 | h1
  · exact h1
  · rw [List.getElem?_eq_none h1] at h; cases h

end Fundraising
