import Fundraising.Proofs.FrameMsgs
import Fundraising.Proofs.FrameBlock
/-
  Classification of one `step`: what each kind of operation did to the module state.
-/
set_option linter.unusedSimpArgs false
set_option linter.unusedVariables false
namespace Fundraising.Frame

/-- what an operation other than `reset` and `block` did to the module state `s` -/
inductive Kind (s : Core) (op : Op) (s' : Core) : Prop
  | same (hv : s'.views = s.views)
  | create (m : CreateMsg) (nv : AView) (hop : op = .msg (.create m)) (hv : s'.views = s.views ++ [nv])
  | cancel (signer : Acc) (aid : Nat) (v : AView) (hop : op = .msg (.cancel signer aid))
      (fp : FP aid s s') (pre : s.views[aid]? = some v)
      (hsigner : v.a.auctioneer = signer) (hst : v.a.status = .standby)
      (post : s'.views[aid]? = some { v with a := { v.a with
          remaining := if v.a.type = .fixed then 0 else v.a.remaining, status := .cancelled } })
      (hnn : 0 ≤ s.bank (.sell aid) v.a.sellDenom)
      (hbank : s'.bank = s.bank.move (.sell aid) (.user v.a.auctioneer) v.a.sellDenom
        (s.bank (.sell aid) v.a.sellDenom))
  | place (bidder : Acc) (aid : Nat) (t : BidType) (price : Dec) (denom : Denom) (amt : Int) (v : AView)
      (r : Int) (m : Bool) (hop : op = .msg (.place bidder aid (some t) price denom amt))
      (fp : FP aid s s') (pre : s.views[aid]? = some v) (hst : v.a.status = .started)
      (hallowed : (lookupAllowed v.allowed bidder).isSome = true)
      (post : s'.views[aid]? = some { v with
          a := { v.a with remaining := r },
          bids := v.bids ++ [⟨aid, v.bidSeq + 1, bidder, t, price, denom, amt, m⟩],
          bidSeq := v.bidSeq + 1 })
  | modify (bidder : Acc) (aid bidId : Nat) (price : Dec) (denom : Denom) (amt : Int) (v : AView)
      (bid : Bid) (hop : op = .msg (.modify bidder aid bidId price denom amt))
      (fp : FP aid s s') (pre : s.views[aid]? = some v) (hst : v.a.status = .started)
      (hty : v.a.type = .batch) (hfind : v.bids.find? (·.id == bidId) = some bid)
      (hbidder : bid.bidder = bidder) (hdenom : bid.denom = denom)
      (hprice : bid.price ≤ price) (hamt : bid.amt ≤ amt)
      (post : s'.views[aid]? = some { v with bids := v.bids.map (fun b =>
          if b.id == bidId then { bid with price := price, amt := amt } else b) })
  | allowed (aid : Nat) (v : AView) (l : List Allowed)
      (hmsg : ∀ m, op = .msg m → s.enableAdd = true)
      (fp : FP aid s s') (pre : s.views[aid]? = some v)
      (kept : ∀ y ∈ v.allowed, ∃ y' ∈ l, y'.bidder = y.bidder)
      (post : s'.views[aid]? = some { v with allowed := l })

theorem deliver_ok {c c' : Ctx} {m : Msg} (h : deliver c m = .ok c') : handle c m = .ok c' := by
  unfold deliver at h
  simp only [bind_ok, check_ok] at h
  obtain ⟨_, _, h⟩ := h
  exact h

theorem handle_addAllowed {c c' : Ctx} {aid : Nat} {ab : AllowedArg}
    (h : handle c (.addAllowed aid ab) = .ok c') :
    c.s.enableAdd = true ∧ addAllowedBidders c aid [ab] = .ok c' := by
  simp only [handle, bind_ok, check_ok] at h
  obtain ⟨_, h1, h2⟩ := h
  exact ⟨h1, h2⟩

theorem msg_kind (st : State) (m : Msg) : Kind st.core (.msg m) (step st (.msg m)).2.core := by
  simp only [step]
  rcases runAtomic_cases st true (fun c => deliver c m) with ⟨c, hc, e⟩ | ⟨e, _, hs, _⟩
  · rw [e]
    have hc := deliver_ok hc
    cases m with
    | create m =>
      simp only [handle] at hc
      obtain ⟨nv, h1, _⟩ := create_spec hc
      exact .create m nv rfl h1
    | cancel signer aid =>
      simp only [handle] at hc
      obtain ⟨fp, v, pre, h1, h2, post, h3, h4⟩ := cancel_spec hc
      exact .cancel signer aid v rfl fp pre h1 h2 post h3 h4
    | place bidder aid t price denom amt =>
      cases t with
      | none =>
        simp only [handle] at hc
        exact (fail_ok.mp hc).elim
      | some t =>
        simp only [handle] at hc
        obtain ⟨fp, v, pre, h1, h2, r, mm, post⟩ := place_spec hc
        exact .place bidder aid t price denom amt v r mm rfl fp pre h1 h2 post
    | modify bidder aid bidId price denom amt =>
      simp only [handle] at hc
      obtain ⟨fp, v, bid, pre, h1, h2, h3, h4, h5, h6, h7, post⟩ := modify_spec hc
      exact .modify bidder aid bidId price denom amt v bid rfl fp pre h1 h2 h3 h4 h5 h6 h7 post
    | addAllowed aid ab =>
      obtain ⟨hen, hc⟩ := handle_addAllowed hc
      obtain ⟨fp, v, l, pre, kept, post⟩ := addAllowed_spec hc
      exact .allowed aid v l (fun _ _ => hen) fp pre kept post
    | updateParams signer p =>
      simp only [handle, bind_ok, check_ok, pure_ok] at hc
      obtain ⟨_, _, _, _, _, _, rfl⟩ := hc
      exact .same rfl
  · rw [hs]
    exact .same rfl

theorem kadd_kind (st : State) (aid : Nat) (abs : List AllowedArg) :
    Kind st.core (.kadd aid abs) (step st (.kadd aid abs)).2.core := by
  simp only [step]
  rcases runAtomic_cases st true (fun c => addAllowedBidders c aid abs) with ⟨c, hc, e⟩ | ⟨e, _, hs, _⟩
  · rw [e]
    obtain ⟨fp, v, l, pre, kept, post⟩ := addAllowed_spec hc
    exact .allowed aid v l (fun _ h => by cases h) fp pre kept post
  · rw [hs]
    exact .same rfl

theorem kupd_kind (st : State) (aid : Nat) (u : Acc) (cap : Int) :
    Kind st.core (.kupd aid u cap) (step st (.kupd aid u cap)).2.core := by
  simp only [step]
  rcases runAtomic_cases st true (fun c => updateAllowedBidder c aid u cap) with ⟨c, hc, e⟩ | ⟨e, _, hs, _⟩
  · rw [e]
    obtain ⟨fp, v, l, pre, kept, post⟩ := updateAllowed_spec hc
    exact .allowed aid v l (fun _ h => by cases h) fp pre kept post
  · rw [hs]
    exact .same rfl

/-- every operation but `reset` is a block or one of the `Kind`s -/
theorem step_kind (st : State) (op : Op) (hop : op ≠ .reset) (hwf : WF st.core) :
    (∃ t, op = .block t) ∨ Kind st.core op (step st op).2.core := by
  cases op with
  | reset => exact absurd rfl hop
  | fund u d amt => exact Or.inr (.same rfl)
  | gift src dst d amt =>
    refine Or.inr (.same ?_)
    simp only [step]
    split
    · rfl
    · split <;> rfl
  | msg m => exact Or.inr (msg_kind st m)
  | kadd aid abs => exact Or.inr (kadd_kind st aid abs)
  | kupd aid u cap => exact Or.inr (kupd_kind st aid u cap)
  | block t => exact Or.inl ⟨t, rfl⟩
  | genesis =>
    refine Or.inr (.same ?_)
    simp only [step, reimport_eq st.core hwf]
  | listeners n => exact Or.inr (.same rfl)
  | failhook name idx => exact Or.inr (.same rfl)
  | fault k => exact Or.inr (.same rfl)
  | query q => exact Or.inr (.same rfl)

/-! ### frames of targeted operations and of creation (no well-formedness needed) -/

theorem targeted_fp (st : State) (op : Op) (a : Nat) (ht : op.target = some a) :
    FP a st.core (step st op).2.core := by
  have hmsg : ∀ m, Op.target (.msg m) = some a → FP a st.core (step st (.msg m)).2.core := by
    intro m ht
    simp only [step]
    rcases runAtomic_cases st true (fun c => deliver c m) with ⟨c, hc, e⟩ | ⟨e, _, hs, _⟩
    · rw [e]
      have hc := deliver_ok hc
      cases m with
      | create m => simp [Op.target] at ht
      | cancel signer aid =>
        simp only [Op.target, Option.some.injEq] at ht
        subst ht
        simp only [handle] at hc
        exact (cancel_spec hc).1
      | place bidder aid t price denom amt =>
        simp only [Op.target, Option.some.injEq] at ht
        subst ht
        cases t with
        | none =>
          simp only [handle] at hc
          exact (fail_ok.mp hc).elim
        | some t =>
          simp only [handle] at hc
          exact (place_spec hc).1
      | modify bidder aid bidId price denom amt =>
        simp only [Op.target, Option.some.injEq] at ht
        subst ht
        simp only [handle] at hc
        exact (modify_spec hc).1
      | addAllowed aid ab =>
        simp only [Op.target, Option.some.injEq] at ht
        subst ht
        exact (addAllowed_spec (handle_addAllowed hc).2).1
      | updateParams signer p => simp [Op.target] at ht
    · rw [hs]
      exact FP.refl _ _
  cases op with
  | msg m => exact hmsg m ht
  | kadd aid abs =>
    simp only [Op.target, Option.some.injEq] at ht
    subst ht
    simp only [step]
    rcases runAtomic_cases st true (fun c => addAllowedBidders c aid abs) with ⟨c, hc, e⟩ | ⟨e, _, hs, _⟩
    · rw [e]; exact (addAllowed_spec hc).1
    · rw [hs]; exact FP.refl _ _
  | kupd aid u cap =>
    simp only [Op.target, Option.some.injEq] at ht
    subst ht
    simp only [step]
    rcases runAtomic_cases st true (fun c => updateAllowedBidder c aid u cap) with ⟨c, hc, e⟩ | ⟨e, _, hs, _⟩
    · rw [e]; exact (updateAllowed_spec hc).1
    · rw [hs]; exact FP.refl _ _
  | reset => simp [Op.target] at ht
  | fund u d amt => simp [Op.target] at ht
  | gift src dst d amt => simp [Op.target] at ht
  | block t => simp [Op.target] at ht
  | genesis => simp [Op.target] at ht
  | listeners n => simp [Op.target] at ht
  | failhook name idx => simp [Op.target] at ht
  | fault k => simp [Op.target] at ht
  | query q => simp [Op.target] at ht

theorem create_frame (st : State) (m : CreateMsg) :
    (∀ j, j < st.core.views.length →
      (step st (.msg (.create m))).2.core.views[j]? = st.core.views[j]?) ∧
    OtherEsc st.core.views.length st.core.bank (step st (.msg (.create m))).2.core.bank ∧
    (step st (.msg (.create m))).2.core.views.length ≤ st.core.views.length + 1 := by
  simp only [step]
  rcases runAtomic_cases st true (fun c => deliver c (.create m)) with ⟨c, hc, e⟩ | ⟨e, _, hs, _⟩
  · rw [e]
    have hc := deliver_ok hc
    simp only [handle] at hc
    obtain ⟨nv, h1, h2, _⟩ := create_spec hc
    refine ⟨?_, h2, ?_⟩
    · intro j hj
      show c.s.views[j]? = _
      rw [h1, List.getElem?_append_left hj]
    · show c.s.views.length ≤ _
      rw [h1, List.length_append]
      exact Nat.le_refl _
  · rw [hs]
    exact ⟨fun _ _ => rfl, OtherEsc.refl _ _, Nat.le_succ _⟩

end Fundraising.Frame
