import Fundraising.Proofs.FrameSettle
import Fundraising.Proofs.GenesisProofs
/-
  What `BeginBlocker` may do to one auction (`BRel`), one iteration (`blockStep`), the loop
  and the `block` operation.
-/
set_option linter.unusedSimpArgs false
set_option linter.unusedVariables false
namespace Fundraising.Frame

/-- what one block may do to an auction's record (block time `t`, extended period `period`) -/
structure BRel (t : Int) (period : Nat) (v v' : AView) : Prop where
  terms : v'.a.terms = v.a.terms
  status : statusEdge v.a.status v'.a.status = true
  notCancel : v'.a.status = .cancelled → v.a.status = .cancelled
  ends : v'.a.endTimes = v.a.endTimes ∨
    (v.a.status = .started ∧ v.a.type = .batch ∧ v.a.lastEnd ≤ t ∧
     v.a.maxExt + 1 ≠ v.a.endTimes.length ∧
     v'.a.endTimes = v.a.endTimes ++ [v.a.lastEnd + 86400 * (period : Int)] ∧ v'.a.status = .started)
  bids : ∃ f : Bid → Bool, v'.bids = v.bids.map (fun b => { b with matched := f b })
  allowed : v'.allowed = v.allowed
  seq : v'.bidSeq = v.bidSeq
  vqs : ∀ q ∈ v.vqs, ∃ q' ∈ v'.vqs,
    q'.release = q.release ∧ q'.amt = q.amt ∧ (q.released = true → q'.released = true)

theorem map_matched_self (l : List Bid) : l = l.map (fun b => { b with matched := b.matched }) := by
  induction l with
  | nil => rfl
  | cons b bs ih => rw [List.map_cons, ← ih]

theorem BRel.refl (t : Int) (period : Nat) (v : AView) : BRel t period v v where
  terms := rfl
  status := statusEdge_refl _
  notCancel := id
  ends := Or.inl rfl
  bids := ⟨(·.matched), map_matched_self _⟩
  allowed := rfl
  seq := rfl
  vqs := fun q hq => ⟨q, hq, rfl, rfl, id⟩

theorem BRel.viewStep {t : Int} {period : Nat} {v v' : AView} (r : BRel t period v v') : ViewStep v v' where
  status := r.status
  terms := r.terms
  ends := by
    rcases r.ends with e | ⟨_, _, _, _, e, _⟩
    · exact ⟨[], by rw [e]; simp⟩
    · exact ⟨_, e⟩
  bidsKept := by
    obtain ⟨f, hf⟩ := r.bids
    refine ⟨[], ?_⟩
    rw [hf, List.map_map, List.append_nil]
    rfl
  bidsGrow := by
    obtain ⟨f, hf⟩ := r.bids
    intro b hb
    refine ⟨{ b with matched := f b }, ?_, rfl, Int.le_refl _, Int.le_refl _⟩
    rw [hf]
    exact List.mem_map.mpr ⟨b, hb, rfl⟩
  allowedKept := by
    intro x hx
    rw [r.allowed]
    exact ⟨x, hx, rfl⟩
  seq := Nat.le_of_eq r.seq.symm
  vqsKept := r.vqs

/-- settlement of a started auction without instalments on record -/
theorem brel_of_srel {t : Int} {period : Nat} {v v' : AView} (hst : v.a.status = .started)
    (hq : v.vqs = []) (f : Bid → Bool) (ml : Int)
    (r : SRel { v with bids := v.bids.map (fun b => { b with matched := f b }), matchedLen := ml } v') :
    BRel t period v v' := by
  obtain ⟨st', mp, hst', ha⟩ := r.a
  simp only at ha
  refine ⟨by rw [ha]; rfl, ?_, ?_, Or.inl (by rw [ha]), ⟨f, r.bids⟩, r.allowed, r.seq, ?_⟩
  · rw [ha, hst]
    rcases hst' with e | e <;> rw [e] <;> rfl
  · rw [ha]
    intro h
    rcases hst' with e | e <;> rw [e] at h <;> cases h
  · intro q hq'
    rw [hq] at hq'
    cases hq'

theorem head?_append_ne {α : Type} {l : List α} (h : l ≠ []) (m : List α) : (l ++ m).head? = l.head? := by
  cases l with
  | nil => exact absurd rfl h
  | cons x xs => rfl

theorem brel_of_cbres {t : Int} {period : Nat} {v v' : AView} (hst : v.a.status = .started)
    (hty : v.a.type = .batch) (hne : v.a.endTimes ≠ []) (hle : v.a.lastEnd ≤ t)
    (hq : v.vqs = []) (r : CBRes v period v') : BRel t period v v' := by
  obtain ⟨f, ml, r | ⟨hext, rfl⟩⟩ := r
  · exact brel_of_srel hst hq f ml r
  · refine ⟨?_, statusEdge_refl _, id, Or.inr ⟨hst, hty, hle, hext, rfl, hst⟩, ⟨f, rfl⟩, rfl, rfl, ?_⟩
    · simp only [Auction.terms, head?_append_ne hne]
    · intro q hq'
      exact ⟨q, hq', rfl, rfl, id⟩

theorem brel_of_rrel {t : Int} {period : Nat} {v v' : AView} (hst : v.a.status = .vesting)
    (r : RRel v v') : BRel t period v v' := by
  have ha := r.a
  refine ⟨by rw [ha]; rfl, ?_, ?_, Or.inl (by rw [ha]), ⟨(·.matched), ?_⟩, r.allowed, r.seq, r.vqs.mem⟩
  · rw [hst]
    rcases r.status with e | e
    · rw [e, hst]; rfl
    · rw [e]; rfl
  · intro h
    rcases r.status with e | e
    · rw [← e]; exact h
    · rw [e] at h; cases h
  · rw [r.bids]
    exact map_matched_self _

theorem lastEnd_of_getLast? {a : Auction} {e : Int} (h : a.endTimes.getLast? = some e) :
    a.lastEnd = e ∧ a.endTimes ≠ [] := by
  refine ⟨by simp [Auction.lastEnd, h], ?_⟩
  intro hn
  rw [hn] at h
  cases h

/-! ### one iteration of the `BeginBlocker` loop -/

theorem blockStep_view {c c' : Ctx} {aid : Nat} (h : blockStep c aid = .ok c') :
    ∃ v, c.s.views[aid]? = some v := by
  unfold blockStep at h
  simp only [bind_ok, view_ok_iff] at h
  obtain ⟨v, hv, _⟩ := h
  exact ⟨v, hv⟩

theorem blockStep_spec {c c' : Ctx} {aid : Nat} {v : AView} (h : blockStep c aid = .ok c')
    (hv : c.s.views[aid]? = some v) (hid : v.a.id = aid) :
    FP aid c.s c'.s ∧ ((v.a.status = .started → v.vqs = []) →
      (v.vqs.map (·.release)).Pairwise (· < ·) →
      ∃ v', c'.s.views[aid]? = some v' ∧ BRel c.s.now c.s.params.period v v') := by
  unfold blockStep at h
  simp only [bind_ok, view_ok_iff] at h
  obtain ⟨v0, hv0, h⟩ := h
  rw [hv] at hv0; cases hv0
  cases hs : v.a.status with
  | standby =>
    rw [hs] at h
    simp only at h
    split at h
    · simp only [pure_ok] at h
      subst h
      refine ⟨fp_setView c aid _, fun _ _ => ⟨_, setView_get _ hv, ?_⟩⟩
      refine ⟨rfl, ?_, ?_, Or.inl rfl, ⟨(·.matched), map_matched_self _⟩, rfl, rfl,
        fun q hq => ⟨q, hq, rfl, rfl, id⟩⟩
      · rw [hs]; rfl
      · intro h; cases h
    · simp only [pure_ok] at h
      subst h
      exact ⟨FP.refl _ _, fun _ _ => ⟨v, hv, BRel.refl _ _ _⟩⟩
  | started =>
    rw [hs] at h
    simp only at h
    split at h
    · exact (fail_ok.mp h).elim
    · rename_i e hlast
      obtain ⟨hle, hne⟩ := lastEnd_of_getLast? hlast
      split at h
      · rename_i hdue
        rw [← hle] at hdue
        cases hty : v.a.type with
        | fixed =>
          rw [hty] at h
          simp only at h
          obtain ⟨f, v', hv', r⟩ := closeFixed_spec h hv hid
          refine ⟨f, fun hq _ => ⟨v', hv', ?_⟩⟩
          apply brel_of_srel hs (hq rfl) (·.matched) v.matchedLen
          have : ({ v with bids := v.bids.map (fun b => { b with matched := b.matched }),
                            matchedLen := v.matchedLen } : AView) = v := by
            rw [← map_matched_self]
          rw [this]
          exact r
        | batch =>
          rw [hty] at h
          simp only at h
          obtain ⟨f, v', hv', r⟩ := closeBatch_spec h hv hid
          exact ⟨f, fun hq _ => ⟨v', hv', brel_of_cbres hs hty hne hdue (hq rfl) r⟩⟩
      · simp only [pure_ok] at h
        subst h
        exact ⟨FP.refl _ _, fun _ _ => ⟨v, hv, BRel.refl _ _ _⟩⟩
  | vesting =>
    rw [hs] at h
    simp only at h
    obtain ⟨f, hr⟩ := releaseVesting_spec h hv
    refine ⟨f, fun _ hsorted => ?_⟩
    obtain ⟨v', hv', r⟩ := hr hsorted
    exact ⟨v', hv', brel_of_rrel hs r⟩
  | finished =>
    rw [hs] at h
    simp only [pure_ok] at h
    subst h
    exact ⟨FP.refl _ _, fun _ _ => ⟨v, hv, BRel.refl _ _ _⟩⟩
  | cancelled =>
    rw [hs] at h
    simp only [pure_ok] at h
    subst h
    exact ⟨FP.refl _ _, fun _ _ => ⟨v, hv, BRel.refl _ _ _⟩⟩

/-- nothing due for the auction: the iteration does nothing -/
theorem blockStep_idle {c c' : Ctx} {aid : Nat} {v : AView} (h : blockStep c aid = .ok c')
    (hv : c.s.views[aid]? = some v) (hidle : idleAt v c.s.now = true) : c' = c := by
  unfold blockStep at h
  simp only [bind_ok, view_ok_iff] at h
  obtain ⟨v0, hv0, h⟩ := h
  rw [hv] at hv0; cases hv0
  unfold idleAt at hidle
  cases hs : v.a.status with
  | standby =>
    rw [hs] at h hidle
    simp only [decide_eq_true_eq] at h hidle
    rw [if_neg (by omega)] at h
    simp only [pure_ok] at h
    exact h.symm
  | started =>
    rw [hs] at h hidle
    simp only [decide_eq_true_eq] at h hidle
    split at h
    · exact (fail_ok.mp h).elim
    · rename_i e hlast
      obtain ⟨hle, _⟩ := lastEnd_of_getLast? hlast
      rw [if_neg (by omega)] at h
      simp only [pure_ok] at h
      exact h.symm
  | vesting =>
    rw [hs] at h hidle
    simp only at h hidle
    unfold releaseVesting at h
    simp only [bind_ok, view_ok_iff] at h
    obtain ⟨v0, hv0, h⟩ := h
    rw [hv] at hv0; cases hv0
    rw [releaseLoop_idle hidle] at h
    exact (Except.ok.inj h).symm
  | finished =>
    rw [hs] at h
    simp only [pure_ok] at h
    exact h.symm
  | cancelled =>
    rw [hs] at h
    simp only [pure_ok] at h
    exact h.symm

/-! ### the loop -/

theorem viewWF_block {i : Nat} {v : AView} (w : ViewWF i v) :
    v.a.id = i ∧ (v.a.status = .started → v.vqs = []) ∧ (v.vqs.map (·.release)).Pairwise (· < ·) :=
  ⟨w.id, fun h => w.vqsNone (Or.inr (Or.inl h)), vqs_sorted i v w⟩

theorem blockLoop_spec : ∀ {l : List Nat} {c c' : Ctx}, l.Nodup →
    (∀ i ∈ l, ∀ v, c.s.views[i]? = some v → ViewWF i v) → blockLoop c l = .ok c' →
    (c'.s.views.length = c.s.views.length ∧ c'.s.params = c.s.params ∧ c'.s.now = c.s.now ∧
      c'.s.enableAdd = c.s.enableAdd) ∧
    (∀ j, j ∉ l → c'.s.views[j]? = c.s.views[j]?) ∧
    (∀ i ∈ l, ∀ v, c.s.views[i]? = some v →
      ∃ v', c'.s.views[i]? = some v' ∧ BRel c.s.now c.s.params.period v v') ∧
    (∀ j v, c.s.views[j]? = some v → idleAt v c.s.now = true →
      c'.s.views[j]? = some v ∧ SameEscrows c.s c'.s j) := by
  intro l
  induction l with
  | nil =>
    intro c c' _ _ h
    simp only [blockLoop, pure_ok] at h
    subst h
    refine ⟨⟨rfl, rfl, rfl, rfl⟩, fun _ _ => rfl, ?_, fun j v hv _ => ⟨hv, sameEscrows_refl _ _⟩⟩
    intro i hi
    cases hi
  | cons aid rest ih =>
    intro c c' hnd hwf h
    simp only [blockLoop, bind_ok] at h
    obtain ⟨c1, h1, h2⟩ := h
    rw [List.nodup_cons] at hnd
    obtain ⟨v, hv⟩ := blockStep_view h1
    obtain ⟨hid, hq, hsorted⟩ := viewWF_block (hwf aid (List.mem_cons_self ..) v hv)
    obtain ⟨f1, hr⟩ := blockStep_spec h1 hv hid
    obtain ⟨v1, hv1, r1⟩ := hr hq hsorted
    have hwf1 : ∀ i ∈ rest, ∀ w, c1.s.views[i]? = some w → ViewWF i w := by
      intro i hi w hw
      have hne : i ≠ aid := fun e => hnd.1 (e ▸ hi)
      rw [f1.others i hne] at hw
      exact hwf i (List.mem_cons_of_mem _ hi) w hw
    obtain ⟨⟨g1, g2, g3, g4⟩, hout, hin, hidl⟩ := ih hnd.2 hwf1 h2
    refine ⟨⟨g1.trans f1.len, g2.trans f1.params, g3.trans f1.now, g4.trans f1.enableAdd⟩, ?_, ?_, ?_⟩
    · intro j hj
      rw [List.mem_cons, not_or] at hj
      rw [hout j hj.2, f1.others j hj.1]
    · intro i hi w hw
      rcases List.mem_cons.mp hi with rfl | hi
      · rw [hv] at hw; cases hw
        exact ⟨v1, by rw [hout i hnd.1]; exact hv1, r1⟩
      · have hne : i ≠ aid := fun e => hnd.1 (e ▸ hi)
        have hw1 : c1.s.views[i]? = some w := by rw [f1.others i hne]; exact hw
        obtain ⟨w', hw', r⟩ := hin i hi w hw1
        rw [f1.now, f1.params] at r
        exact ⟨w', hw', r⟩
    · intro j w hw hidle
      by_cases hj : j = aid
      · subst hj
        have e := blockStep_idle h1 hw hidle
        subst e
        exact hidl j w hw hidle
      · have hw1 : c1.s.views[j]? = some w := by rw [f1.others j hj]; exact hw
        obtain ⟨a, b⟩ := hidl j w hw1 (by rw [f1.now]; exact hidle)
        exact ⟨a, SameEscrows.trans (f1.same hj) b⟩

/-! ### the `block` operation -/

/-- what a block does: every auction takes a `BRel` step, idle auctions are untouched -/
theorem block_spec (st : State) (t : Int) (hwf : WF st.core) :
    (step st (.block t)).2.core.views.length = st.core.views.length ∧
    (step st (.block t)).2.core.params = st.core.params ∧
    (∀ (i : Nat) (v : AView), st.core.views[i]? = some v →
      ∃ v', (step st (.block t)).2.core.views[i]? = some v' ∧ BRel t st.core.params.period v v') ∧
    (∀ (j : Nat) (v : AView), st.core.views[j]? = some v → idleAt v t = true →
      (step st (.block t)).2.core.views[j]? = some v ∧
      SameEscrows st.core (step st (.block t)).2.core j) := by
  simp only [step]
  rcases runAtomic_cases { st with core := { st.core with now := t } } false
    (fun c => beginBlock c t) with ⟨c, hc, e⟩ | ⟨e, _, hs, _⟩
  · rw [e]
    simp only
    unfold beginBlock at hc
    simp only at hc
    obtain ⟨⟨g1, g2, _, _⟩, _, hin, hidl⟩ := blockLoop_spec List.nodup_range
      (fun i _ v hv => hwf.views i v hv) hc
    refine ⟨g1, g2, ?_, ?_⟩
    · intro i v hv
      exact hin i (List.mem_range.mpr (lt_of_get hv)) v hv
    · intro j v hv hidle
      exact hidl j v hv hidle
  · rw [hs]
    exact ⟨rfl, rfl, fun i v hv => ⟨v, hv, BRel.refl _ _ _⟩,
      fun j v hv _ => ⟨hv, fun d => ⟨rfl, rfl, rfl⟩⟩⟩

end Fundraising.Frame
