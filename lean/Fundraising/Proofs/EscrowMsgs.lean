import Fundraising.Proofs.EscrowBasic
/-
  C01: the message handlers and keeper-API calls keep the escrow accounting of the
  auction they work on and touch no other auction's escrows.
-/
namespace Fundraising

theorem status_of_beq {a b : Status} (h : (a == b) = true) : a = b := by
  simpa using h

/-! ### CancelAuction -/

theorem cancel_good {c c' : Ctx} {signer : Acc} {aid : Nat}
    (h : cancelAuction c signer aid = .ok c') : Good aid c.s c'.s := by
  unfold cancelAuction at h
  simp only [bind_ok, check_ok, view_ok_iff, pure_ok] at h
  obtain ⟨v, hv, _, _, _, hst, coins, hmk, c1, hbc, c2, hhk, rfl⟩ := h
  have hst := status_of_beq hst
  obtain ⟨_, h1⟩ := send_mk hmk hbc
  obtain ⟨h2, _⟩ := hook_ok hhk
  refine good_of_set hv (by rw [setView_views, h2, h1]) ?_ ?_
  · intro x j hx hj d
    rw [setView_bank, h2, h1]
    simp only [move_apply]
    have e1 : x ≠ Addr.sell aid := by intro e; subst e; simp [Addr.esc] at hx; exact hj hx.symm
    have e2 : x ≠ Addr.user v.a.auctioneer := by intro e; subst e; simp [Addr.esc] at hx
    simp [e1, e2]
  · intro _
    refine ⟨rfl, rfl, ?_, ?_, ?_⟩
    · intro d
      simp only [slackSell, owedSell, setView_bank, h2, h1, move_apply, Ctx.bal, hst]
      by_cases hd : d = v.a.sellDenom
      · right; simp [hd]
      · left; simp [hd]
    · intro d; left
      simp only [slackPay, owedPay, setView_bank, h2, h1, move_apply, hst]
      simp
    · intro d; left
      simp only [slackVest, owedVest, setView_bank, h2, h1, move_apply, hst]
      simp

end Fundraising
