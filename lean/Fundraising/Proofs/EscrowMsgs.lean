import Fundraising.Proofs.EscrowBasic
/-
  C01: the message handlers and keeper-API calls keep the escrow accounting of the
  auction they work on and touch no other auction's escrows.
-/
set_option linter.unusedSimpArgs false
set_option linter.unusedVariables false
namespace Fundraising.EscrowInv

theorem status_of_beq {a b : Status} (h : (a == b) = true) : a = b := by
  simpa using h

/-! ### CancelAuction -/

theorem cancel_good {c c' : Ctx} {signer : Acc} {aid : Nat}
    (h : cancelAuction c signer aid = .ok c') : Good aid c.s c'.s := by
  unfold cancelAuction at h
  simp only [bind_ok, check_ok, view_ok_iff, pure_ok] at h
  obtain ⟨v, hv, _, _, _, hst, coins, hmk, c1, hbc, c2, hhk, rfl⟩ := h
  have hst := status_of_beq hst
  obtain ⟨_, h1⟩ := send_mk hmk hbc
  obtain ⟨h2, _⟩ := hook_ok hhk
  refine good_of_set hv (by rw [setView_views, h2, h1]) ?_ ?_
  · intro x j hx hj d
    rw [setView_bank, h2, h1]
    simp only [move_apply]
    have e1 : x ≠ Addr.sell aid := by intro e; subst e; simp [escIdx] at hx; exact hj hx.symm
    have e2 : x ≠ Addr.user v.a.auctioneer := by intro e; subst e; simp [escIdx] at hx
    simp [e1, e2]
  · intro _
    refine ⟨rfl, rfl, ?_, ?_, ?_⟩
    · intro d
      simp only [slackSell, owedSell, setView_bank, h2, h1, move_apply, Ctx.bal, hst]
      by_cases hd : d = v.a.sellDenom
      · right; simp [hd]
      · left; simp [hd]
    · intro d; left
      simp only [slackPay, owedPay, setView_bank, h2, h1, move_apply, hst]
      simp
    · intro d; left
      simp only [slackVest, owedVest, setView_bank, h2, h1, move_apply, hst]
      simp

/-! ### PlaceBid -/

theorem reservedTotal_append {v v' : AView} {b : Bid} (hp : v'.a.payDenom = v.a.payDenom)
    (hb : v'.bids = v.bids ++ [b]) : reservedTotal v' = reservedTotal v + b.toPaying v.a.payDenom := by
  simp [reservedTotal, hp, hb, List.sum_append]

theorem place_good {c c' : Ctx} {bidder : Acc} {aid : Nat} {t : BidType} {price : Dec} {denom : Denom}
    {amt : Int} (h : placeBid c bidder aid t price denom amt = .ok c') : Good aid c.s c'.s := by
  unfold placeBid at h
  simp only [bind_ok, check_ok, view_ok_iff, pure_ok] at h
  obtain ⟨v, hv, _, hst, _, _, h⟩ := h
  have hst := status_of_beq hst
  split at h
  · rename_i ab _
    simp only [bind_ok, check_ok, view_ok_iff, pure_ok] at h
    obtain ⟨_, rfl, c1, hfee, ⟨c2, a', bid'⟩, hin, c3, hhk, rfl⟩ := h
    have key : ∃ P, c2.s = { c1.s with bank := c1.s.bank.move (.user bidder) (.pay aid) v.a.payDenom P } ∧
        a'.status = v.a.status ∧ a'.sellDenom = v.a.sellDenom ∧ a'.payDenom = v.a.payDenom ∧
        a'.sellAmt = v.a.sellAmt ∧ bid'.toPaying v.a.payDenom = P := by
      cases t with
      | fixed =>
        simp only [bind_ok, check_ok, pure_ok] at hin
        obtain ⟨_, _, _, _, _, _, _, _, _, _, coins, hmk, c2', hbc, heq⟩ := hin
        cases heq
        obtain ⟨_, h1⟩ := send_mk hmk hbc
        exact ⟨_, h1, rfl, rfl, rfl, rfl, rfl⟩
      | worth =>
        simp only [bind_ok, check_ok, pure_ok] at hin
        obtain ⟨_, _, _, hd, _, _, coins, hmk, c2', hbc, heq⟩ := hin
        cases heq
        have hd : denom = v.a.payDenom := by simpa using hd
        subst hd
        obtain ⟨_, h1⟩ := send_mk hmk hbc
        exact ⟨_, h1, rfl, rfl, rfl, rfl, by simp [Bid.toPaying]⟩
      | many =>
        simp only [bind_ok, check_ok, pure_ok] at hin
        obtain ⟨_, _, _, _, _, _, coins, hmk, c2', hbc, heq⟩ := hin
        cases heq
        obtain ⟨_, h1⟩ := send_mk hmk hbc
        exact ⟨_, h1, rfl, rfl, rfl, rfl, rfl⟩
    obtain ⟨P, h2, hs, hsd, hpd, hsa, hP⟩ := key
    obtain ⟨b1, h1, hb1⟩ := fee_core hfee
    obtain ⟨h3, _⟩ := hook_ok hhk
    simp only at h3
    refine good_of_set hv (by rw [setView_views, h3, h2, h1]) ?_ ?_
    · intro x j hx hj d
      rw [setView_bank, h3, h2, h1]
      simp only [move_apply]
      simp [esc_ne_pay hx hj, esc_ne_user hx, hb1 x j hx d]
    · intro _
      refine ⟨hsd, hpd, ?_, ?_, ?_⟩
      · intro d; left
        simp only [slackSell, owedSell, setView_bank, h3, h2, h1, move_apply, hs, hsd, hsa,
          hb1 (.sell aid) aid rfl d]
        simp
      · intro d; left
        have hr := reservedTotal_append (v := v) (b := bid')
          (v' := { a := a', allowed := v.allowed, bids := v.bids ++ [bid'], vqs := v.vqs,
                   matchedLen := v.matchedLen, bidSeq := v.bidSeq + 1 }) hpd rfl
        simp only [slackPay, owedPay, setView_bank, h3, h2, h1, move_apply, hs, hpd, hst,
          hb1 (.pay aid) aid rfl d, hr, hP]
        by_cases hd : d = v.a.payDenom
        · simp [hd]; omega
        · simp [hd]
      · intro d; left
        simp only [slackVest, owedVest, setView_bank, h3, h2, h1, move_apply, hs, hpd, hst,
          hb1 (.vest aid) aid rfl d]
        simp
  · simp only [bind_ok, fail_ok] at h
    obtain ⟨_, h, _⟩ := h
    exact h.elim

/-! ### ModifyBid -/

theorem ceil_mul (x : Dec) : ∃ k, Dec.ceil x = k * PREC := by
  unfold Dec.ceil
  simp only
  split
  · exact ⟨_, rfl⟩
  · split <;> exact ⟨_, rfl⟩

theorem truncInt_ceil_sub (x y : Dec) :
    Dec.truncInt (Dec.ceil x - Dec.ceil y) = Dec.truncInt (Dec.ceil x) - Dec.truncInt (Dec.ceil y) := by
  obtain ⟨a, ha⟩ := ceil_mul x
  obtain ⟨b, hb⟩ := ceil_mul y
  rw [ha, hb]
  unfold Dec.truncInt
  rw [← Int.sub_mul, Int.mul_tdiv_cancel _ (by decide), Int.mul_tdiv_cancel _ (by decide),
    Int.mul_tdiv_cancel _ (by decide)]

theorem map_replace_id (id : Nat) (b' : Bid) : ∀ (l : List Bid), (∀ y ∈ l, y.id ≠ id) →
    l.map (fun x => if x.id == id then b' else x) = l := by
  intro l
  induction l with
  | nil => intro _; rfl
  | cons x xs ih =>
    intro h
    have hx : x.id ≠ id := h x (by simp)
    simp only [List.map_cons]
    rw [ih (fun y hy => h y (List.mem_cons_of_mem _ hy))]
    simp [hx]

theorem sum_map_replace (f : Bid → Int) (id : Nat) (b b' : Bid) : ∀ (l : List Bid),
    (l.map (·.id)).Pairwise (· ≠ ·) → b ∈ l → b.id = id →
    ((l.map (fun x => if x.id == id then b' else x)).map f).sum = (l.map f).sum + f b' - f b := by
  intro l
  induction l with
  | nil => intro _ hb; cases hb
  | cons x xs ih =>
    intro hnd hb hid
    rw [List.map_cons, List.pairwise_cons] at hnd
    by_cases hx : x.id = id
    · have hxb : b = x := by
        rcases List.mem_cons.mp hb with e | e
        · exact e
        · exact absurd (hid.trans hx.symm).symm (hnd.1 b.id (List.mem_map.mpr ⟨b, e, rfl⟩))
      subst hxb
      have hrest : ∀ y ∈ xs, y.id ≠ id := by
        intro y hy e
        exact hnd.1 y.id (List.mem_map.mpr ⟨y, hy, rfl⟩) (hx.trans e.symm)
      simp only [List.map_cons, List.sum_cons]
      rw [map_replace_id id b' xs hrest]
      simp [hx]; omega
    · have hb' : b ∈ xs := by
        rcases List.mem_cons.mp hb with e | e
        · subst e; exact absurd hid hx
        · exact e
      simp only [List.map_cons, List.sum_cons]
      rw [ih hnd.2 hb' hid]
      simp [hx]; omega

theorem bidIds_pairwise {l : List Bid} (h : l.map (·.id) = (List.range l.length).map (· + 1)) :
    (l.map (·.id)).Pairwise (· ≠ ·) := by
  rw [h, List.pairwise_map]
  exact List.Pairwise.imp (fun hab => by omega) List.pairwise_lt_range

theorem modify_good {c c' : Ctx} {bidder : Acc} {aid bidId : Nat} {price : Dec} {denom : Denom}
    {amt : Int} (h : modifyBid c bidder aid bidId price denom amt = .ok c') : Good aid c.s c'.s := by
  unfold modifyBid at h
  simp only [bind_ok, check_ok, view_ok_iff, pure_ok] at h
  obtain ⟨v, hv, _, hst, _, hty, h⟩ := h
  have hst := status_of_beq hst
  split at h
  · rename_i bid hfind
    simp only [bind_ok, check_ok, view_ok_iff, pure_ok] at h
    obtain ⟨_, rfl, _, _, _, _, _, hden, _, hge, _, _, c1, hin, c2, hhk, rfl⟩ := h
    have hden : bid.denom = denom := by simpa using hden
    have hty : v.a.type = .batch := by simpa using hty
    have hmem : bid ∈ v.bids := List.mem_of_find?_eq_some hfind
    have hbid : bid.id = bidId := by simpa using List.find?_some hfind
    obtain ⟨bid', hbid'⟩ : ∃ b : Bid, b = { bid with price := price, amt := amt } := ⟨_, rfl⟩
    have key : ∃ dd D, c1.s = { c.s with bank := c.s.bank.move (.user bidder) (.pay aid) dd D } ∧
        (ViewWF aid v → (dd = v.a.payDenom ∨ D = 0) ∧
          bid'.toPaying v.a.payDenom = bid.toPaying v.a.payDenom + D) := by
      cases hbt : bid.type with
      | worth =>
        rw [hbt] at hin
        simp only at hin
        have hw : ViewWF aid v → bid.denom = v.a.payDenom := by
          intro w
          rcases (w.bids bid hmem).batch hty with ⟨_, h2⟩ | ⟨h1, _⟩
          · exact h2
          · rw [hbt] at h1; cases h1
        by_cases hpos : amt - bid.amt > 0
        · rw [if_pos hpos] at hin
          refine ⟨denom, amt - bid.amt, send_single hin, fun w => ⟨Or.inl (hden ▸ hw w), ?_⟩⟩
          subst hbid'
          simp [Bid.toPaying, hw w]; omega
        · rw [if_neg hpos, pure_ok] at hin
          subst hin
          refine ⟨denom, 0, by rw [move_zero], fun w => ⟨Or.inr rfl, ?_⟩⟩
          subst hbid'
          simp only [Bool.not_eq_true', Bool.or_eq_false_iff, decide_eq_false_iff_not] at hge
          simp [Bid.toPaying, hw w]; omega
      | many =>
        rw [hbt] at hin
        simp only at hin
        have hw : ViewWF aid v → bid.denom ≠ v.a.payDenom := by
          intro w
          rcases (w.bids bid hmem).batch hty with ⟨h1, _⟩ | ⟨_, h2⟩
          · rw [hbt] at h1; cases h1
          · rw [h2]; exact w.auction.denomNe
        have htp : ∀ w : ViewWF aid v, bid'.toPaying v.a.payDenom = bid.toPaying v.a.payDenom +
            (((Dec.ofInt amt).mul price).ceil - ((Dec.ofInt bid.amt).mul bid.price).ceil).truncInt := by
          intro w
          subst hbid'
          rw [truncInt_ceil_sub]
          simp only [Bid.toPaying, hw w, if_false]
          omega
        split at hin
        · exact (fail_ok.mp hin).elim
        · split at hin
          · exact ⟨_, _, send_single hin, fun w => ⟨Or.inl rfl, htp w⟩⟩
          · rw [pure_ok] at hin
            subst hin
            have h0 : (((Dec.ofInt amt).mul price).ceil - ((Dec.ofInt bid.amt).mul bid.price).ceil).truncInt = 0 := by
              omega
            refine ⟨v.a.payDenom, 0, by rw [move_zero], fun w => ⟨Or.inl rfl, ?_⟩⟩
            rw [htp w, h0]
      | fixed =>
        rw [hbt] at hin
        simp only [pure_ok] at hin
        subst hin
        refine ⟨v.a.payDenom, 0, by rw [move_zero], fun w => ?_⟩
        rcases (w.bids bid hmem).batch hty with ⟨h1, _⟩ | ⟨h1, _⟩ <;> (rw [hbt] at h1; cases h1)
    obtain ⟨dd, D, h1, hD⟩ := key
    obtain ⟨h2, _⟩ := hook_ok hhk
    rw [← hbid']
    refine good_of_set hv (by rw [setView_views, h2, h1]) ?_ ?_
    · intro x j hx hj d
      rw [setView_bank, h2, h1]
      simp only [move_apply]
      simp [esc_ne_pay hx hj, esc_ne_user hx]
    · intro w
      obtain ⟨hdd, hD⟩ := hD w
      refine ⟨rfl, rfl, ?_, ?_, ?_⟩
      · intro d; left
        simp only [slackSell, owedSell, setView_bank, h2, h1, move_apply]
        simp
      · intro d; left
        have hr : reservedTotal { v with bids := List.map (fun b => if (b.id == bidId) = true then bid' else b) v.bids } =
            reservedTotal v + D := by
          unfold reservedTotal
          simp only
          rw [sum_map_replace _ bidId bid bid' v.bids (bidIds_pairwise w.bidIds) hmem hbid, hD]
          omega
        simp only [slackPay, owedPay, setView_bank, h2, h1, move_apply, hst, hr]
        rcases hdd with hdd | hdd
        · subst hdd
          by_cases hd : d = v.a.payDenom
          · simp [hd]; omega
          · simp [hd]
        · subst hdd
          simp
      · intro d; left
        simp only [slackVest, owedVest, setView_bank, h2, h1, move_apply, hst]
        simp
  · simp only [bind_ok, fail_ok] at h
    obtain ⟨_, h, _⟩ := h
    exact h.elim

/-! ### allowed-bidder API -/

theorem add_good {c c' : Ctx} {aid : Nat} {abs : List AllowedArg}
    (h : addAllowedBidders c aid abs = .ok c') : Good aid c.s c'.s := by
  unfold addAllowedBidders at h
  simp only [bind_ok, check_ok, view_ok_iff, pure_ok] at h
  obtain ⟨_, _, v, hv, c1, hhk, l, _, rfl⟩ := h
  obtain ⟨h1, _⟩ := hook_ok hhk
  refine good_of_set hv (by rw [setView_views, h1]) ?_ ?_
  · intro x j _ _ d; rw [setView_bank, h1]
  · intro _
    exact keeps_of_eq (fun x _ d => by rw [setView_bank, h1]) rfl rfl rfl rfl rfl rfl

theorem upd_good {c c' : Ctx} {aid : Nat} {bidder : Acc} {cap : Int}
    (h : updateAllowedBidder c aid bidder cap = .ok c') : Good aid c.s c'.s := by
  unfold updateAllowedBidder at h
  simp only [bind_ok, check_ok, view_ok_iff, pure_ok] at h
  obtain ⟨v, hv, _, _, _, _, c1, hhk, rfl⟩ := h
  obtain ⟨h1, _⟩ := hook_ok hhk
  refine good_of_set hv (by rw [setView_views, h1]) ?_ ?_
  · intro x j _ _ d; rw [setView_bank, h1]
  · intro _
    exact keeps_of_eq (fun x _ d => by rw [setView_bank, h1]) rfl rfl rfl rfl rfl rfl

/-! ### CreateAuction -/

theorem create_spec {c c' : Ctx} {m : CreateMsg} (h : createAuction c m = .ok c') :
    ∃ (b' : Bank) (v : AView), c'.s = { c.s with bank := b', views := c.s.views ++ [v] } ∧
      (∀ x j, escIdx x = some j → j ≠ c.s.views.length → ∀ d, b' x d = c.s.bank x d) ∧
      ∀ d, slackSell c'.s c.s.views.length v d = c.s.bank (.sell c.s.views.length) d ∧
        slackPay c'.s c.s.views.length v d = c.s.bank (.pay c.s.views.length) d ∧
        slackVest c'.s c.s.views.length v d = c.s.bank (.vest c.s.views.length) d := by
  unfold createAuction at h
  simp only [bind_ok, check_ok, pure_ok] at h
  obtain ⟨_, _, _, _, _, _, c1, hfee, coins, hmk, c2, hbc, c3, hhk, hhk2⟩ := h
  obtain ⟨b1, h1, hb1⟩ := fee_core hfee
  obtain ⟨_, h2⟩ := send_mk hmk hbc
  obtain ⟨h3, _⟩ := hook_ok hhk
  obtain ⟨h4, _⟩ := hook_ok hhk2
  simp only at h4
  rw [h4, h3, h2, h1]
  refine ⟨_, _, rfl, ?_, ?_⟩
  · intro x j hx hj d
    simp only [move_apply]
    simp [esc_ne_sell hx hj, esc_ne_user hx, hb1 x j hx d]
  · intro d
    refine ⟨?_, ?_, ?_⟩
    · simp only [slackSell, owedSell, move_apply, hb1 (.sell _) _ rfl d]
      by_cases hnow : m.startTime ≤ c.s.now <;> by_cases hd : d = m.sellDenom <;> simp [hnow, hd]
    · simp only [slackPay, owedPay, reservedTotal, move_apply, hb1 (.pay _) _ rfl d]
      simp
    · simp only [slackVest, owedVest, move_apply, hb1 (.vest _) _ rfl d]
      by_cases hnow : m.startTime ≤ c.s.now <;> simp [hnow]

/-! ### the message server -/

theorem deliver_cases {c c' : Ctx} {m : Msg} (h : deliver c m = .ok c') :
    (∃ i, Good i c.s c'.s) ∨ (∃ m', createAuction c m' = .ok c') ∨
    (c'.s.views = c.s.views ∧ c'.s.bank = c.s.bank) := by
  unfold deliver at h
  simp only [bind_ok, check_ok] at h
  obtain ⟨_, _, h⟩ := h
  cases m with
  | create m' => exact Or.inr (Or.inl ⟨m', h⟩)
  | cancel signer aid => exact Or.inl ⟨aid, cancel_good h⟩
  | place bidder aid t price denom amt =>
    cases t with
    | none => exact (fail_ok.mp h).elim
    | some t => exact Or.inl ⟨aid, place_good h⟩
  | modify bidder aid bidId price denom amt => exact Or.inl ⟨aid, modify_good h⟩
  | addAllowed aid ab =>
    simp only [handle, bind_ok, check_ok] at h
    obtain ⟨_, _, h⟩ := h
    exact Or.inl ⟨aid, add_good h⟩
  | updateParams signer p =>
    simp only [handle, bind_ok, check_ok, pure_ok] at h
    obtain ⟨_, _, _, _, _, _, rfl⟩ := h
    exact Or.inr (Or.inr ⟨rfl, rfl⟩)

end Fundraising.EscrowInv
