import Fundraising.Spec.Invariants
import Fundraising.Proofs.VestingLemmas
namespace Fundraising

theorem noDup_iff {α : Type} [DecidableEq α] (l : List α) : noDup l = true ↔ l.Nodup := by
  induction l with
  | nil => simp [noDup]
  | cons x xs ih => simp [noDup, ih, List.nodup_cons]

theorem foldlM_modifyView {β : Type} (tgt : β → Nat) (f : β → AView → AView) :
    ∀ (l : List β) (init : List AView), (∀ p ∈ l, tgt p < init.length) →
      l.foldlM (fun vs p => modifyView vs (tgt p) (f p)) init =
        some (init.mapIdx (fun i v => (l.filter (fun p => tgt p == i)).foldl (fun v p => f p v) v)) := by
  intro l
  induction l with
  | nil =>
    intro init _
    simp only [List.foldlM_nil, List.filter_nil, List.foldl_nil]
    congr 1
    apply List.ext_getElem?
    intro i
    simp [List.getElem?_mapIdx]
  | cons p rest ih =>
    intro init h
    have hk : tgt p < init.length := h p (by simp)
    rw [List.foldlM_cons]
    have hm : modifyView init (tgt p) (f p) = some (init.set (tgt p) (f p init[tgt p])) := by
      simp only [modifyView, List.getElem?_eq_getElem hk]
    rw [hm]
    show (rest.foldlM _ _) = _
    rw [ih _ (by intro q hq; simpa using h q (by simp [hq]))]
    congr 1
    apply List.ext_getElem?
    intro i
    simp only [List.getElem?_mapIdx, List.getElem?_set]
    by_cases hi : tgt p = i
    · subst hi
      simp [hk, List.filter_cons]
    · simp [hi, List.filter_cons]

theorem filter_flatMap_idx {α β : Type} (key : α → Nat) (g : α → List β) (tgt : β → Nat) :
    ∀ (vs : List α) (k0 : Nat), (∀ j v, vs[j]? = some v → key v = k0 + j) →
      (∀ v ∈ vs, ∀ x ∈ g v, tgt x = key v) →
      ∀ j v, vs[j]? = some v → (vs.flatMap g).filter (fun x => tgt x == k0 + j) = g v := by
  intro vs
  induction vs with
  | nil => intro k0 _ _ j v h; simp at h
  | cons w ws ih =>
    intro k0 hkey hg j v hj
    have hw : key w = k0 := by simpa using hkey 0 w (by simp)
    have hkey' : ∀ j v, ws[j]? = some v → key v = (k0 + 1) + j := by
      intro j v h
      have := hkey (j+1) v (by simpa using h)
      omega
    have hg' : ∀ v ∈ ws, ∀ x ∈ g v, tgt x = key v := fun v hv => hg v (by simp [hv])
    rw [List.flatMap_cons, List.filter_append]
    cases j with
    | zero =>
      have : v = w := by simpa using hj.symm
      subst this
      have h1 : (g v).filter (fun x => tgt x == k0 + 0) = g v := by
        rw [List.filter_eq_self]
        intro x hx
        simp [hg v (by simp) x hx, hw]
      have h2 : (ws.flatMap g).filter (fun x => tgt x == k0 + 0) = [] := by
        rw [List.filter_eq_nil_iff]
        intro x hx
        obtain ⟨b, hb, hxb⟩ := List.mem_flatMap.mp hx
        obtain ⟨n, hn⟩ := List.getElem?_of_mem hb
        have := hkey' n b hn
        have := hg' b hb x hxb
        simp; omega
      rw [h1, h2]; simp
    | succ j =>
      have hj' : ws[j]? = some v := by simpa using hj
      have h1 : (g w).filter (fun x => tgt x == k0 + (j+1)) = [] := by
        rw [List.filter_eq_nil_iff]
        intro x hx
        have := hg w (by simp) x hx
        simp; omega
      have := ih (k0+1) hkey' hg' j v hj'
      rw [h1, show k0 + (j+1) = k0 + 1 + j by omega, this]; simp

theorem upsertBy_append_last {α : Type} (key : α → Int) (x : α) :
    ∀ l : List α, (∀ y ∈ l, key y < key x) → upsertBy key x l = l ++ [x] := by
  intro l
  induction l with
  | nil => intro _; rfl
  | cons y ys ih =>
    intro h
    have hy : key y < key x := h y (by simp)
    simp only [upsertBy]
    rw [if_neg (by omega), if_neg (by omega), ih (fun z hz => h z (by simp [hz]))]
    rfl

theorem foldl_upsertBy_sorted {α : Type} (key : α → Int) :
    ∀ (rest pre : List α), ((pre ++ rest).map key).Pairwise (· < ·) →
      rest.foldl (fun acc x => upsertBy key x acc) pre = pre ++ rest := by
  intro rest
  induction rest with
  | nil => intro pre _; simp
  | cons x xs ih =>
    intro pre h
    have hx : ∀ y ∈ pre, key y < key x := by
      intro y hy
      rw [List.map_append, List.pairwise_append] at h
      exact h.2.2 (key y) (List.mem_map_of_mem hy) (key x) (by simp)
    rw [List.foldl_cons, upsertBy_append_last key x pre hx, ih (pre ++ [x]) (by simpa using h)]
    simp

def fA (p : Nat × Allowed) (v : AView) : AView := { v with allowed := setAllowed v.allowed p.2 }
def fB (b : Bid) (v : AView) : AView :=
  let id := v.bidSeq + 1
  { v with bids := v.bids ++ [{ b with id := id }], bidSeq := id }
def fQ (q : VQ) (v : AView) : AView := { v with vqs := setVQ v.vqs q }
def fFin (v : AView) : AView :=
  if v.a.type = .batch then { v with matchedLen := countMatched v.bids } else v

theorem foldl_fA (l : List (Nat × Allowed)) : ∀ v : AView,
    l.foldl (fun v p => fA p v) v =
      { v with allowed := (l.map (·.2)).foldl (fun acc x => setAllowed acc x) v.allowed } := by
  induction l with
  | nil => intro v; rfl
  | cons p ps ih => intro v; simp only [List.foldl_cons, ih, List.map_cons]; rfl

theorem foldl_fQ (l : List VQ) : ∀ v : AView,
    l.foldl (fun v q => fQ q v) v =
      { v with vqs := l.foldl (fun acc x => setVQ acc x) v.vqs } := by
  induction l with
  | nil => intro v; rfl
  | cons p ps ih => intro v; simp only [List.foldl_cons, ih]; rfl

theorem foldl_fB (l : List Bid) : ∀ v : AView,
    l.map (·.id) = List.range' (v.bidSeq + 1) l.length →
    l.foldl (fun v b => fB b v) v =
      { v with bids := v.bids ++ l, bidSeq := v.bidSeq + l.length } := by
  induction l with
  | nil => intro v _; simp
  | cons b bs ih =>
    intro v h
    simp only [List.map_cons, List.length_cons, List.range'_succ, List.cons.injEq] at h
    rw [List.foldl_cons, ih (fB b v) (by simpa [fB] using h.2)]
    have : ({ b with id := v.bidSeq + 1 } : Bid) = b := by
      cases b; simp only [Bid.mk.injEq, and_true, true_and]; exact h.1.symm
    simp only [fB, this, List.length_cons, List.append_assoc, List.singleton_append]
    congr 1; omega

theorem sched_sorted (a : Auction) (h : AuctionWF a) :
    (a.schedules.map (·.release)).Pairwise (· < ·) := by
  by_cases hne : a.schedules = []
  · simp [hne]
  · exact (validSchedules_spec _ _ hne h.sched).2.2

theorem vqs_sorted (i : Nat) (v : AView) (h : ViewWF i v) :
    (v.vqs.map (·.release)).Pairwise (· < ·) := by
  cases hs : v.a.status with
  | standby => simp [h.vqsNone (by simp [hs])]
  | started => simp [h.vqsNone (by simp [hs])]
  | cancelled => simp [h.vqsNone (by simp [hs])]
  | vesting => rw [h.vqsSome (by simp [hs])]; exact sched_sorted _ h.auction
  | finished => rw [h.vqsSome (by simp [hs])]; exact sched_sorted _ h.auction

theorem rebuild_view (i : Nat) (v : AView) (h : ViewWF i v) :
    fFin (v.vqs.foldl (fun v q => fQ q v)
      (v.bids.foldl (fun v b => fB b v)
        ((v.allowed.map (fun x => (v.a.id, x))).foldl (fun v p => fA p v) ({ a := v.a } : AView)))) = v := by
  rw [foldl_fA]
  simp only [List.map_map, Function.comp_def, List.map_id']
  have hA : v.allowed.foldl (fun acc x => setAllowed acc x) [] = v.allowed := by
    have := foldl_upsertBy_sorted (fun a : Allowed => (a.bidder : Int)) v.allowed [] (by
      simp only [List.nil_append]
      have := h.allowedSorted
      rw [List.pairwise_map] at this ⊢
      exact this.imp (by intro a b hab; unfold Acc at *; omega))
    simpa [setAllowed] using this
  rw [hA]
  rw [foldl_fB _ _ (by
    simp only [Nat.zero_add]
    rw [h.bidIds, List.range'_eq_map_range]
    apply List.map_congr_left; intro a _; omega)]
  rw [foldl_fQ]
  have hQ : v.vqs.foldl (fun acc x => setVQ acc x) [] = v.vqs := by
    have := foldl_upsertBy_sorted (fun q : VQ => q.release) v.vqs [] (by
      simpa using vqs_sorted i v h)
    simpa [setVQ] using this
  simp only [hQ, List.nil_append, Nat.zero_add]
  unfold fFin
  cases v with
  | mk a allowed bids vqs matchedLen bidSeq =>
    simp only at h ⊢
    have h1 := h.bidSeq
    have h2 := h.matchedLenBatch
    have h3 := h.matchedLenFixed
    simp only at h1 h2 h3
    cases ht : a.type with
    | batch => simp [ht, h2 ht, h1]
    | fixed => simp [h3 ht, h1]

end Fundraising
