import Fundraising.Proofs.WFBasic
import Fundraising.Proofs.VestingLemmas
/-
  Settlement transfers only touch the bank; `ApplyVestingSchedules` and
  `CloseFixedPriceAuction` preserve `WF` and `BankNonneg`.
-/
namespace Fundraising.WFInv

theorem BidWF.congr {a a' : Auction} {al : List Allowed} {b : Bid} (h : BidWF a al b)
    (h1 : a'.id = a.id) (h2 : a'.type = a.type) (h3 : a'.startPrice = a.startPrice)
    (h4 : a'.payDenom = a.payDenom) (h5 : a'.sellDenom = a.sellDenom) (h6 : a'.minBid = a.minBid) :
    BidWF a' al b :=
  ⟨by rw [h1]; exact h.auction, h.bidder, h.price, h.amt, h.listed,
   by rw [h2, h3, h4, h5]; exact h.fixed, by rw [h2, h4, h5]; exact h.batch,
   by rw [h2, h6]; exact h.minBid⟩

/-! ### transfers -/

theorem payOut_frame {src : Addr} {d : Denom} : ∀ {l : List (Acc × Int)} {c c' : Ctx},
    payOut c src d l = .ok c' → Frame c.s c'.s ∧ (BankNonneg c.s → BankNonneg c'.s) := by
  intro l
  induction l with
  | nil =>
    intro c c' h
    simp only [payOut, pure_ok] at h
    subst h
    exact ⟨Frame.refl _, id⟩
  | cons p rest ih =>
    intro c c' h
    obtain ⟨u, amt⟩ := p
    unfold payOut at h
    split at h
    · exact ih h
    · simp only [bind_ok] at h
      obtain ⟨coins, hmk, c1, hb, h⟩ := h
      obtain ⟨f1, _, n1⟩ := bankCall_frame hb
      obtain ⟨f2, n2⟩ := ih h
      exact ⟨f1.trans f2, fun hn => n2 (n1 (mkCoins_nonneg hmk) hn)⟩

theorem allocateSellingCoin_frame {c c' : Ctx} {a : Auction} {mi : MInfo}
    (h : allocateSellingCoin c a mi = .ok c') :
    Frame c.s c'.s ∧ (BankNonneg c.s → BankNonneg c'.s) := by
  unfold allocateSellingCoin at h
  simp only [bind_ok] at h
  obtain ⟨c1, hh, h⟩ := h
  obtain ⟨f1, _, n1⟩ := hook_frame hh
  obtain ⟨f2, n2⟩ := payOut_frame h
  exact ⟨f1.trans f2, fun hn => n2 (n1 hn)⟩

theorem refundRemainingSellingCoin_frame {c c' : Ctx} {a : Auction}
    (h : refundRemainingSellingCoin c a = .ok c') :
    Frame c.s c'.s ∧ (BankNonneg c.s → BankNonneg c'.s) := by
  unfold refundRemainingSellingCoin at h
  simp only [bind_ok] at h
  obtain ⟨coins, hmk, h⟩ := h
  obtain ⟨f1, _, n1⟩ := bankCall_frame h
  exact ⟨f1, n1 (mkCoins_nonneg hmk)⟩

theorem refundPayingCoin_frame {c c' : Ctx} {a : Auction} {mi : MInfo}
    (h : refundPayingCoin c a mi = .ok c') :
    Frame c.s c'.s ∧ (BankNonneg c.s → BankNonneg c'.s) :=
  payOut_frame h

/-! ### inserting instalments with increasing release times -/

theorem upsertBy_append {α : Type} (key : α → Int) (x : α) :
    ∀ l : List α, (∀ y ∈ l, key y < key x) → upsertBy key x l = l ++ [x] := by
  intro l
  induction l with
  | nil => intro _; rfl
  | cons y ys ih =>
    intro h
    have hy := h y (List.mem_cons_self ..)
    unfold upsertBy
    have h1 : ¬ key x < key y := by omega
    have h2 : ¬ key x = key y := by omega
    simp only [h1, h2, if_false]
    rw [ih (fun z hz => h z (List.mem_cons_of_mem _ hz))]
    rfl

theorem foldl_setVQ (mk : Int × Int → VQ) (hmk : ∀ p, (mk p).release = p.1) :
    ∀ (parts : List (Int × Int)) (acc : List VQ),
      (parts.map (·.1)).Pairwise (· < ·) →
      (∀ y ∈ acc, ∀ p ∈ parts, y.release < p.1) →
      parts.foldl (fun l p => setVQ l (mk p)) acc = acc ++ parts.map mk := by
  intro parts
  induction parts with
  | nil => intro acc _ _; simp
  | cons p ps ih =>
    intro acc hs hacc
    rw [List.foldl_cons]
    have h1 : setVQ acc (mk p) = acc ++ [mk p] := by
      unfold setVQ
      apply upsertBy_append
      intro y hy
      show y.release < (mk p).release
      rw [hmk]
      exact hacc y hy p (List.mem_cons_self ..)
    rw [h1]
    rw [List.map_cons, List.pairwise_cons] at hs
    rw [ih (acc ++ [mk p]) hs.2 ?_]
    · simp
    · intro y hy q hq
      rcases List.mem_append.mp hy with hy | hy
      · exact hacc y hy q (List.mem_cons_of_mem _ hq)
      · simp at hy; subst hy
        rw [hmk]
        exact hs.1 q.1 (List.mem_map.mpr ⟨q, hq, rfl⟩)

theorem pairwise_all {α : Type} {R : α → α → Prop} (h : ∀ a b, R a b) : ∀ l : List α, l.Pairwise R
  | [] => List.Pairwise.nil
  | x :: xs => List.Pairwise.cons (fun y _ => h x y) (pairwise_all h xs)

/-! ### ApplyVestingSchedules -/

theorem applyVesting_wf {c c' : Ctx} {aid : Nat} {v : AView}
    (h : applyVestingSchedules c aid = .ok c') (hw : WF c.s)
    (hv : c.s.views[aid]? = some v) (hst : v.a.status = .started) :
    WF c'.s ∧ (BankNonneg c.s → BankNonneg c'.s) := by
  unfold applyVestingSchedules at h
  simp only [bind_ok] at h
  obtain ⟨v', hv', coins, hmk, h⟩ := h
  rw [view_ok_iff, hv] at hv'
  cases hv'
  have V := hw.views aid v hv
  have hq0 : v.vqs = [] := V.vqsNone (Or.inr (Or.inl hst))
  have hbids : ∀ (st : Status), ∀ b ∈ v.bids, BidWF { v.a with status := st } v.allowed b :=
    fun st b hb => BidWF.congr (V.bids b hb) rfl rfl rfl rfl rfl rfl
  split at h
  · -- no schedule: pay the auctioneer, finished
    rename_i hemp
    simp only [bind_ok, pure_ok] at h
    obtain ⟨c1, hb, rfl⟩ := h
    obtain ⟨f1, _, n1⟩ := bankCall_frame hb
    refine ⟨WF.ctx_setView (WF.frame f1 hw) aid _ ?_, n1 (mkCoins_nonneg hmk)⟩
    have hs0 : v.a.schedules = [] := by simpa using hemp
    exact {
      id := V.id
      auction := { V.auction with }
      bids := hbids _
      bidIds := V.bidIds
      bidSeq := V.bidSeq
      caps := V.caps
      allowedSorted := V.allowedSorted
      noBidsBefore := by intro h; simp at h
      matchedLenBatch := V.matchedLenBatch
      matchedLenFixed := V.matchedLenFixed
      remaining := by intro _ h; simp at h
      vqsNone := by intro h; simp at h
      vqsSome := by
        intro _
        show v.vqs.map (·.release) = v.a.schedules.map (·.release)
        rw [hq0, hs0]; rfl
      vqsWF := by
        show ∀ q ∈ v.vqs, _
        rw [hq0]; intro q hq; cases hq
      releasedPrefix := V.releasedPrefix
      vestingOpen := by intro h; simp at h
      finishedAll := by
        intro _
        show ∀ q ∈ v.vqs, _
        rw [hq0]; intro q hq; cases hq }
  · rename_i hemp
    simp only [bind_ok] at h
    obtain ⟨c1, hb, h⟩ := h
    obtain ⟨f1, _, n1⟩ := bankCall_frame hb
    have hsne : v.a.schedules ≠ [] := by
      intro e; rw [e] at hemp; exact hemp rfl
    obtain ⟨hR, _⟩ := mkCoins_ok hmk
    obtain ⟨hvw, _, hsorted⟩ := validSchedules_spec _ _ hsne V.auction.sched
    obtain ⟨parts, hsp, hrel, _, hnn, _⟩ :=
      splitLoop_spec (c.bal (Addr.pay aid) v.a.payDenom) v.a.schedules hR hvw
    rw [hsp] at h
    simp only [pure_ok] at h
    subst h
    refine ⟨WF.ctx_setView (WF.frame f1 hw) aid _ ?_, n1 (mkCoins_nonneg hmk)⟩
    have hfold := foldl_setVQ
      (fun p => ({ auction := aid, release := p.1, auctioneer := v.a.auctioneer,
                   denom := v.a.payDenom, amt := p.2, released := false } : VQ))
      (fun _ => rfl) parts v.vqs (by rw [hrel]; exact hsorted)
      (by rw [hq0]; intro y hy; cases hy)
    rw [hq0, List.nil_append] at hfold
    have hpne : parts ≠ [] := by
      intro e; rw [e] at hrel
      cases hs : v.a.schedules with
      | nil => exact hsne hs
      | cons x xs => rw [hs] at hrel; simp at hrel
    exact {
      id := V.id
      auction := { V.auction with }
      bids := hbids _
      bidIds := V.bidIds
      bidSeq := V.bidSeq
      caps := V.caps
      allowedSorted := V.allowedSorted
      noBidsBefore := by intro h; simp at h
      matchedLenBatch := V.matchedLenBatch
      matchedLenFixed := V.matchedLenFixed
      remaining := by intro _ h; simp at h
      vqsNone := by intro h; simp at h
      vqsSome := by
        intro _
        show (List.foldl _ v.vqs parts).map (·.release) = v.a.schedules.map (·.release)
        rw [hq0, hfold, List.map_map, ← hrel]
        rfl
      vqsWF := by
        show ∀ q ∈ List.foldl _ v.vqs parts, _
        rw [hq0, hfold]
        intro q hq
        obtain ⟨p, hp, rfl⟩ := List.mem_map.mp hq
        exact ⟨hnn p hp, rfl, rfl, rfl⟩
      releasedPrefix := by
        show (List.foldl _ v.vqs parts).Pairwise _
        rw [hq0, hfold, List.pairwise_map]
        exact pairwise_all (by intro a b h; cases h) _
      vestingOpen := by
        intro _
        show ∃ q, (List.foldl _ v.vqs parts).getLast? = some q ∧ q.released = false
        rw [hq0, hfold]
        obtain ⟨p, hp⟩ : ∃ p, parts.getLast? = some p := by
          cases hgl : parts.getLast? with
          | none => exact absurd (List.getLast?_eq_none_iff.mp hgl) hpne
          | some p => exact ⟨p, rfl⟩
        rw [List.getLast?_map, hp]
        exact ⟨_, rfl, rfl⟩
      finishedAll := by intro h; simp at h }

end Fundraising.WFInv
