import Fundraising.Proofs.EscrowProofs
import Fundraising.Proofs.WFProofs
/-
  The module's own invariants (Model/ModuleInv.lean = keeper/invariants.go) follow from the
  escrow coverage of C01.
-/
namespace Fundraising

/-- covered escrows and non-negative balances: none of the three is broken -/
theorem invariants_of_covered (s : Core) (hw : WF s) (hc : AllCovered s) (hn : BankNonneg s) :
    allInvariantsBroken s = false := by
  have key : ∀ v ∈ s.views, sellingInvHolds s v = true ∧ payingInvHolds s v = true ∧
      vestingInvHolds s v = true := by
    intro v hv
    obtain ⟨i, hi⟩ := List.mem_iff_getElem?.mp hv
    have hid : v.a.id = i := (hw.views i v hi).id
    obtain ⟨c1, c2, c3⟩ := hc i v hi
    subst hid
    refine ⟨?_, ?_, ?_⟩
    · simp only [sellingInvHolds, Bool.or_eq_true, Bool.not_eq_true', decide_eq_false_iff_not,
        decide_eq_true_eq]
      by_cases hst : v.a.status = Status.started
      · right; simpa [owedSell, hst] using c1
      · left; exact hst
    · simp only [payingInvHolds, invTotalBid]
      by_cases hst : v.a.status = Status.started
      · simpa [owedPay, hst, reservedTotal] using c2
      · simpa [hst] using hn _ _
    · simp only [vestingInvHolds, invTotalVesting]
      by_cases hst : v.a.status = Status.vesting
      · simpa [owedVest, hst, unreleasedTotal] using c3
      · simpa [hst] using hn _ _
  simp only [allInvariantsBroken, sellingInvBroken, payingInvBroken, vestingInvBroken,
    Bool.or_eq_false_iff, List.any_eq_false, Bool.not_eq_true', Bool.not_eq_false]
  exact ⟨⟨fun v hv => (key v hv).1, fun v hv => (key v hv).2.1⟩, fun v hv => (key v hv).2.2⟩

end Fundraising
