import Fundraising.Proofs.ProgressBasic
/-
  Exact inversion of `releaseLoop` / `releaseVesting`.
-/
namespace Fundraising.ProgressInv
open Fundraising.WFInv (bind_ok pure_ok fail_ne_ok)

/-- the transfer that pays instalment `q` -/
def relXfer (aid : Nat) (auc : Acc) (q : VQ) : Transfer :=
  ⟨.send, .vest aid, .user auc, if q.amt = 0 then [] else [⟨q.denom, q.amt⟩]⟩

/-- what a release pass does to one instalment -/
def markRel (t : Int) (q : VQ) : VQ :=
  if q.release ≤ t ∧ q.released = false then { q with released := true } else q

theorem cond_iff (t : Int) (q : VQ) :
    (q.release ≤ t ∧ (!q.released) = true) ↔ (q.release ≤ t ∧ q.released = false) := by
  simp

/-- footprint and effects of the release loop (no assumption on the queue) -/
theorem releaseLoop_foot {aid : Nat} {auc : Acc} {n : Nat} : ∀ (rest : List VQ) (k : Nat) (c c' : Ctx),
    releaseLoop c aid auc n k rest = .ok c' →
    (∀ j, j ≠ aid → c'.s.views[j]? = c.s.views[j]?) ∧ c'.s.now = c.s.now ∧
    ∃ e, c'.effs = c.effs ++ e ∧
      xf e = (rest.filter (fun q => decide (q.release ≤ c.s.now) && !q.released)).map (relXfer aid auc) := by
  intro rest
  induction rest with
  | nil =>
    intro k c c' h
    simp only [releaseLoop, pure_ok] at h
    subst h
    exact ⟨fun _ _ => rfl, rfl, [], by simp, rfl⟩
  | cons q rest ih =>
    intro k c c' h
    unfold releaseLoop at h
    split at h
    · rename_i h0
      simp only [bind_ok] at h
      obtain ⟨coins, hmk, c1, hb, v1, hv1, hif⟩ := h
      obtain ⟨_, rfl⟩ := mkCoins_inv hmk
      have e1 := bankCall_ext hb
      have h3 : ∃ c3, releaseLoop c3 aid auc n (k + 1) rest = .ok c' ∧
          (∀ j, j ≠ aid → c3.s.views[j]? = c.s.views[j]?) ∧ c3.s.now = c.s.now ∧ c3.effs = c1.effs := by
        by_cases hkn : k + 1 = n
        · rw [if_pos hkn] at hif
          simp only [bind_ok, pure_ok] at hif
          obtain ⟨v2, _, _, rfl, hloop⟩ := hif
          refine ⟨_, hloop, fun j hj => ?_, e1.now, rfl⟩
          show ((c1.s.views.set aid _).set aid _)[j]? = _
          rw [getElem?_set_other _ hj, getElem?_set_other _ hj, e1.views]
        · rw [if_neg hkn] at hif
          simp only [bind_ok, pure_ok] at hif
          obtain ⟨_, rfl, hloop⟩ := hif
          refine ⟨_, hloop, fun j hj => ?_, e1.now, rfl⟩
          show (c1.s.views.set aid _)[j]? = _
          rw [getElem?_set_other _ hj, e1.views]
      obtain ⟨c3, h, h3⟩ := h3
      obtain ⟨ho, hn, e, he, hx⟩ := ih _ _ _ h
      refine ⟨fun j hj => (ho j hj).trans (h3.1 j hj), hn.trans h3.2.1,
        [.xfer ⟨.send, .vest aid, .user auc, coinsOf q.denom q.amt⟩] ++ e, ?_, ?_⟩
      · rw [he, h3.2.2, e1.effs, List.append_assoc]
      · rw [xf_append, hx, xf_xfer, h3.2.1]
        have hf : (q :: rest).filter (fun q => decide (q.release ≤ c.s.now) && !q.released) =
            q :: rest.filter (fun q => decide (q.release ≤ c.s.now) && !q.released) :=
          List.filter_cons_of_pos (by simpa using h0)
        rw [hf, List.map_cons]
        rfl
    · rename_i h0
      obtain ⟨ho, hn, e, he, hx⟩ := ih _ _ _ h
      refine ⟨ho, hn, e, he, ?_⟩
      rw [hx]
      have hf : (q :: rest).filter (fun q => decide (q.release ≤ c.s.now) && !q.released) =
          rest.filter (fun q => decide (q.release ≤ c.s.now) && !q.released) :=
        List.filter_cons_of_neg (by simpa using h0)
      rw [hf]

theorem getLast?_cons_ne {α : Type} (q : α) {l : List α} (h : l ≠ []) : (q :: l).getLast? = l.getLast? := by
  cases l with
  | nil => exact absurd rfl h
  | cons x xs => exact List.getLast?_cons_cons

/-- the view written by the release loop, for a queue with strictly increasing release times -/
theorem releaseLoop_view {aid : Nat} {auc : Acc} {n : Nat} :
    ∀ (rest done : List VQ) (k : Nat) (c c' : Ctx) (cur : AView),
    releaseLoop c aid auc n k rest = .ok c' →
    c.s.views[aid]? = some cur → cur.vqs = done ++ rest → k = done.length →
    n = done.length + rest.length →
    ((done ++ rest).map (·.release)).Pairwise (· < ·) →
    ∃ w, c'.s.views[aid]? = some w ∧ w.vqs = done ++ rest.map (markRel c.s.now) ∧
      (w.a.status = .finished ↔ cur.a.status = .finished ∨
        ∃ q, rest.getLast? = some q ∧ q.release ≤ c.s.now ∧ q.released = false) ∧
      (w.a.status = .finished ∨ w.a.status = cur.a.status) := by
  intro rest
  induction rest with
  | nil =>
    intro done k c c' cur h hv hq _ _ _
    simp only [releaseLoop, pure_ok] at h
    subst h
    refine ⟨cur, hv, by simpa using hq, ?_, Or.inr rfl⟩
    simp
  | cons q rest ih =>
    intro done k c c' cur h hv hq hk hn hs
    have hpre : ∀ z ∈ done, z.release < q.release := by
      rw [List.map_append, List.pairwise_append] at hs
      intro z hz
      exact hs.2.2 _ (List.mem_map_of_mem hz) _ (by simp)
    have hs' : (((done ++ [q]) ++ rest).map (·.release)).Pairwise (· < ·) := by
      rw [List.append_assoc]; exact hs
    unfold releaseLoop at h
    split at h
    · rename_i h0
      have h0' := (cond_iff _ _).mp h0
      simp only [bind_ok] at h
      obtain ⟨coins, hmk, c1, hb, v1, hv1, hif⟩ := h
      have e1 := bankCall_ext hb
      rw [view_ok_iff, e1.views, hv] at hv1
      cases hv1
      have hset : setVQ cur.vqs { q with released := true } = done ++ { q with released := true } :: rest := by
        rw [hq]; unfold setVQ
        exact upsertBy_replace (·.release) { q with released := true } q rest rfl done hpre
      rw [hset] at hif
      have hv1' : c1.s.views[aid]? = some cur := by rw [e1.views]; exact hv
      -- the context entering the recursive call
      have h3 : ∃ c3, releaseLoop c3 aid auc n (k + 1) rest = .ok c' ∧
          c3.s.now = c.s.now ∧ ∃ cur3, c3.s.views[aid]? = some cur3 ∧
          cur3.vqs = (done ++ [{ q with released := true }]) ++ rest ∧
          (k + 1 = n → cur3.a.status = .finished) ∧ (k + 1 ≠ n → cur3.a.status = cur.a.status) := by
        by_cases hkn : k + 1 = n
        · rw [if_pos hkn] at hif
          simp only [bind_ok, pure_ok] at hif
          obtain ⟨v2, hv2, _, rfl, hloop⟩ := hif
          rw [view_ok_iff] at hv2
          have : (c1.setView aid { cur with vqs := done ++ { q with released := true } :: rest }).s.views[aid]?
              = some { cur with vqs := done ++ { q with released := true } :: rest } :=
            getElem?_set_self hv1'
          rw [this] at hv2
          cases hv2
          exact ⟨_, hloop, e1.now, _, getElem?_set_self this, by simp, fun _ => rfl, fun h => absurd hkn h⟩
        · rw [if_neg hkn] at hif
          simp only [bind_ok, pure_ok] at hif
          obtain ⟨_, rfl, hloop⟩ := hif
          exact ⟨_, hloop, e1.now, _, getElem?_set_self hv1', by simp, fun h => absurd h hkn, fun _ => rfl⟩
      obtain ⟨c3, h, h3⟩ := h3
      obtain ⟨hnow3, cur3, hv3, hq3, hfin, hsame⟩ := h3
      have hs3 : (((done ++ [{ q with released := true }]) ++ rest).map (fun x : VQ => x.release)).Pairwise (· < ·) := by
        simpa using hs
      obtain ⟨w, hw, hwq, hwst, hwor⟩ := ih (done ++ [{ q with released := true }]) (k + 1) c3 c' cur3 h hv3 hq3
        (by simp [hk]) (by simp at hn ⊢; omega) hs3
      rw [hnow3] at hwq hwst
      refine ⟨w, hw, ?_, ?_, ?_⟩
      · rw [hwq, List.map_cons]
        have : markRel c.s.now q = { q with released := true } := by
          unfold markRel; rw [if_pos h0']
        rw [this]; simp
      · by_cases hkn : k + 1 = n
        · have hr : rest = [] := by
            have : rest.length = 0 := by simp at hn; omega
            exact List.eq_nil_of_length_eq_zero this
          subst hr
          have hf := hfin hkn
          constructor
          · intro _
            exact Or.inr ⟨q, rfl, h0'⟩
          · intro _
            exact hwst.mpr (Or.inl hf)
        · have hr : rest ≠ [] := by
            intro e; subst e; simp at hn; omega
          rw [getLast?_cons_ne q hr, hwst, hsame hkn]
      · rcases hwor with h | h
        · exact Or.inl h
        · by_cases hkn : k + 1 = n
          · exact Or.inl (h.trans (hfin hkn))
          · exact Or.inr (h.trans (hsame hkn))
    · rename_i h0
      have h0' : ¬ (q.release ≤ c.s.now ∧ q.released = false) := fun hh => h0 ((cond_iff _ _).mpr hh)
      obtain ⟨w, hw, hwq, hwst, hwor⟩ := ih (done ++ [q]) (k + 1) c c' cur h hv (by rw [hq]; simp)
        (by simp [hk]) (by simp at hn ⊢; omega) hs'
      refine ⟨w, hw, ?_, ?_, hwor⟩
      · rw [hwq, List.map_cons]
        have : markRel c.s.now q = q := by
          unfold markRel; rw [if_neg h0']
        rw [this]; simp
      · rw [hwst]
        cases rest with
        | nil =>
          constructor
          · rintro (h | ⟨q0, hq0, _⟩)
            · exact Or.inl h
            · simp at hq0
          · rintro (h | ⟨q0, hq0, hd⟩)
            · exact Or.inl h
            · simp at hq0; subst hq0; exact absurd hd h0'
        | cons x xs => rw [List.getLast?_cons_cons]

theorem releaseVesting_inv {c c' : Ctx} {aid : Nat} {v : AView}
    (h : releaseVesting c aid = .ok c') (hv : c.s.views[aid]? = some v) :
    (∀ j, j ≠ aid → c'.s.views[j]? = c.s.views[j]?) ∧ c'.s.now = c.s.now ∧
    (∃ e, c'.effs = c.effs ++ e ∧
      xf e = (v.vqs.filter (fun q => decide (q.release ≤ c.s.now) && !q.released)).map
        (relXfer aid v.a.auctioneer)) ∧
    ((v.vqs.map (·.release)).Pairwise (· < ·) →
      ∃ w, c'.s.views[aid]? = some w ∧ w.vqs = v.vqs.map (markRel c.s.now) ∧
        (w.a.status = .finished ↔ v.a.status = .finished ∨
          ∃ q, v.vqs.getLast? = some q ∧ q.release ≤ c.s.now ∧ q.released = false) ∧
        (w.a.status = .finished ∨ w.a.status = v.a.status)) := by
  unfold releaseVesting at h
  simp only [bind_ok] at h
  obtain ⟨v', hv', h⟩ := h
  rw [view_ok_iff, hv] at hv'
  cases hv'
  obtain ⟨ho, hn, he⟩ := releaseLoop_foot _ _ _ _ h
  refine ⟨ho, hn, he, fun hs => ?_⟩
  have := releaseLoop_view v.vqs [] 0 c c' v h hv rfl rfl (by simp) (by simpa using hs)
  simpa using this

end Fundraising.ProgressInv
