import Fundraising.Proofs.HookSim
/-
  C17 helpers: the failing-listener simulation (Proofs/HookSim.lean) for the message handlers
  and the keeper-API calls.
-/
namespace Fundraising.HookInv
open Fundraising

variable {name : String} {j : Nat}

/-- a reader / check of the armed run that returns what it returned in the failure-free run -/
theorem RelH.step {α : Type} {c0 c2 : Ctx} {x : M α} {a : α} {g : α → M Ctx}
    (hx : x = .ok a) (h : RelH name j c0 c2 (g a)) : RelH name j c0 c2 (x >>= g) := by
  rw [hx]; exact h

theorem createAuction_sound (m : CreateMsg) : SoundH name j (fun c => createAuction c m) := by
  intro c c' h
  simp only [createAuction] at h ⊢
  obtain ⟨_, hc1, h⟩ := bind_eq_ok.1 h
  obtain ⟨_, hc2, h⟩ := bind_eq_ok.1 h
  obtain ⟨_, hc3, h⟩ := bind_eq_ok.1 h
  obtain ⟨c1, hb1, h⟩ := bind_eq_ok.1 h
  obtain ⟨coins, hm, h⟩ := bind_eq_ok.1 h
  obtain ⟨c2, hb2, h⟩ := bind_eq_ok.1 h
  obtain ⟨c3, hh1, h⟩ := bind_eq_ok.1 h
  refine RelH.step hc1 (RelH.step hc2 (RelH.step hc3 ?_))
  refine RelH.chain (bank_sound _ _ _ _ c c1 hb1) ?_
  refine RelH.step hm ?_
  refine RelH.chain (bank_sound _ _ _ _ c1 c2 hb2) ?_
  refine RelH.chain (hook_sound _ _ c2 c3 hh1) ?_
  exact RelH.chain (c1 := { c3 with s := { c3.s with views := c3.s.views ++ [_] } })
    (x := .ok _) (RelH.pure rfl rfl) (hook_sound _ _ _ c' h)

theorem cancelAuction_sound (signer : Acc) (aid : Nat) :
    SoundH name j (fun c => cancelAuction c signer aid) := by
  intro c c' h
  simp only [cancelAuction] at h ⊢
  obtain ⟨v, hv, h⟩ := bind_eq_ok.1 h
  obtain ⟨_, hc1, h⟩ := bind_eq_ok.1 h
  obtain ⟨_, hc2, h⟩ := bind_eq_ok.1 h
  obtain ⟨coins, hm, h⟩ := bind_eq_ok.1 h
  obtain ⟨c1, hb1, h⟩ := bind_eq_ok.1 h
  obtain ⟨c2, hh1, h⟩ := bind_eq_ok.1 h
  rw [pure_eq_ok] at h
  cases h
  refine RelH.step hv (RelH.step hc1 (RelH.step hc2 (RelH.step hm ?_)))
  refine RelH.chain (bank_sound _ _ _ _ c c1 hb1) ?_
  refine RelH.chain (hook_sound _ _ c1 c2 hh1) ?_
  exact RelH.pure rfl rfl

theorem placeBid_sound (bidder : Acc) (aid : Nat) (t : BidType) (price : Dec) (denom : Denom)
    (amt : Int) : SoundH name j (fun c => placeBid c bidder aid t price denom amt) := by
  intro c c' h
  simp only [placeBid] at h ⊢
  obtain ⟨v, hv, h⟩ := bind_eq_ok.1 h
  obtain ⟨_, hc1, h⟩ := bind_eq_ok.1 h
  obtain ⟨_, hc2, h⟩ := bind_eq_ok.1 h
  refine RelH.step hv (RelH.step hc1 (RelH.step hc2 ?_))
  cases hl : lookupAllowed v.allowed bidder with
  | none =>
    rw [hl] at h
    cases h
  | some ab =>
    rw [hl] at h
    simp only [pure_eq_ok, ok_bind] at h ⊢
    obtain ⟨c1, hb1, h⟩ := bind_eq_ok.1 h
    obtain ⟨⟨c2, a', bid'⟩, hin, h⟩ := bind_eq_ok.1 h
    obtain ⟨c3, hh1, h⟩ := bind_eq_ok.1 h
    cases h
    refine RelH.chain (bank_sound _ _ _ _ c c1 hb1) ?_
    have tail : RelH name j c2 (c3.setView aid
          { v with a := a', bids := v.bids ++ [bid'], bidSeq := v.bidSeq + 1 })
        (((hookSpec name j).armC c2).hook "BeforeBidPlaced" (bidHookArgs bid') >>= fun c =>
          .ok (c.setView aid { v with a := a', bids := v.bids ++ [bid'], bidSeq := v.bidSeq + 1 })) :=
      RelH.chain (hook_sound _ _ c2 c3 hh1) (RelH.pure rfl rfl)
    cases t with
    | fixed =>
      simp only [bind_assoc] at hin ⊢
      obtain ⟨_, hk1, hin⟩ := bind_eq_ok.1 hin
      obtain ⟨_, hk2, hin⟩ := bind_eq_ok.1 hin
      obtain ⟨_, hk3, hin⟩ := bind_eq_ok.1 hin
      obtain ⟨_, hk4, hin⟩ := bind_eq_ok.1 hin
      obtain ⟨_, hk5, hin⟩ := bind_eq_ok.1 hin
      obtain ⟨coins, hm, hin⟩ := bind_eq_ok.1 hin
      obtain ⟨c2', hb2, hin⟩ := bind_eq_ok.1 hin
      cases hin
      refine RelH.step hk1 (RelH.step hk2 (RelH.step hk3 (RelH.step hk4 (RelH.step hk5
        (RelH.step hm ?_)))))
      exact RelH.chain (bank_sound _ _ _ _ c1 c2 hb2) tail
    | worth =>
      simp only [bind_assoc] at hin ⊢
      obtain ⟨_, hk1, hin⟩ := bind_eq_ok.1 hin
      obtain ⟨_, hk2, hin⟩ := bind_eq_ok.1 hin
      obtain ⟨_, hk3, hin⟩ := bind_eq_ok.1 hin
      obtain ⟨coins, hm, hin⟩ := bind_eq_ok.1 hin
      obtain ⟨c2', hb2, hin⟩ := bind_eq_ok.1 hin
      cases hin
      refine RelH.step hk1 (RelH.step hk2 (RelH.step hk3 (RelH.step hm ?_)))
      exact RelH.chain (bank_sound _ _ _ _ c1 c2 hb2) tail
    | many =>
      simp only [bind_assoc] at hin ⊢
      obtain ⟨_, hk1, hin⟩ := bind_eq_ok.1 hin
      obtain ⟨_, hk2, hin⟩ := bind_eq_ok.1 hin
      obtain ⟨_, hk3, hin⟩ := bind_eq_ok.1 hin
      obtain ⟨coins, hm, hin⟩ := bind_eq_ok.1 hin
      obtain ⟨c2', hb2, hin⟩ := bind_eq_ok.1 hin
      cases hin
      refine RelH.step hk1 (RelH.step hk2 (RelH.step hk3 (RelH.step hm ?_)))
      exact RelH.chain (bank_sound _ _ _ _ c1 c2 hb2) tail

theorem modifyBid_sound (bidder : Acc) (aid bidId : Nat) (price : Dec) (denom : Denom)
    (amt : Int) : SoundH name j (fun c => modifyBid c bidder aid bidId price denom amt) := by
  intro c c' h
  simp only [modifyBid] at h ⊢
  obtain ⟨v, hv, h⟩ := bind_eq_ok.1 h
  obtain ⟨_, hc1, h⟩ := bind_eq_ok.1 h
  obtain ⟨_, hc2, h⟩ := bind_eq_ok.1 h
  refine RelH.step hv (RelH.step hc1 (RelH.step hc2 ?_))
  cases hl : v.bids.find? (·.id == bidId) with
  | none =>
    rw [hl] at h
    cases h
  | some bid =>
    rw [hl] at h
    simp only [pure_eq_ok, ok_bind] at h ⊢
    obtain ⟨_, hk1, h⟩ := bind_eq_ok.1 h
    obtain ⟨_, hk2, h⟩ := bind_eq_ok.1 h
    obtain ⟨_, hk3, h⟩ := bind_eq_ok.1 h
    obtain ⟨_, hk4, h⟩ := bind_eq_ok.1 h
    obtain ⟨_, hk5, h⟩ := bind_eq_ok.1 h
    obtain ⟨c1, hin, h⟩ := bind_eq_ok.1 h
    obtain ⟨c2, hh1, h⟩ := bind_eq_ok.1 h
    cases h
    refine RelH.step hk1 (RelH.step hk2 (RelH.step hk3 (RelH.step hk4 (RelH.step hk5 ?_))))
    refine RelH.chain ?_ (RelH.chain (hook_sound _ _ c1 c2 hh1) (RelH.pure rfl rfl))
    revert hin
    cases bid.type with
    | worth =>
      intro hin
      simp only at hin ⊢
      split at hin
      next hpos => rw [if_pos hpos]; exact bank_sound _ _ _ _ c c1 hin
      next hpos => rw [if_neg hpos]; cases hin; exact RelH.refl c
    | many =>
      intro hin
      simp only at hin ⊢
      split at hin
      next hneg => cases hin
      next hneg =>
        rw [if_neg hneg]
        split at hin
        next hpos => rw [if_pos hpos]; exact bank_sound _ _ _ _ c c1 hin
        next hpos => rw [if_neg hpos]; cases hin; exact RelH.refl c
    | fixed =>
      intro hin
      simp only at hin ⊢
      cases hin
      exact RelH.refl c

theorem addLoop_armC {S : SimSpec} (c : Ctx) (sellAmt : Int) :
    ∀ (abs : List AllowedArg) (l : List Allowed),
      addLoop (S.armC c) sellAmt abs l = addLoop c sellAmt abs l
  | [], l => rfl
  | ab :: rest, l => by
    simp only [addLoop, check_armC]
    rw [addLoop_armC c sellAmt rest]

theorem addAllowedBidders_sound (aid : Nat) (abs : List AllowedArg) :
    SoundH name j (fun c => addAllowedBidders c aid abs) := by
  intro c c' h
  simp only [addAllowedBidders] at h ⊢
  obtain ⟨_, hc1, h⟩ := bind_eq_ok.1 h
  obtain ⟨v, hv, h⟩ := bind_eq_ok.1 h
  obtain ⟨c1, hh1, h⟩ := bind_eq_ok.1 h
  obtain ⟨l, hl, h⟩ := bind_eq_ok.1 h
  rw [pure_eq_ok] at h
  cases h
  refine RelH.step hc1 (RelH.step hv ?_)
  refine RelH.chain (hook_sound _ _ c c1 hh1) ?_
  refine RelH.step (a := l) ?_ (RelH.pure rfl rfl)
  rw [addLoop_armC]
  exact hl

theorem updateAllowedBidder_sound (aid : Nat) (bidder : Acc) (cap : Int) :
    SoundH name j (fun c => updateAllowedBidder c aid bidder cap) := by
  intro c c' h
  simp only [updateAllowedBidder] at h ⊢
  obtain ⟨v, hv, h⟩ := bind_eq_ok.1 h
  obtain ⟨_, hc1, h⟩ := bind_eq_ok.1 h
  obtain ⟨_, hc2, h⟩ := bind_eq_ok.1 h
  obtain ⟨c1, hh1, h⟩ := bind_eq_ok.1 h
  rw [pure_eq_ok] at h
  cases h
  refine RelH.step hv (RelH.step hc1 (RelH.step hc2 ?_))
  exact RelH.chain (hook_sound _ _ c c1 hh1) (RelH.pure rfl rfl)

theorem handle_sound (m : Msg) : SoundH name j (fun c => handle c m) := by
  cases m with
  | create m => exact createAuction_sound m
  | cancel signer aid => exact cancelAuction_sound signer aid
  | place bidder aid t price denom amt =>
    cases t with
    | none => intro c c' h; cases h
    | some t => exact placeBid_sound bidder aid t price denom amt
  | modify bidder aid bidId price denom amt => exact modifyBid_sound bidder aid bidId price denom amt
  | addAllowed aid ab =>
    intro c c' h
    simp only [handle] at h ⊢
    obtain ⟨_, hc1, h⟩ := bind_eq_ok.1 h
    exact RelH.step hc1 (addAllowedBidders_sound aid [ab] c c' h)
  | updateParams signer p =>
    intro c c' h
    simp only [handle] at h ⊢
    obtain ⟨_, hc1, h⟩ := bind_eq_ok.1 h
    obtain ⟨_, hc2, h⟩ := bind_eq_ok.1 h
    obtain ⟨_, hc3, h⟩ := bind_eq_ok.1 h
    rw [pure_eq_ok] at h
    cases h
    exact RelH.step hc1 (RelH.step hc2 (RelH.step hc3 (RelH.pure rfl rfl)))

theorem deliver_sound (m : Msg) : SoundH name j (fun c => deliver c m) := by
  intro c c' h
  simp only [deliver] at h ⊢
  obtain ⟨_, hc1, h⟩ := bind_eq_ok.1 h
  exact RelH.step hc1 (handle_sound m c c' h)

/-! ### a whole atomic operation -/

theorem NoLater.filter {e : List Eff} (h : NoLater name j e) (p : Eff → Bool) :
    NoLater name j (e.filter p) :=
  fun k a hk hm => h k a hk (List.mem_filter.1 hm).1

/-- if the failure-free run of `f` succeeds and calls hook `name` on listener `j`, the run with
    that listener failing is an error: nothing is committed and no listener after `j` is called
    for that hook -/
theorem runAtomic_veto (st : State) (recover : Bool) (f : Ctx → M Ctx) (hS : SoundH name j f)
    (args : List String) (hok : (runAtomic st recover f).1.res = .ok)
    (hcall : Eff.hook j name args ∈ (runAtomic st recover f).1.effs) :
    (runAtomic { st with ctl := { st.ctl with failhook := some (name, j) } } recover f).1.res ≠ .ok ∧
    (runAtomic { st with ctl := { st.ctl with failhook := some (name, j) } } recover f).2.core = st.core ∧
    NoLater name j
      (runAtomic { st with ctl := { st.ctl with failhook := some (name, j) } } recover f).1.effs := by
  rcases runAtomic_cases st recover f with ⟨c', hc', hr⟩ | ⟨e, _, _, hne⟩
  · rw [hr] at hcall
    have hrel := hS _ c' hc'
    have hg0 : Good name j { s := st.core, ctl := st.ctl } := fun k a hm => by cases hm
    rcases hrel.2 hg0 with ⟨hgood, _⟩ | ⟨e, he, hn⟩
    · have := hgood j args hcall
      omega
    · have he' : f { s := st.core, ctl := { st.ctl with failhook := some (name, j) } } =
          .error ⟨.reject, e⟩ := he
      unfold runAtomic
      simp only [he']
      refine ⟨by simp, trivial, hn.filter _⟩
  · exact absurd hok hne
