import Fundraising.Proofs.ExecLemmas
/-
  C07 helpers, part 0: the `Except` monad laws in the shape the handler proofs use.
-/
namespace Fundraising

theorem ok_bind {ε α β : Type} (a : α) (f : α → Except ε β) : (Except.ok a >>= f) = f a := rfl

theorem error_bind {ε α β : Type} (e : ε) (f : α → Except ε β) :
    (Except.error e >>= f) = Except.error e := rfl

theorem pure_eq_ok {ε α : Type} (a : α) : (pure a : Except ε α) = Except.ok a := rfl

theorem bind_eq_ok {ε α β : Type} {x : Except ε α} {f : α → Except ε β} {b : β} :
    (x >>= f) = Except.ok b ↔ ∃ a, x = Except.ok a ∧ f a = Except.ok b := by
  cases x with
  | error e => simp [error_bind]
  | ok a => simp [ok_bind]

theorem bind_eq_ok_of {ε α β : Type} {x : Except ε α} {f : α → Except ε β} {a : α} {b : β}
    (h1 : x = Except.ok a) (h2 : f a = Except.ok b) : (x >>= f) = Except.ok b := by
  rw [h1, ok_bind, h2]

end Fundraising
