import Fundraising.Proofs.EscrowBasic
import Fundraising.Proofs.VestingLemmas
/-
  C01: `ReleaseVestingPayingCoin` pays each due instalment out of the vesting escrow and
  flags it; when the last one is paid every earlier one has been paid too.
-/
set_option linter.unusedSimpArgs false
set_option linter.unusedVariables false
namespace Fundraising.EscrowInv

/-- the instalment is due and unpaid at time `now` -/
def due (now : Int) (q : VQ) : Bool := decide (q.release ≤ now) && !q.released

/-- one pass of the release loop over an instalment -/
def rel (now : Int) (q : VQ) : VQ := if due now q then { q with released := true } else q

theorem due_iff {now : Int} {q : VQ} : due now q = true ↔ (q.release ≤ now ∧ (!q.released) = true) := by
  simp [due]

theorem rel_release (now : Int) (q : VQ) : (rel now q).release = q.release := by
  unfold rel; split <;> rfl

theorem upsertBy_replace {α : Type} (key : α → Int) (x q : α) (rest : List α) (hk : key q = key x)
    (hr : ∀ y ∈ rest, key x < key y) :
    ∀ pre : List α, (∀ y ∈ pre, key y < key x) → upsertBy key x (pre ++ q :: rest) = pre ++ x :: rest := by
  intro pre
  induction pre with
  | nil =>
    intro _
    simp only [List.nil_append, upsertBy]
    rw [if_neg (by omega), if_pos hk.symm]
  | cons y ys ih =>
    intro h
    have hy : key y < key x := h y (by simp)
    simp only [List.cons_append, upsertBy]
    rw [if_neg (by omega), if_neg (by omega), ih (fun z hz => h z (List.mem_cons_of_mem _ hz))]

theorem set_self {α : Type} : ∀ (l : List α) (i : Nat) (v : α), l[i]? = some v → l.set i v = l := by
  intro l
  induction l with
  | nil => intro i v h; simp at h
  | cons x xs ih =>
    intro i v h
    cases i with
    | zero => simp at h; subst h; rfl
    | succ i => simp at h; simp [List.set, ih i v h]

theorem getLast?_cons_of_some {α : Type} (x : α) {l : List α} {y : α} (h : l.getLast? = some y) :
    (x :: l).getLast? = some y := by
  cases l with
  | nil => simp at h
  | cons z zs => rw [List.getLast?_cons_cons]; exact h

theorem lt_length_of_some {α : Type} {l : List α} {i : Nat} {v : α} (h : l[i]? = some v) : i < l.length := by
  rcases Nat.lt_or_ge i l.length with h1 | h1
  · exact h1
  · rw [List.getElem?_eq_none h1] at h; cases h

theorem releaseLoop_spec {aid : Nat} {auc : Acc} {n : Nat} {pd : Denom} {c' : Ctx} :
    ∀ (rest : List VQ) (c : Ctx) (i : Nat) (pre : List VQ) (v : AView),
    releaseLoop c aid auc n i rest = .ok c' →
    c.s.views[aid]? = some v → v.vqs = pre ++ rest → pre.length = i → n = i + rest.length →
    ((pre ++ rest).map (·.release)).Pairwise (· < ·) → (∀ q ∈ rest, q.denom = pd) →
    ∃ v', c'.s.views = c.s.views.set aid v' ∧ c'.s.now = c.s.now ∧
      v'.vqs = pre ++ rest.map (rel c.s.now) ∧
      v'.a.sellDenom = v.a.sellDenom ∧ v'.a.payDenom = v.a.payDenom ∧
      (v'.a.status = v.a.status ∨
        (v'.a.status = .finished ∧ ∃ q, rest.getLast? = some q ∧ due c.s.now q = true)) ∧
      (∀ x d, (∀ u, x ≠ .user u) → (x ≠ .vest aid ∨ d ≠ pd) → c'.s.bank x d = c.s.bank x d) ∧
      c'.s.bank (.vest aid) pd =
        c.s.bank (.vest aid) pd - ((rest.filter (due c.s.now)).map (·.amt)).sum := by
  intro rest
  induction rest with
  | nil =>
    intro c i pre v h hv hq _ _ _ _
    simp only [releaseLoop, pure_ok] at h
    subst h
    refine ⟨v, (set_self _ _ _ hv).symm, rfl, by simpa using hq, rfl, rfl, Or.inl rfl, fun _ _ _ _ => rfl, by simp⟩
  | cons q rest ih =>
    intro c i pre v h hv hq hi hn hpw hden
    have hpw' : (((pre ++ [q]) ++ rest).map (·.release)).Pairwise (· < ·) := by
      rw [List.append_assoc]; exact hpw
    simp only [releaseLoop] at h
    by_cases hd : due c.s.now q = true
    · rw [if_pos (due_iff.mp hd)] at h
      simp only [bind_ok, view_ok_iff] at h
      obtain ⟨coins, hmk, c1, hbc, v0, hv0, h⟩ := h
      obtain ⟨_, e1⟩ := send_mk hmk hbc
      have hviews1 : c1.s.views = c.s.views := by rw [e1]
      have hnow1 : c1.s.now = c.s.now := by rw [e1]
      rw [hviews1, hv] at hv0; cases hv0
      have hlen : aid < c.s.views.length := lt_length_of_some hv
      -- the queue write
      obtain ⟨q', hq'⟩ : ∃ q' : VQ, q' = { q with released := true } := ⟨_, rfl⟩
      have hrelq : rel c.s.now q = q' := by unfold rel; rw [if_pos hd, hq']
      have hset : setVQ v.vqs q' = (pre ++ [q']) ++ rest := by
        rw [hq, List.append_assoc]
        unfold setVQ
        rw [List.map_append, List.map_cons, List.pairwise_append, List.pairwise_cons] at hpw
        apply upsertBy_replace
        · rw [hq']
        · intro y hy
          rw [hq']
          exact hpw.2.1.1 y.release (List.mem_map.mpr ⟨y, hy, rfl⟩)
        · intro y hy
          rw [hq']
          exact hpw.2.2 y.release (List.mem_map.mpr ⟨y, hy, rfl⟩) q.release (by simp)
      rw [← hq'] at h
      obtain ⟨v1, hv1⟩ : ∃ v1 : AView, v1 = { v with vqs := setVQ v.vqs q' } := ⟨_, rfl⟩
      rw [← hv1] at h
      have hpw1 : (((pre ++ [q']) ++ rest).map (·.release)).Pairwise (· < ·) := by
        have : ((pre ++ [q']) ++ rest).map (·.release) = ((pre ++ [q]) ++ rest).map (·.release) := by
          simp [hq']
        rw [this]; exact hpw'
      have hv1at : (c1.setView aid v1).s.views[aid]? = some v1 := by
        rw [setView_views, hviews1, List.getElem?_set_self hlen]
      -- the status write
      have key : ∃ c3 v3, releaseLoop c3 aid auc n (i + 1) rest = .ok c' ∧
          c3.s.views = c.s.views.set aid v3 ∧ c3.s.views[aid]? = some v3 ∧
          c3.s.bank = c1.s.bank ∧ c3.s.now = c.s.now ∧ v3.vqs = (pre ++ [q']) ++ rest ∧
          v3.a.sellDenom = v.a.sellDenom ∧ v3.a.payDenom = v.a.payDenom ∧
          (v3.a.status = v.a.status ∨ (v3.a.status = .finished ∧ rest = [])) := by
        by_cases hlast : i + 1 = n
        · rw [if_pos hlast] at h
          simp only [bind_ok, view_ok_iff, pure_ok] at h
          obtain ⟨v2, hv2, c3, rfl, h⟩ := h
          rw [hv1at] at hv2; cases hv2
          refine ⟨_, { v1 with a := { v1.a with status := .finished } }, h, ?_, ?_, rfl, hnow1, by rw [hv1]; exact hset, by rw [hv1], by rw [hv1], Or.inr ⟨rfl, ?_⟩⟩
          · rw [setView_views, setView_views, hviews1, List.set_set]
          · rw [setView_views, setView_views, hviews1, List.set_set, List.getElem?_set_self hlen]
          · simp only [List.length_cons] at hn
            have : rest.length = 0 := by omega
            exact List.eq_nil_of_length_eq_zero this
        · rw [if_neg hlast] at h
          simp only [bind_ok, pure_ok] at h
          obtain ⟨c3, rfl, h⟩ := h
          refine ⟨_, v1, h, by rw [setView_views, hviews1], hv1at, rfl, hnow1, by rw [hv1]; exact hset,
            by rw [hv1], by rw [hv1], Or.inl (by rw [hv1])⟩
      obtain ⟨c3, v3, h, hviews3, hv3at, hbank3, hnow3, hvqs3, hsd3, hpd3, hst3⟩ := key
      obtain ⟨v', a1, a2, a3, a4, a5, a6, a7, a8⟩ :=
        ih c3 (i + 1) (pre ++ [q']) v3 h hv3at hvqs3 (by simp [hi]) (by simp only [List.length_cons] at hn; omega)
          hpw1 (fun y hy => hden y (List.mem_cons_of_mem _ hy))
      rw [hnow3] at a2 a3 a6 a8
      have hbank1 : ∀ x d, c1.s.bank x d = c.s.bank x d -
          (if x = Addr.vest aid ∧ d = q.denom then q.amt else 0) +
          (if x = Addr.user auc ∧ d = q.denom then q.amt else 0) := by
        intro x d; rw [e1]; rfl
      have hqd : q.denom = pd := hden q (by simp)
      refine ⟨v', ?_, a2, ?_, a4.trans hsd3, a5.trans hpd3, ?_, ?_, ?_⟩
      · rw [a1, hviews3, List.set_set]
      · rw [a3, List.map_cons, hrelq, List.append_assoc]; rfl
      · rcases a6 with a6 | ⟨a6, q2, hq2, hdue2⟩
        · rcases hst3 with hst3 | ⟨hst3, hnil⟩
          · exact Or.inl (a6.trans hst3)
          · exact Or.inr ⟨a6.trans hst3, q, by rw [hnil]; rfl, hd⟩
        · exact Or.inr ⟨a6, q2, getLast?_cons_of_some q hq2, hdue2⟩
      · intro x d hu hx
        rw [a7 x d hu hx, hbank3, hbank1, hqd]
        have e1 : ¬ (x = Addr.vest aid ∧ d = pd) := by
          intro ⟨a, b⟩; rcases hx with hx | hx
          · exact hx a
          · exact hx b
        have e2 : ¬ (x = Addr.user auc ∧ d = pd) := fun ⟨a, _⟩ => hu _ a
        simp [e1, e2]
      · rw [a8, hbank3, hbank1, hqd]
        simp only [List.filter_cons, hd, if_true, List.map_cons, List.sum_cons]
        simp
        omega
    · have hnd : ¬ (q.release ≤ c.s.now ∧ (!q.released) = true) := fun hh => hd (due_iff.mpr hh)
      rw [if_neg hnd] at h
      have hrelq : rel c.s.now q = q := by unfold rel; rw [if_neg hd]
      obtain ⟨v', a1, a2, a3, a4, a5, a6, a7, a8⟩ :=
        ih c (i + 1) (pre ++ [q]) v h hv (by rw [hq, List.append_assoc]; rfl) (by simp [hi])
          (by simp only [List.length_cons] at hn; omega) hpw' (fun y hy => hden y (List.mem_cons_of_mem _ hy))
      refine ⟨v', a1, a2, ?_, a4, a5, ?_, a7, ?_⟩
      · rw [a3, List.map_cons, hrelq, List.append_assoc]; rfl
      · rcases a6 with a6 | ⟨a6, q2, hq2, hdue2⟩
        · exact Or.inl a6
        · exact Or.inr ⟨a6, q2, getLast?_cons_of_some q hq2, hdue2⟩
      · rw [a8]
        simp only [List.filter_cons, hd]
        simp

/-! ### sums over the queue -/

theorem unrel_split (now : Int) : ∀ l : List VQ,
    ((l.filter (fun q => !q.released)).map (·.amt)).sum =
      ((l.filter (due now)).map (·.amt)).sum +
      (((l.map (rel now)).filter (fun q => !q.released)).map (·.amt)).sum := by
  intro l
  induction l with
  | nil => rfl
  | cons q qs ih =>
    by_cases hd : due now q = true
    · have hr : q.released = false := by
        have := (due_iff.mp hd).2; simpa using this
      have hrel : rel now q = { q with released := true } := by unfold rel; rw [if_pos hd]
      simp only [List.filter_cons, List.map_cons, hd, hr, hrel, Bool.not_false, Bool.not_true, if_true,
        List.sum_cons, ih]
      simp
      omega
    · have hrel : rel now q = q := by unfold rel; rw [if_neg hd]
      simp only [List.filter_cons, List.map_cons, hd, hrel]
      by_cases hr : q.released = true
      · simp [hr]; exact ih
      · simp [hr]; omega

theorem all_released {now : Int} {l : List VQ} {q : VQ}
    (hpw : (l.map (·.release)).Pairwise (· < ·)) (hl : l.getLast? = some q) (hd : due now q = true) :
    ∀ y ∈ l.map (rel now), y.released = true := by
  obtain ⟨l', rfl⟩ := List.getLast?_eq_some_iff.mp hl
  rw [List.map_append, List.pairwise_append] at hpw
  intro y hy
  obtain ⟨y0, hy0, rfl⟩ := List.mem_map.mp hy
  have hle : y0.release ≤ q.release := by
    rcases List.mem_append.mp hy0 with h | h
    · exact Int.le_of_lt (hpw.2.2 y0.release (List.mem_map.mpr ⟨y0, h, rfl⟩) q.release (by simp))
    · simp at h; subst h; exact Int.le_refl _
  have hq := (due_iff.mp hd).1
  unfold rel
  by_cases h : due now y0 = true
  · rw [if_pos h]
  · rw [if_neg h]
    cases hr : y0.released with
    | true => rfl
    | false =>
      exfalso; apply h
      apply due_iff.mpr
      exact ⟨by omega, by simp [hr]⟩

/-! ### ReleaseVestingPayingCoin -/

theorem releaseVesting_spec {c c' : Ctx} {aid : Nat} {v : AView} (h : releaseVesting c aid = .ok c')
    (hv : c.s.views[aid]? = some v) (w : ViewWF aid v) (hst : v.a.status = .vesting) :
    Local aid c.s c'.s ∧ ∃ v', c'.s.views[aid]? = some v' ∧ Keeps c.s c'.s aid v v' := by
  unfold releaseVesting at h
  simp only [bind_ok, view_ok_iff] at h
  obtain ⟨v0, hv0, h⟩ := h
  rw [hv] at hv0; cases hv0
  have hsorted : (v.vqs.map (·.release)).Pairwise (· < ·) := by
    rw [w.vqsSome (Or.inl hst)]
    obtain ⟨q, hq, _⟩ := w.vestingOpen hst
    have hne : v.a.schedules ≠ [] := by
      intro e
      have := w.vqsSome (Or.inl hst)
      rw [e] at this
      simp at this
      rw [this] at hq; simp at hq
    exact (validSchedules_spec _ _ hne w.auction.sched).2.2
  obtain ⟨v', a1, a2, a3, a4, a5, a6, a7, a8⟩ :=
    releaseLoop_spec (pd := v.a.payDenom) v.vqs c 0 [] v h hv rfl rfl (by simp) hsorted
      (fun q hq => (w.vqsWF q hq).2.1)
  simp only [List.nil_append] at a3
  obtain ⟨l, hv'⟩ := local_of_set hv a1 (by
    intro x j hx hj d
    exact a7 x d (fun u => esc_ne_user hx) (Or.inl (esc_ne_vest hx hj)))
  have hne : v'.a.status ≠ .standby ∧ v'.a.status ≠ .started := by
    rcases a6 with h | ⟨h, _⟩ <;> rw [h] <;> simp [hst]
  refine ⟨l, v', hv', a4, a5, ?_, ?_, ?_⟩
  · intro d; left
    simp only [slackSell, owedSell, hne.1, hne.2, hst, or_self, if_false]
    rw [a7 _ d (by simp) (Or.inl (by simp))]
    simp
  · intro d; left
    simp only [slackPay, owedPay, hne.2, hst, if_false]
    rw [a7 _ d (by simp) (Or.inl (by simp))]
    simp
  · intro d; left
    simp only [slackVest, owedVest, hst, if_true, a5]
    by_cases hd : d = v.a.payDenom
    · subst hd
      simp only [if_true]
      rw [a8]
      have hsplit := unrel_split c.s.now v.vqs
      rw [← a3] at hsplit
      rcases a6 with h6 | ⟨h6, q, hq, hdue⟩
      · rw [h6, hst]
        simp only [if_true, unreleasedTotal]
        omega
      · rw [h6]
        have hall := all_released hsorted hq hdue
        rw [← a3] at hall
        have hnil : v'.vqs.filter (fun q => !q.released) = [] := by
          rw [List.filter_eq_nil_iff]
          intro y hy
          simp [hall y hy]
        rw [hnil] at hsplit
        simp only [unreleasedTotal]
        simp at hsplit ⊢
        omega
    · rw [a7 _ d (by simp) (Or.inr hd)]
      simp [hd]

end Fundraising.EscrowInv
