import Fundraising.Proofs.MatchList
/-
  The sweep `matchLoop`: loop invariant, result.
-/
namespace Fundraising

/-! ### per-bidder sums -/

/-- sum of `f` over `u`'s bids in `l` -/
def bsum (f : Bid → Int) (l : List Bid) (u : Acc) : Int := ((l.filter (·.bidder == u)).map f).sum

theorem bsum_nil (f : Bid → Int) (u : Acc) : bsum f [] u = 0 := rfl

theorem bsum_append (f : Bid → Int) (l l' : List Bid) (u : Acc) :
    bsum f (l ++ l') u = bsum f l u + bsum f l' u := by
  unfold bsum; rw [List.filter_append, List.map_append, List.sum_append_int]

theorem bsum_single_self (f : Bid → Int) (b : Bid) : bsum f [b] b.bidder = f b := by
  simp [bsum]

theorem bsum_single_ne (f : Bid → Int) (b : Bid) (v : Acc) (h : v ≠ b.bidder) : bsum f [b] v = 0 := by
  have : ¬ b.bidder = v := fun e => h e.symm
  simp [bsum, this]

theorem bsum_nonneg (f : Bid → Int) (l : List Bid) (u : Acc) (h : ∀ b ∈ l, 0 ≤ f b) : 0 ≤ bsum f l u :=
  isum_map_nonneg f _ (fun b hb => h b (List.mem_filter.1 hb).1)

theorem bsum_perm (f : Bid → Int) {l l' : List Bid} (h : l.Perm l') (u : Acc) : bsum f l u = bsum f l' u :=
  isum_map_perm f (h.filter _)

theorem sumOver_eq_bsum (bids : List Bid) (u : Acc) (f : Bid → Int) : sumOver bids u f = bsum f bids u :=
  sumOver_eq bids u f

theorem rawDemand_eq_bsum (bids : List Bid) (u : Acc) (p : Dec) :
    rawDemand bids u p = bsum (qtyAt · p) (bids.filter (fun b => decide (p ≤ b.price))) u := by
  unfold rawDemand bsum; rw [List.filter_filter]

/-! ### caps -/

theorem capOf_nonneg (allowed : List Allowed) (hcaps : ∀ x ∈ allowed, 0 < x.cap) (u : Acc) :
    0 ≤ capOf allowed u := by
  unfold capOf lookupAllowed
  cases h : allowed.find? (·.bidder == u) with
  | none => simp
  | some x => simp; exact Int.le_of_lt (hcaps x (List.mem_of_find?_eq_some h))

theorem capsOf_eq (allowed : List Allowed) (u : Acc) (h : (lookupAllowed allowed u).isSome) :
    capsOf allowed u = some (capOf allowed u) := by
  unfold capsOf capOf
  cases h' : lookupAllowed allowed u with
  | none => rw [h'] at h; cases h
  | some x => simp

/-! ### quantities -/

theorem qtyAt_nonneg (b : Bid) (p : Dec) (hb : 0 ≤ b.amt) (hp : 0 ≤ p) : 0 ≤ qtyAt b p := by
  unfold qtyAt bidQty
  cases b.type with
  | fixed => simp
  | many => simpa using hb
  | worth =>
    simp only [Option.getD_some]
    unfold Dec.truncInt Dec.quoTrunc Dec.chopTrunc Dec.ofInt
    have h1 : 0 ≤ b.amt * PREC * (PREC * PREC) :=
      Int.mul_nonneg (Int.mul_nonneg hb (by decide)) (by decide)
    exact Int.tdiv_nonneg (Int.tdiv_nonneg (Int.tdiv_nonneg h1 hp) (by decide)) (by decide)

theorem qtyAt_worth (b : Bid) (p : Dec) (ht : b.type = .worth) (hb : 0 ≤ b.amt) (hp : 0 < p) :
    qtyAt b p = b.amt * PREC / p := by
  unfold qtyAt bidQty; rw [ht]; exact Dec.truncInt_quoTrunc_ofInt _ _ hb hp

theorem qtyAt_many (b : Bid) (p : Dec) (ht : b.type = .many) : qtyAt b p = b.amt := by
  unfold qtyAt bidQty; rw [ht]; rfl

theorem qtyAt_fixed (b : Bid) (p : Dec) (ht : b.type = .fixed) : qtyAt b p = 0 := by
  unfold qtyAt bidQty; rw [ht]; rfl

theorem ediv_antitone (x p q : Int) (hx : 0 ≤ x) (hp : 0 < p) (hpq : p ≤ q) : x / q ≤ x / p := by
  have hq : 0 < q := Int.lt_of_lt_of_le hp hpq
  apply Int.le_ediv_of_mul_le hp
  have h1 : 0 ≤ x / q := Int.ediv_nonneg hx (Int.le_of_lt hq)
  have h2 : x / q * p ≤ x / q * q := Int.mul_le_mul_of_nonneg_left hpq h1
  have h3 : x / q * q ≤ x := Int.ediv_mul_le x (Int.ne_of_gt hq)
  exact Int.le_trans h2 h3

theorem qtyAt_antitone (b : Bid) (p q : Dec) (hb : 0 ≤ b.amt) (hp : 0 < p) (hpq : p ≤ q) :
    qtyAt b q ≤ qtyAt b p := by
  cases ht : b.type with
  | fixed => rw [qtyAt_fixed b q ht, qtyAt_fixed b p ht]; exact Int.le_refl _
  | many => rw [qtyAt_many b q ht, qtyAt_many b p ht]; exact Int.le_refl _
  | worth =>
    rw [qtyAt_worth b q ht hb (Int.lt_of_lt_of_le hp hpq), qtyAt_worth b p ht hb hp]
    exact ediv_antitone _ p q (Int.mul_nonneg hb (by decide)) hp hpq

/-! ### payment of one step -/

theorem payAmt_spec (p m : Int) (hp : 0 < p) (hm : 0 ≤ m) :
    p * m ≤ PREC * Dec.truncInt (Dec.ceil (Dec.mulInt p m)) ∧
    PREC * Dec.truncInt (Dec.ceil (Dec.mulInt p m)) < p * m + PREC := by
  have hx : 0 ≤ p * m := Int.mul_nonneg (Int.le_of_lt hp) hm
  unfold Dec.mulInt
  rw [Dec.truncInt_ceil _ hx]
  have := Dec.ceilDiv_spec (p * m) hx
  generalize p * m = x at *
  unfold PREC at *; omega

theorem payAmt_zero (p : Int) : Dec.truncInt (Dec.ceil (Dec.mulInt p 0)) = 0 := by
  unfold Dec.mulInt; rw [Int.mul_zero]; decide

theorem ceil_le_of_le (x c : Int) (h : x ≤ c * PREC) : (x + (PREC - 1)) / PREC ≤ c := by
  unfold PREC at *; omega

theorem ceil_mono (x y : Int) (h : x ≤ y) : (x + (PREC - 1)) / PREC ≤ (y + (PREC - 1)) / PREC := by
  unfold PREC at *; omega

/-- what the sweep needs to know about one bid of a well-formed book, priced at or above `p` -/
structure BidOK (a : Auction) (allowed : List Allowed) (B : List Acc) (p : Dec) (b : Bid) : Prop where
  type : b.type = .worth ∨ b.type = .many
  denom : (b.type = .worth → b.denom = a.payDenom) ∧ (b.type = .many → b.denom ≠ a.payDenom)
  price : p ≤ b.price
  amt : 0 < b.amt
  listed : (lookupAllowed allowed b.bidder).isSome
  inB : b.bidder ∈ B

theorem BidOK.bidQty_eq {a allowed B p b} (h : BidOK a allowed B p b) :
    Fundraising.bidQty b p = some (qtyAt b p) := by
  unfold qtyAt Fundraising.bidQty
  rcases h.type with e | e <;> rw [e] <;> rfl

theorem BidOK.qty_nonneg {a allowed B p b} (h : BidOK a allowed B p b) (hp : 0 < p) : 0 ≤ qtyAt b p :=
  qtyAt_nonneg b p (Int.le_of_lt h.amt) (Int.le_of_lt hp)

theorem BidOK.toPaying_nonneg {a allowed B p b} (h : BidOK a allowed B p b) (hp : 0 < p) :
    0 ≤ b.toPaying a.payDenom := by
  rcases h.type with e | e
  · rw [Bid.toPaying_pay b _ (h.denom.1 e)]; exact Int.le_of_lt h.amt
  · have hpr : 0 ≤ b.price := Int.le_trans (Int.le_of_lt hp) h.price
    rw [Bid.toPaying_sell b _ (h.denom.2 e) (Int.le_of_lt h.amt) hpr]
    have : 0 ≤ b.amt * b.price := Int.mul_nonneg (Int.le_of_lt h.amt) hpr
    generalize b.amt * b.price = x at *
    unfold PREC; omega

/-- a step never charges more than the bid reserved -/
theorem BidOK.pay_le {a allowed B p b} (h : BidOK a allowed B p b) (hp : 0 < p) (m : Int)
    (hm0 : 0 ≤ m) (hm : m ≤ qtyAt b p) :
    Dec.truncInt (Dec.ceil (Dec.mulInt p m)) ≤ b.toPaying a.payDenom := by
  have hx : 0 ≤ p * m := Int.mul_nonneg (Int.le_of_lt hp) hm0
  unfold Dec.mulInt
  rw [Dec.truncInt_ceil _ hx]
  have hamt := Int.le_of_lt h.amt
  rcases h.type with e | e
  · rw [Bid.toPaying_pay b _ (h.denom.1 e)]
    rw [qtyAt_worth b p e hamt hp] at hm
    have h1 : p * m ≤ p * (b.amt * PREC / p) := Int.mul_le_mul_of_nonneg_left hm (Int.le_of_lt hp)
    have h2 : p * (b.amt * PREC / p) ≤ b.amt * PREC := Int.mul_ediv_self_le (Int.ne_of_gt hp)
    exact ceil_le_of_le _ _ (Int.le_trans h1 h2)
  · have hpr : 0 ≤ b.price := Int.le_trans (Int.le_of_lt hp) h.price
    rw [Bid.toPaying_sell b _ (h.denom.2 e) hamt hpr]
    rw [qtyAt_many b p e] at hm
    have h1 : p * m ≤ b.price * b.amt := Int.mul_le_mul h.price hm hm0 hpr
    rw [Int.mul_comm b.price b.amt] at h1
    exact ceil_mono _ _ h1

/-! ### the declarative counterparts of the sweep's state -/

/-- what `u` has been allocated after the bids `l` were swept -/
def allocOf (p : Dec) (allowed : List Allowed) (l : List Bid) (u : Acc) : Int :=
  min (bsum (qtyAt · p) l u) (capOf allowed u)

def totalOf (p : Dec) (allowed : List Allowed) (B : List Acc) (l : List Bid) : Int :=
  (B.map (allocOf p allowed l)).sum

theorem allocOf_mono (p : Dec) (allowed : List Allowed) (l l' : List Bid) (u : Acc)
    (h : ∀ b ∈ l', 0 ≤ qtyAt b p) : allocOf p allowed l u ≤ allocOf p allowed (l ++ l') u := by
  unfold allocOf
  rw [bsum_append]
  have := bsum_nonneg (qtyAt · p) l' u h
  omega

theorem totalOf_mono (p : Dec) (allowed : List Allowed) (B : List Acc) (l l' : List Bid)
    (h : ∀ b ∈ l', 0 ≤ qtyAt b p) : totalOf p allowed B l ≤ totalOf p allowed B (l ++ l') :=
  isum_map_le _ _ B (fun u _ => allocOf_mono p allowed l l' u h)

/-! ### the invariant -/

theorem bump_self (f : Acc → Int) (u : Acc) (x : Int) : bump f u x u = f u + x := by simp [bump]
theorem bump_ne (f : Acc → Int) (u : Acc) (x : Int) (v : Acc) (h : v ≠ u) : bump f u x v = f v := by
  simp [bump, h]

structure SweepInv (p : Dec) (allowed : List Allowed) (B : List Acc) (pd : Denom)
    (done : List Bid) (acc : MAcc) : Prop where
  price : acc.price = p
  rem : ∀ u, (lookupAllowed allowed u).isSome → acc.rem u = some (capOf allowed u - acc.alloc u)
  alloc : ∀ u, acc.alloc u = allocOf p allowed done u
  total : acc.total = totalOf p allowed B done
  payLo : ∀ u, p * acc.alloc u ≤ PREC * acc.pay u
  payHi : ∀ u, (acc.alloc u = 0 ∧ acc.pay u = 0) ∨
    (0 < acc.alloc u ∧
      PREC * acc.pay u < p * acc.alloc u + PREC * ((acc.matched.filter (·.bidder == u)).length : Int))
  payRes : ∀ u, acc.pay u ≤ bsum (·.toPaying pd) done u
  matched : acc.matched.Sublist done

theorem sweepInv_init (p : Dec) (allowed : List Allowed) (B : List Acc) (pd : Denom)
    (hcaps : ∀ x ∈ allowed, 0 < x.cap) :
    SweepInv p allowed B pd [] { price := p, rem := capsOf allowed } := by
  have hA : ∀ u, allocOf p allowed [] u = 0 := by
    intro u
    have := capOf_nonneg allowed hcaps u
    unfold allocOf; rw [bsum_nil]; omega
  constructor
  · rfl
  · intro u hu
    show capsOf allowed u = some (capOf allowed u - 0)
    rw [capsOf_eq allowed u hu]; simp
  · intro u; rw [hA]
  · show (0 : Int) = totalOf p allowed B []
    unfold totalOf
    rw [isum_map_congr _ (fun _ => 0) B (fun u _ => hA u)]
    clear hA
    induction B with
    | nil => rfl
    | cons x B ih => simp only [List.map_cons, List.sum_cons]; omega
  · intro u; show p * 0 ≤ PREC * 0; simp
  · intro u; left; exact ⟨rfl, rfl⟩
  · intro u; rw [bsum_nil]; exact Int.le_refl _
  · exact List.Sublist.refl _

theorem matchStep_eq (p : Dec) (S : Int) (acc : MAcc) (b : Bid) (q r : Int)
    (hq : bidQty b p = some q) (hr : acc.rem b.bidder = some r) :
    matchStep p S acc b =
      if acc.total + min q r > S then .nofit
      else if min q r > 0 then
        .fit { price := acc.price, total := acc.total + min q r,
               rem := fun v => if v = b.bidder then some (r - min q r) else acc.rem v,
               alloc := bump acc.alloc b.bidder (min q r),
               pay := bump acc.pay b.bidder (Dec.truncInt (Dec.ceil (Dec.mulInt p (min q r)))),
               matched := acc.matched ++ [b] }
      else
        .fit { price := acc.price, total := acc.total,
               rem := acc.rem,
               alloc := bump acc.alloc b.bidder (min q r),
               pay := bump acc.pay b.bidder (Dec.truncInt (Dec.ceil (Dec.mulInt p (min q r)))),
               matched := acc.matched } := by
  unfold matchStep
  simp only [hq, hr]

theorem step_arith (a : Auction) (allowed : List Allowed) (B : List Acc) (p : Dec)
    (done : List Bid) (acc : MAcc) (b : Bid)
    (hB : B.Nodup) (hp : 0 < p)
    (hinv : SweepInv p allowed B a.payDenom done acc) (hb : BidOK a allowed B p b)
    (m : Int) (hm : m = min (qtyAt b p) (capOf allowed b.bidder - acc.alloc b.bidder)) :
    0 ≤ m ∧ m ≤ qtyAt b p ∧
    allocOf p allowed (done ++ [b]) b.bidder = acc.alloc b.bidder + m ∧
    (∀ v, v ≠ b.bidder → allocOf p allowed (done ++ [b]) v = allocOf p allowed done v) ∧
    totalOf p allowed B (done ++ [b]) = acc.total + m := by
  have hq0 := hb.qty_nonneg hp
  have hA := hinv.alloc b.bidder
  have hAu : allocOf p allowed (done ++ [b]) b.bidder = acc.alloc b.bidder + m := by
    rw [hA] at hm ⊢
    unfold allocOf at hm ⊢
    rw [bsum_append, bsum_single_self]
    omega
  have hAv : ∀ v, v ≠ b.bidder → allocOf p allowed (done ++ [b]) v = allocOf p allowed done v := by
    intro v hv
    unfold allocOf
    rw [bsum_append, bsum_single_ne _ b v hv]
    omega
  refine ⟨?_, ?_, hAu, hAv, ?_⟩
  · rw [hA] at hm; unfold allocOf at hm; omega
  · omega
  · rw [hinv.total]
    unfold totalOf
    exact isum_map_update _ _ b.bidder m B hB hb.inB (by rw [hAu, hA]) hAv

theorem sweepInv_step (a : Auction) (allowed : List Allowed) (B : List Acc) (p : Dec)
    (done : List Bid) (acc acc' : MAcc) (b : Bid)
    (hB : B.Nodup) (hp : 0 < p)
    (hinv : SweepInv p allowed B a.payDenom done acc) (hb : BidOK a allowed B p b)
    (m : Int) (hm : m = min (qtyAt b p) (capOf allowed b.bidder - acc.alloc b.bidder))
    (h1 : acc'.price = acc.price)
    (h2 : acc'.alloc = bump acc.alloc b.bidder m)
    (h3 : acc'.pay = bump acc.pay b.bidder (Dec.truncInt (Dec.ceil (Dec.mulInt p m))))
    (h4 : acc'.total = acc.total + m)
    (h5 : acc'.rem = fun v => if v = b.bidder
            then some (capOf allowed b.bidder - acc.alloc b.bidder - m) else acc.rem v)
    (h6 : (0 < m ∧ acc'.matched = acc.matched ++ [b]) ∨ (m = 0 ∧ acc'.matched = acc.matched)) :
    SweepInv p allowed B a.payDenom (done ++ [b]) acc' := by
  obtain ⟨hm0, hmq, hAu, hAv, hT⟩ := step_arith a allowed B p done acc b hB hp hinv hb m hm
  have hc := payAmt_spec p m hp hm0
  have hcr := hb.pay_le hp m hm0 hmq
  generalize Dec.truncInt (Dec.ceil (Dec.mulInt p m)) = c at *
  constructor
  · rw [h1]; exact hinv.price
  · intro v hv
    rw [h5, h2]
    by_cases hvu : v = b.bidder
    · subst hvu
      simp only [if_true, bump_self]
      congr 1; omega
    · simp only [hvu, if_false, bump_ne _ _ _ v hvu]
      exact hinv.rem v hv
  · intro v
    rw [h2]
    by_cases hvu : v = b.bidder
    · subst hvu; rw [bump_self, hAu]
    · rw [bump_ne _ _ _ v hvu, hAv v hvu]; exact hinv.alloc v
  · rw [h4, hT]
  · intro v
    rw [h2, h3]
    by_cases hvu : v = b.bidder
    · subst hvu
      rw [bump_self, bump_self, Int.mul_add, Int.mul_add]
      have := hinv.payLo b.bidder
      unfold Dec at *; omega
    · rw [bump_ne _ _ _ v hvu, bump_ne _ _ _ v hvu]; exact hinv.payLo v
  · intro v
    rw [h2, h3]
    by_cases hvu : v = b.bidder
    · subst hvu
      rw [bump_self, bump_self, Int.mul_add, Int.mul_add]
      have hold := hinv.payHi b.bidder
      rcases h6 with ⟨hmpos, hmat⟩ | ⟨hmz, hmat⟩
      · right
        have hlen : (((acc.matched ++ [b]).filter (·.bidder == b.bidder)).length : Int) =
            ((acc.matched.filter (·.bidder == b.bidder)).length : Int) + 1 := by
          simp [List.filter_append]
        rw [hmat, hlen]
        have hk : (0 : Int) ≤ ((acc.matched.filter (·.bidder == b.bidder)).length : Int) :=
          Int.natCast_nonneg _
        generalize ((acc.matched.filter (·.bidder == b.bidder)).length : Int) = k at *
        rw [Int.mul_add]
        rcases hold with ⟨e1, e2⟩ | ⟨e1, e2⟩
        · rw [e1, e2]; simp only [Int.mul_zero, Int.zero_add]
          constructor
          · omega
          · have : 0 ≤ PREC * k := Int.mul_nonneg (by decide) hk
            omega
        · constructor
          · omega
          · omega
      · rw [hmat]
        subst hmz
        have : c = 0 := by
          have h1 := hc.1; have h2 := hc.2
          simp only [Int.mul_zero, Int.zero_add] at h1 h2
          unfold PREC at h1 h2; omega
        subst this
        simpa using hold
    · rw [bump_ne _ _ _ v hvu, bump_ne _ _ _ v hvu]
      have hmat : acc'.matched.filter (·.bidder == v) = acc.matched.filter (·.bidder == v) := by
        rcases h6 with ⟨_, hmat⟩ | ⟨_, hmat⟩
        · have : ¬ b.bidder = v := fun e => hvu e.symm
          rw [hmat, List.filter_append]; simp [this]
        · rw [hmat]
      rw [hmat]; exact hinv.payHi v
  · intro v
    rw [h3, bsum_append]
    by_cases hvu : v = b.bidder
    · subst hvu
      rw [bump_self, bsum_single_self]
      have := hinv.payRes b.bidder
      omega
    · rw [bump_ne _ _ _ v hvu, bsum_single_ne _ b v hvu]
      have := hinv.payRes v
      omega
  · rcases h6 with ⟨_, hmat⟩ | ⟨_, hmat⟩
    · rw [hmat]; exact hinv.matched.append (List.Sublist.refl _)
    · rw [hmat]; exact hinv.matched.trans (List.sublist_append_left _ _)

/-- one step of the sweep -/
theorem matchStep_spec (a : Auction) (allowed : List Allowed) (B : List Acc) (p : Dec) (S : Int)
    (done : List Bid) (acc : MAcc) (b : Bid)
    (hB : B.Nodup) (hp : 0 < p)
    (hinv : SweepInv p allowed B a.payDenom done acc) (hb : BidOK a allowed B p b) :
    (S < totalOf p allowed B (done ++ [b]) ∧ matchStep p S acc b = .nofit) ∨
    (totalOf p allowed B (done ++ [b]) ≤ S ∧
      ∃ acc', matchStep p S acc b = .fit acc' ∧ SweepInv p allowed B a.payDenom (done ++ [b]) acc') := by
  obtain ⟨hm0, hmq, hAu, hAv, hT⟩ :=
    step_arith a allowed B p done acc b hB hp hinv hb _ rfl
  rw [matchStep_eq p S acc b _ _ hb.bidQty_eq (hinv.rem b.bidder hb.listed), hT]
  generalize hm : min (qtyAt b p) (capOf allowed b.bidder - acc.alloc b.bidder) = m at *
  by_cases hS : acc.total + m > S
  · left; exact ⟨by omega, by rw [if_pos hS]⟩
  · right
    refine ⟨by omega, ?_⟩
    rw [if_neg hS]
    by_cases hmp : m > 0
    · rw [if_pos hmp]
      refine ⟨_, rfl, ?_⟩
      exact sweepInv_step a allowed B p done acc _ b hB hp hinv hb m hm.symm rfl rfl rfl rfl rfl
        (Or.inl ⟨hmp, rfl⟩)
    · rw [if_neg hmp]
      have hmz : m = 0 := by omega
      refine ⟨_, rfl, ?_⟩
      refine sweepInv_step a allowed B p done acc _ b hB hp hinv hb m hm.symm rfl rfl rfl
        (by show acc.total = acc.total + m; omega) ?_ (Or.inr ⟨hmz, rfl⟩)
      show acc.rem = _
      funext v
      by_cases hvu : v = b.bidder
      · subst hvu; rw [if_pos rfl, hinv.rem b.bidder hb.listed]; congr 1; omega
      · rw [if_neg hvu]

/-- the whole sweep -/
theorem matchLoop_spec (a : Auction) (allowed : List Allowed) (B : List Acc) (p : Dec) (S : Int)
    (hB : B.Nodup) (hp : 0 < p) :
    ∀ (bs done : List Bid) (acc : MAcc), SweepInv p allowed B a.payDenom done acc →
      (∀ b ∈ bs, BidOK a allowed B p b) → acc.total ≤ S →
      (S < totalOf p allowed B (done ++ bs) ∧ matchLoop p S bs acc = .nofit) ∨
      (totalOf p allowed B (done ++ bs) ≤ S ∧
        ∃ acc', matchLoop p S bs acc = .fit acc' ∧ SweepInv p allowed B a.payDenom (done ++ bs) acc')
  | [], done, acc, hinv, _, hS => by
    right
    rw [List.append_nil]
    exact ⟨by rw [← hinv.total]; exact hS, acc, rfl, hinv⟩
  | b :: bs, done, acc, hinv, hbs, hS => by
    have hb := hbs b List.mem_cons_self
    have hbs' : ∀ c ∈ bs, BidOK a allowed B p c := fun c hc => hbs c (List.mem_cons_of_mem _ hc)
    have happ : done ++ b :: bs = (done ++ [b]) ++ bs := by simp
    rcases matchStep_spec a allowed B p S done acc b hB hp hinv hb with ⟨h1, h2⟩ | ⟨h1, acc', h2, h3⟩
    · left
      refine ⟨?_, by simp only [matchLoop, h2]⟩
      rw [happ]
      exact Int.lt_of_lt_of_le h1
        (totalOf_mono p allowed B _ bs (fun c hc => (hbs' c hc).qty_nonneg hp))
    · have := matchLoop_spec a allowed B p S hB hp bs (done ++ [b]) acc' h3 hbs'
        (by rw [h3.total]; exact h1)
      rw [happ]
      simpa only [matchLoop, h2] using this

/-! ### no panic -/

theorem matchStep_no_panic (p : Dec) (S : Int) (acc : MAcc) (b : Bid)
    (hq : (bidQty b p).isSome) (hr : (acc.rem b.bidder).isSome) :
    matchStep p S acc b ≠ .panic ∧
    ∀ acc', matchStep p S acc b = .fit acc' → ∀ v, (acc.rem v).isSome → (acc'.rem v).isSome := by
  obtain ⟨q, hq⟩ := Option.isSome_iff_exists.1 hq
  obtain ⟨r, hr⟩ := Option.isSome_iff_exists.1 hr
  rw [matchStep_eq p S acc b q r hq hr]
  split
  · exact ⟨fun h => MRes.noConfusion h, fun acc' h => MRes.noConfusion h⟩
  · split
    · refine ⟨fun h => MRes.noConfusion h, ?_⟩
      intro acc' h v hv
      injection h with h; subst h
      show (if v = b.bidder then some (r - min q r) else acc.rem v).isSome
      split
      · rfl
      · exact hv
    · refine ⟨fun h => MRes.noConfusion h, ?_⟩
      intro acc' h v hv
      injection h with h; subst h
      exact hv

theorem matchLoop_ne_panic (p : Dec) (S : Int) : ∀ (bs : List Bid) (acc : MAcc),
    (∀ b ∈ bs, (bidQty b p).isSome ∧ (acc.rem b.bidder).isSome) → matchLoop p S bs acc ≠ .panic
  | [], acc, _ => fun h => MRes.noConfusion h
  | b :: bs, acc, h => by
    have hb := h b List.mem_cons_self
    have hstep := matchStep_no_panic p S acc b hb.1 hb.2
    unfold matchLoop
    cases hm : matchStep p S acc b with
    | panic => exact absurd hm hstep.1
    | nofit => exact fun h => MRes.noConfusion h
    | fit acc' =>
      simp only
      apply matchLoop_ne_panic p S bs acc'
      intro c hc
      have := h c (List.mem_cons_of_mem _ hc)
      exact ⟨this.1, hstep.2 acc' hm _ this.2⟩

/-! ### the sweep at a price, on a well-formed book -/

theorem bookOK (a : Auction) (bids : List Bid) (allowed : List Allowed) (p : Dec)
    (hw : BookWF a bids allowed) (b : Bid) (hb : b ∈ bids) (hpb : p ≤ b.price) :
    BidOK a allowed (biddersOf bids) p b :=
  { type := hw.types b hb, denom := hw.denoms b hb, price := hpb, amt := hw.amts b hb,
    listed := hw.listed b hb, inB := (mem_biddersOf bids b.bidder).2 ⟨b, hb, rfl⟩ }

theorem book_toPaying_nonneg (a : Auction) (bids : List Bid) (allowed : List Allowed)
    (hw : BookWF a bids allowed) (b : Bid) (hb : b ∈ bids) : 0 ≤ b.toPaying a.payDenom :=
  (bookOK a bids allowed b.price hw b hb (Int.le_refl _)).toPaying_nonneg (hw.prices b hb)

theorem allocOf_filter_eq (bids sorted : List Bid) (allowed : List Allowed) (hperm : sorted.Perm bids)
    (p : Dec) (u : Acc) :
    allocOf p allowed (sorted.filter (fun b => decide (p ≤ b.price))) u = cappedDemand bids allowed u p := by
  unfold allocOf cappedDemand
  rw [rawDemand_eq_bsum, bsum_perm _ (hperm.filter _)]

theorem totalOf_filter_eq (bids sorted : List Bid) (allowed : List Allowed) (hperm : sorted.Perm bids)
    (p : Dec) :
    totalOf p allowed (biddersOf bids) (sorted.filter (fun b => decide (p ≤ b.price))) =
      demand bids allowed p := by
  unfold totalOf demand
  exact isum_map_congr _ _ _ (fun u _ => allocOf_filter_eq bids sorted allowed hperm p u)

theorem matchAt_spec (a : Auction) (bids sorted : List Bid) (allowed : List Allowed) (p : Dec)
    (hw : BookWF a bids allowed) (hperm : sorted.Perm bids)
    (hdesc : sorted.Pairwise (fun x y => y.price ≤ x.price)) (hp : 0 < p) :
    (a.sellAmt < demand bids allowed p ∧ matchAt p sorted a.sellAmt allowed = .nofit) ∨
    (demand bids allowed p ≤ a.sellAmt ∧ ∃ acc, matchAt p sorted a.sellAmt allowed = .fit acc ∧
      SweepInv p allowed (biddersOf bids) a.payDenom
        (sorted.filter (fun b => decide (p ≤ b.price))) acc) := by
  unfold matchAt
  rw [takeWhile_eq_filter_of_desc p sorted hdesc]
  have hok : ∀ b ∈ sorted.filter (fun b => decide (p ≤ b.price)),
      BidOK a allowed (biddersOf bids) p b := by
    intro b hb
    have := List.mem_filter.1 hb
    exact bookOK a bids allowed p hw b (hperm.mem_iff.1 this.1) (by simpa using this.2)
  have := matchLoop_spec a allowed (biddersOf bids) p a.sellAmt (biddersOf_nodup bids) hp
    (sorted.filter (fun b => decide (p ≤ b.price))) [] { price := p, rem := capsOf allowed }
    (sweepInv_init p allowed _ a.payDenom hw.caps) hok (Int.le_of_lt hw.supply)
  rw [List.nil_append, totalOf_filter_eq bids sorted allowed hperm p] at this
  exact this

theorem matchAt_no_panic (a : Auction) (bids sorted : List Bid) (allowed : List Allowed) (p : Dec)
    (hw : BookWF a bids allowed) (hperm : sorted.Perm bids) :
    matchAt p sorted a.sellAmt allowed ≠ .panic := by
  unfold matchAt
  apply matchLoop_ne_panic
  intro b hb
  have hb' : b ∈ bids := hperm.mem_iff.1 ((List.takeWhile_sublist _).subset hb)
  constructor
  · unfold bidQty
    rcases hw.types b hb' with e | e <;> rw [e] <;> rfl
  · show (capsOf allowed b.bidder).isSome
    rw [capsOf_eq allowed _ (hw.listed b hb')]; rfl

end Fundraising
