import Fundraising.Proofs.FrameBasic
/-
  Footprints of the settlement handlers run by `BeginBlocker` (allocation, refunds,
  `ApplyVestingSchedules`, `ExtendRound`, `CloseFixedPriceAuction`, `CloseBatchAuction`,
  `ReleaseVestingPayingCoin`).
-/
set_option linter.unusedSimpArgs false
set_option linter.unusedVariables false
namespace Fundraising.Frame

/-! ### transfers out of an escrow -/

theorem payOut_only {aid : Nat} {src : Addr} {d : Denom} (hs : Loc aid src) :
    ∀ {l : List (Acc × Int)} {c c' : Ctx}, payOut c src d l = .ok c' → BankOnly aid c.s c'.s := by
  intro l
  induction l with
  | nil =>
    intro c c' h
    simp only [payOut, pure_ok] at h
    subst h
    exact BankOnly.refl _ _
  | cons p ps ih =>
    intro c c' h
    obtain ⟨u, amt⟩ := p
    simp only [payOut] at h
    by_cases h0 : amt = 0
    · rw [if_pos h0] at h
      exact ih h
    · rw [if_neg h0] at h
      simp only [bind_ok] at h
      obtain ⟨coins, hmk, c1, hbc, h⟩ := h
      exact (bankCall_only hbc hs (loc_user aid _)).trans (ih h)

theorem allocate_only {aid : Nat} {c c' : Ctx} {a : Auction} {mi : MInfo} (hid : a.id = aid)
    (h : allocateSellingCoin c a mi = .ok c') : BankOnly aid c.s c'.s := by
  unfold allocateSellingCoin at h
  simp only [bind_ok] at h
  obtain ⟨c0, hhk, h⟩ := h
  rw [hid] at h
  exact (hook_only hhk).trans (payOut_only (loc_sell aid) h)

theorem refundSell_only {aid : Nat} {c c' : Ctx} {a : Auction} (hid : a.id = aid)
    (h : refundRemainingSellingCoin c a = .ok c') : BankOnly aid c.s c'.s := by
  unfold refundRemainingSellingCoin at h
  simp only [bind_ok] at h
  obtain ⟨coins, hmk, hbc⟩ := h
  rw [hid] at hbc
  exact bankCall_only hbc (loc_sell aid) (loc_user aid _)

theorem refundPay_only {aid : Nat} {c c' : Ctx} {a : Auction} {mi : MInfo} (hid : a.id = aid)
    (h : refundPayingCoin c a mi = .ok c') : BankOnly aid c.s c'.s := by
  unfold refundPayingCoin at h
  rw [hid] at h
  exact payOut_only (loc_pay aid) h

/-! ### settlement: what it does to the record -/

/-- settlement of a started auction: the status becomes `finished` or `vesting`, the matched
    price may be published, instalments are created; nothing else -/
structure SRel (v v' : AView) : Prop where
  a : ∃ st' mp, (st' = Status.finished ∨ st' = Status.vesting) ∧
        v'.a = { v.a with status := st', matchedPrice := mp }
  allowed : v'.allowed = v.allowed
  bids : v'.bids = v.bids
  seq : v'.bidSeq = v.bidSeq

theorem applyVesting_spec {c c' : Ctx} {aid : Nat} (h : applyVestingSchedules c aid = .ok c') :
    FP aid c.s c'.s ∧ ∃ v, c.s.views[aid]? = some v ∧ ∃ v', c'.s.views[aid]? = some v' ∧ SRel v v' := by
  unfold applyVestingSchedules at h
  simp only [bind_ok, view_ok_iff] at h
  obtain ⟨v, hv, coins, hmk, h⟩ := h
  by_cases hemp : v.a.schedules.isEmpty = true
  · rw [if_pos hemp] at h
    simp only [bind_ok, pure_ok] at h
    obtain ⟨c1, hbc, rfl⟩ := h
    have b1 : BankOnly aid c.s c1.s := bankCall_only hbc (loc_pay aid) (loc_user aid _)
    have hv1 : c1.s.views[aid]? = some v := by rw [b1.views]; exact hv
    exact ⟨b1.fp.trans (fp_setView c1 aid _), v, hv, _, setView_get _ hv1,
      ⟨_, v.a.matchedPrice, Or.inl rfl, rfl⟩, rfl, rfl, rfl⟩
  · rw [if_neg hemp] at h
    simp only [bind_ok] at h
    obtain ⟨c1, hbc, h⟩ := h
    have b1 : BankOnly aid c.s c1.s := bankCall_only hbc (loc_pay aid) (loc_vest aid)
    have hv1 : c1.s.views[aid]? = some v := by rw [b1.views]; exact hv
    split at h
    · exact (fail_ok.mp h).elim
    · simp only [pure_ok] at h
      subst h
      exact ⟨b1.fp.trans (fp_setView c1 aid _), v, hv, _, setView_get _ hv1,
        ⟨_, v.a.matchedPrice, Or.inr rfl, rfl⟩, rfl, rfl, rfl⟩

theorem closeFixed_spec {c c' : Ctx} {aid : Nat} {v : AView} (h : closeFixed c aid = .ok c')
    (hv : c.s.views[aid]? = some v) (hid : v.a.id = aid) :
    FP aid c.s c'.s ∧ ∃ v', c'.s.views[aid]? = some v' ∧ SRel v v' := by
  unfold closeFixed at h
  simp only [bind_ok, view_ok_iff] at h
  obtain ⟨v0, hv0, c1, h1, c2, h2, h3⟩ := h
  rw [hv] at hv0; cases hv0
  have b12 := (allocate_only hid h1).trans (refundSell_only hid h2)
  obtain ⟨f3, w, hw, v', hv', r⟩ := applyVesting_spec h3
  rw [b12.views, hv] at hw; cases hw
  exact ⟨b12.fp.trans f3, v', hv', r⟩

theorem extendRound_spec {c c' : Ctx} {aid : Nat} {v : AView} (h : extendRound c aid = .ok c')
    (hv : c.s.views[aid]? = some v) :
    FP aid c.s c'.s ∧ c'.s.views[aid]? = some { v with a := { v.a with
        endTimes := v.a.endTimes ++ [v.a.lastEnd + 86400 * (c.s.params.period : Int)] } } := by
  unfold extendRound at h
  simp only [bind_ok, view_ok_iff, pure_ok] at h
  obtain ⟨v0, hv0, rfl⟩ := h
  rw [hv] at hv0; cases hv0
  exact ⟨fp_setView c aid _, setView_get _ hv⟩

theorem settleBatch_spec {c c' : Ctx} {aid : Nat} {mi : MInfo} {v : AView}
    (h : settleBatch c aid mi = .ok c') (hv : c.s.views[aid]? = some v) (hid : v.a.id = aid) :
    FP aid c.s c'.s ∧ ∃ v', c'.s.views[aid]? = some v' ∧ SRel v v' := by
  unfold settleBatch at h
  simp only [bind_ok, view_ok_iff] at h
  obtain ⟨v0, hv0, c1, h1, c2, h2, c3, h3, v3, hv3, h4⟩ := h
  rw [hv] at hv0; cases hv0
  have b13 := ((allocate_only hid h1).trans (refundSell_only hid h2)).trans (refundPay_only hid h3)
  rw [b13.views, hv] at hv3; cases hv3
  have hv3 : c3.s.views[aid]? = some v := by rw [b13.views]; exact hv
  obtain ⟨f4, w, hw, v', hv', r⟩ := applyVesting_spec h4
  rw [setView_get _ hv3] at hw; cases hw
  refine ⟨(b13.fp.trans (fp_setView c3 aid _)).trans f4, v', hv', ?_, r.allowed, r.bids, r.seq⟩
  obtain ⟨st', mp, hst', ha⟩ := r.a
  exact ⟨st', mp, hst', by rw [ha]⟩

/-- what `CloseBatchAuction` does to the record: matched flags and `MatchedBidsLen` are
    rewritten, then either the auction is settled or one end time is appended -/
def CBRes (v : AView) (period : Nat) (v' : AView) : Prop :=
  ∃ (f : Bid → Bool) (ml : Int),
    SRel { v with bids := v.bids.map (fun b => { b with matched := f b }), matchedLen := ml } v' ∨
    (v.a.maxExt + 1 ≠ v.a.endTimes.length ∧
     v' = { v with a := { v.a with endTimes := v.a.endTimes ++ [v.a.lastEnd + 86400 * (period : Int)] }, bids := v.bids.map (fun b => { b with matched := f b }), matchedLen := ml })

theorem closeBatch_spec {c c' : Ctx} {aid : Nat} {v : AView} (h : closeBatch c aid = .ok c')
    (hv : c.s.views[aid]? = some v) (hid : v.a.id = aid) :
    FP aid c.s c'.s ∧ ∃ v', c'.s.views[aid]? = some v' ∧ CBRes v c.s.params.period v' := by
  unfold closeBatch at h
  simp only [bind_ok, view_ok_iff] at h
  obtain ⟨v0, hv0, h⟩ := h
  rw [hv] at hv0; cases hv0
  split at h
  · rename_i mi _
    simp only [bind_ok, pure_ok] at h
    obtain ⟨_, rfl, h⟩ := h
    obtain ⟨vf, hvf⟩ : ∃ vf : AView, vf = { v with bids := v.bids.map (fun b =>
        { b with matched := mi.matchedIds.contains b.id }), matchedLen := mi.matchedLen } := ⟨_, rfl⟩
    rw [← hvf] at h
    have f0 : FP aid c.s (c.setView aid vf).s := fp_setView c aid vf
    have hv0 : (c.setView aid vf).s.views[aid]? = some vf := setView_get _ hv
    have hsettle : settleBatch (c.setView aid vf) aid mi = .ok c' →
        FP aid c.s c'.s ∧ ∃ v', c'.s.views[aid]? = some v' ∧ CBRes v c.s.params.period v' := by
      intro hh
      obtain ⟨f1, v', hv', r⟩ := settleBatch_spec hh hv0 (by rw [hvf]; exact hid)
      refine ⟨f0.trans f1, v', hv', fun b => mi.matchedIds.contains b.id, mi.matchedLen, Or.inl ?_⟩
      rw [← hvf]; exact r
    have hextend : v.a.maxExt + 1 ≠ v.a.endTimes.length → extendRound (c.setView aid vf) aid = .ok c' →
        FP aid c.s c'.s ∧ ∃ v', c'.s.views[aid]? = some v' ∧ CBRes v c.s.params.period v' := by
      intro hne hh
      obtain ⟨f1, hv'⟩ := extendRound_spec hh hv0
      refine ⟨f0.trans f1, _, hv', fun b => mi.matchedIds.contains b.id, mi.matchedLen, Or.inr ⟨hne, ?_⟩⟩
      rw [hvf]
      rfl
    split at h
    · exact hsettle h
    · rename_i hne
      split at h
      · exact hextend hne h
      · split at h
        · exact hextend hne h
        · exact hsettle h
  · simp only [bind_ok, fail_ok] at h
    obtain ⟨_, h, _⟩ := h
    exact h.elim

/-! ### vesting queues -/

/-- pointwise: same release time and amount, released stays released -/
inductive VQRel : List VQ → List VQ → Prop
  | nil : VQRel [] []
  | cons {q q' : VQ} {l l' : List VQ} :
      (q'.release = q.release ∧ q'.amt = q.amt ∧ (q.released = true → q'.released = true)) →
      VQRel l l' → VQRel (q :: l) (q' :: l')

theorem VQRel.refl : ∀ l : List VQ, VQRel l l
  | [] => VQRel.nil
  | q :: l => VQRel.cons ⟨rfl, rfl, id⟩ (VQRel.refl l)

theorem VQRel.trans : ∀ {l l' l'' : List VQ}, VQRel l l' → VQRel l' l'' → VQRel l l''
  | _, _, _, .nil, .nil => .nil
  | _, _, _, .cons h1 t1, .cons h2 t2 =>
    .cons ⟨h2.1.trans h1.1, h2.2.1.trans h1.2.1, fun h => h2.2.2 (h1.2.2 h)⟩ (VQRel.trans t1 t2)

theorem VQRel.map_release : ∀ {l l' : List VQ}, VQRel l l' → l'.map (·.release) = l.map (·.release)
  | _, _, .nil => rfl
  | _, _, .cons h t => by simp only [List.map_cons, h.1, VQRel.map_release t]

theorem VQRel.mem : ∀ {l l' : List VQ}, VQRel l l' → ∀ q ∈ l, ∃ q' ∈ l',
    q'.release = q.release ∧ q'.amt = q.amt ∧ (q.released = true → q'.released = true)
  | _, _, .nil, q, hq => by cases hq
  | _, _, .cons (q' := b) h t, q, hq => by
    rcases List.mem_cons.mp hq with rfl | hq
    · exact ⟨b, List.mem_cons_self .., h⟩
    · obtain ⟨q', hq', r⟩ := VQRel.mem t q hq
      exact ⟨q', List.mem_cons_of_mem _ hq', r⟩

/-- in a queue with strictly increasing release times, re-storing an instalment with the
    same release time and amount replaces it in place -/
theorem setVQ_rel (x : VQ) : ∀ (l : List VQ), (l.map (·.release)).Pairwise (· < ·) →
    (∃ y ∈ l, y.release = x.release ∧ y.amt = x.amt ∧ (y.released = true → x.released = true)) →
    VQRel l (setVQ l x) := by
  intro l
  induction l with
  | nil => intro _ ⟨y, hy, _⟩; cases hy
  | cons z zs ih =>
    intro hs ⟨y, hy, hyr, hya, hyd⟩
    rw [List.map_cons, List.pairwise_cons] at hs
    have hlt : ∀ w ∈ zs, z.release < w.release := fun w hw => hs.1 _ (List.mem_map_of_mem hw)
    unfold setVQ
    simp only [upsertBy]
    by_cases h1 : x.release < z.release
    · exfalso
      rcases List.mem_cons.mp hy with rfl | hy
      · omega
      · have := hlt y hy; omega
    · rw [if_neg h1]
      by_cases h2 : x.release = z.release
      · rw [if_pos h2]
        rcases List.mem_cons.mp hy with rfl | hy
        · exact VQRel.cons ⟨h2, hya.symm, hyd⟩ (VQRel.refl zs)
        · have := hlt y hy; omega
      · rw [if_neg h2]
        rcases List.mem_cons.mp hy with rfl | hy
        · exact absurd hyr.symm h2
        · exact VQRel.cons ⟨rfl, rfl, id⟩ (ih hs.2 ⟨y, hy, hyr, hya, hyd⟩)

/-- release of instalments: the status stays or becomes `finished`, instalments are only
    marked released -/
structure RRel (v v' : AView) : Prop where
  a : v'.a = { v.a with status := v'.a.status }
  status : v'.a.status = v.a.status ∨ v'.a.status = .finished
  allowed : v'.allowed = v.allowed
  bids : v'.bids = v.bids
  seq : v'.bidSeq = v.bidSeq
  vqs : VQRel v.vqs v'.vqs

theorem RRel.refl (v : AView) : RRel v v := ⟨rfl, Or.inl rfl, rfl, rfl, rfl, VQRel.refl _⟩

theorem RRel.trans {v v' v'' : AView} (h1 : RRel v v') (h2 : RRel v' v'') : RRel v v'' where
  a := by rw [h2.a, h1.a]
  status := by
    rcases h2.status with e | e
    · rw [e]; exact h1.status
    · exact Or.inr e
  allowed := h2.allowed.trans h1.allowed
  bids := h2.bids.trans h1.bids
  seq := h2.seq.trans h1.seq
  vqs := h1.vqs.trans h2.vqs

theorem releaseLoop_spec {aid : Nat} {auctioneer : Acc} {n : Nat} :
    ∀ {qs : List VQ} {i : Nat} {c c' : Ctx}, releaseLoop c aid auctioneer n i qs = .ok c' →
    FP aid c.s c'.s ∧ ∀ v, c.s.views[aid]? = some v → (v.vqs.map (·.release)).Pairwise (· < ·) →
      (∀ q ∈ qs, ∃ y ∈ v.vqs, y.release = q.release ∧ y.amt = q.amt) →
      ∃ v', c'.s.views[aid]? = some v' ∧ RRel v v' := by
  intro qs
  induction qs with
  | nil =>
    intro i c c' h
    simp only [releaseLoop, pure_ok] at h
    subst h
    exact ⟨FP.refl _ _, fun v hv _ _ => ⟨v, hv, RRel.refl v⟩⟩
  | cons q rest ih =>
    intro i c c' h
    simp only [releaseLoop] at h
    split at h
    · simp only [bind_ok, view_ok_iff] at h
      obtain ⟨coins, hmk, c1, hbc, v1, hv1, h⟩ := h
      have b1 : BankOnly aid c.s c1.s := bankCall_only hbc (loc_vest aid) (loc_user aid _)
      obtain ⟨vq1, hvq1⟩ : ∃ vq1, vq1 = setVQ v1.vqs { q with released := true } := ⟨_, rfl⟩
      rw [← hvq1] at h
      obtain ⟨w2, hw2⟩ : ∃ w2 : AView, w2 = { v1 with vqs := vq1 } := ⟨_, rfl⟩
      rw [← hw2] at h
      have f2 : FP aid c.s (c1.setView aid w2).s := b1.fp.trans (fp_setView c1 aid w2)
      have hv2 : (c1.setView aid w2).s.views[aid]? = some w2 := setView_get _ hv1
      -- the optional last-instalment status write
      have key : ∃ c3, (FP aid c.s c3.s ∧ ∃ w3, c3.s.views[aid]? = some w3 ∧ RRel w2 w3) ∧
          releaseLoop c3 aid auctioneer n (i + 1) rest = .ok c' := by
        split at h
        · simp only [bind_ok, view_ok_iff, pure_ok] at h
          obtain ⟨w, hw, c3, rfl, h⟩ := h
          rw [hv2] at hw; cases hw
          refine ⟨_, ?_, h⟩
          exact ⟨f2.trans (fp_setView _ aid _), _, setView_get _ hv2,
            ⟨rfl, Or.inr rfl, rfl, rfl, rfl, VQRel.refl _⟩⟩
        · simp only [bind_ok, pure_ok] at h
          obtain ⟨c3, rfl, h⟩ := h
          exact ⟨_, ⟨f2, w2, hv2, RRel.refl _⟩, h⟩
      obtain ⟨c3, key, h⟩ := key
      obtain ⟨f3, w3, hw3, r23⟩ := key
      obtain ⟨f4, hrest⟩ := ih h
      refine ⟨f3.trans f4, ?_⟩
      intro v hv hsorted hmem
      have e1 : v = v1 := by rw [b1.views, hv] at hv1; exact Option.some.inj hv1
      subst e1
      have r12 : RRel v w2 := by
        rw [hw2, hvq1]
        refine ⟨rfl, Or.inl rfl, rfl, rfl, rfl, ?_⟩
        obtain ⟨y, hy, e1, e2⟩ := hmem q (List.mem_cons_self ..)
        exact setVQ_rel _ _ hsorted ⟨y, hy, e1, e2, fun _ => rfl⟩
      have r13 := r12.trans r23
      have hsorted3 : (w3.vqs.map (·.release)).Pairwise (· < ·) := by
        rw [r13.vqs.map_release]; exact hsorted
      have hmem3 : ∀ q' ∈ rest, ∃ y ∈ w3.vqs, y.release = q'.release ∧ y.amt = q'.amt := by
        intro q' hq'
        obtain ⟨y, hy, e1, e2⟩ := hmem q' (List.mem_cons_of_mem _ hq')
        obtain ⟨y', hy', e1', e2', _⟩ := r13.vqs.mem y hy
        exact ⟨y', hy', e1'.trans e1, e2'.trans e2⟩
      obtain ⟨v', hv', r34⟩ := hrest w3 hw3 hsorted3 hmem3
      exact ⟨v', hv', r13.trans r34⟩
    · obtain ⟨f, hrest⟩ := ih h
      refine ⟨f, ?_⟩
      intro v hv hsorted hmem
      exact hrest v hv hsorted (fun q' hq' => hmem q' (List.mem_cons_of_mem _ hq'))

theorem releaseVesting_spec {c c' : Ctx} {aid : Nat} {v : AView} (h : releaseVesting c aid = .ok c')
    (hv : c.s.views[aid]? = some v) :
    FP aid c.s c'.s ∧ ((v.vqs.map (·.release)).Pairwise (· < ·) →
      ∃ v', c'.s.views[aid]? = some v' ∧ RRel v v') := by
  unfold releaseVesting at h
  simp only [bind_ok, view_ok_iff] at h
  obtain ⟨v0, hv0, h⟩ := h
  rw [hv] at hv0; cases hv0
  obtain ⟨f, hrest⟩ := releaseLoop_spec h
  exact ⟨f, fun hs => hrest v hv hs (fun q hq => ⟨q, hq, rfl, rfl⟩)⟩

/-- nothing due: the loop does nothing -/
theorem releaseLoop_idle {aid : Nat} {auctioneer : Acc} {n : Nat} {c : Ctx} :
    ∀ {qs : List VQ} {i : Nat}, qs.all (fun q => q.released || decide (c.s.now < q.release)) = true →
    releaseLoop c aid auctioneer n i qs = .ok c := by
  intro qs
  induction qs with
  | nil => intro i _; rfl
  | cons q rest ih =>
    intro i hall
    simp only [List.all_cons, Bool.and_eq_true, Bool.or_eq_true, decide_eq_true_eq] at hall
    simp only [releaseLoop]
    have hnd : ¬ (q.release ≤ c.s.now ∧ (!q.released) = true) := by
      intro ⟨h1, h2⟩
      rcases hall.1 with h | h
      · rw [h] at h2; cases h2
      · omega
    rw [if_neg hnd]
    exact ih hall.2

end Fundraising.Frame
