import Fundraising.Proofs.AcceptBase
/-
  C18, MsgCreateFixedPriceAuction / MsgCreateBatchAuction.
-/
set_option linter.unusedSimpArgs false
set_option linter.unusedVariables false
namespace Fundraising
namespace AcceptAux

theorem create_accept_of_ok {c c' : Ctx} {m : CreateMsg} (h : deliver c (.create m) = .ok c') :
    AcceptCreate c.s m := by
  unfold deliver at h
  simp only [bind_ok, check_ok, handle] at h
  obtain ⟨_, hvb, h⟩ := h
  unfold createAuction at h
  simp only [bind_ok, check_ok, pure_ok] at h
  obtain ⟨_, h1, _, h2, _, h3, c1, hfee, coins, hmk, c2, hsend, c3, hh1, hh2⟩ := h
  simp only [validateBasic, validCoin, Bool.and_eq_true, Bool.or_eq_true, decide_eq_true_eq,
    bne_iff_ne, ne_eq] at hvb
  obtain ⟨⟨⟨⟨⟨⟨⟨⟨⟨v1, v2⟩, v3⟩, v4, v4'⟩, v5⟩, v6⟩, v7⟩, v8⟩, v9⟩, v10⟩ := hvb
  obtain ⟨_, b, hb, rfl⟩ := bankCall_ok hfee
  obtain ⟨_, hcoins⟩ := mkCoins_ok hmk
  have hpos : m.sellAmt ≠ 0 := by omega
  rw [if_neg hpos] at hcoins
  subst hcoins
  obtain ⟨_, b2, hb2, _⟩ := bankCall_ok hsend
  simp only at hb2
  have hcov : m.sellAmt ≤ b (.user m.auctioneer) m.sellDenom :=
    (send_pos_iff b _ _ _ _).mp ⟨b2, hb2⟩
  simp only [Bool.not_eq_true', decide_eq_false_iff_not, decide_eq_true_eq] at h1 h2 h3
  refine ⟨v1, v2, ⟨v4, v5⟩, ⟨v7, v6⟩, v8, by omega, ⟨v10, h2⟩, ?_, ⟨b, hb, hcov⟩⟩
  intro hty
  simp only [hty, bne_self_eq_false, Bool.false_or, not_true_eq_false, false_or,
    decide_eq_true_eq] at v3 v9 h3
  exact ⟨v3, v9, h3⟩

theorem create_ok_of_accept {c : Ctx} {m : CreateMsg} (hf : c.ctl.failhook = none)
    (hk : c.ctl.fault = none) (ha : AcceptCreate c.s m) : ∃ c', deliver c (.create m) = .ok c' := by
  obtain ⟨b, hb, hamt⟩ := ha.funds
  have hvb : validateBasic (.create m) = true := by
    have h1 := ha.signer
    have h2 := ha.startPrice
    obtain ⟨h3, h4⟩ := ha.sellCoin
    obtain ⟨h5, h6⟩ := ha.payDenom
    have h7 := ha.times
    have h8 := ha.schedules.1
    unfold SchedulesOk at h8
    have h9 := ha.batch
    simp only [validateBasic, validCoin, Bool.and_eq_true, Bool.or_eq_true, decide_eq_true_eq,
      bne_iff_ne, ne_eq]
    refine ⟨⟨⟨⟨⟨⟨⟨⟨⟨h1, h2⟩, ?_⟩, ⟨h3, by omega⟩⟩, h4⟩, h6⟩, h5⟩, h7⟩, ?_⟩, h8⟩
    · by_cases hty : m.type = .batch
      · exact Or.inr (h9 hty).1
      · exact Or.inl hty
    · by_cases hty : m.type = .batch
      · exact Or.inr (h9 hty).2.1
      · exact Or.inl hty
  unfold deliver
  rw [bind_of_ok (check_of hvb)]
  show ∃ c', createAuction c m = .ok c'
  unfold createAuction
  have e1 : (!decide (c.s.now > m.endTime)) = true := by
    have := ha.endNotPast
    simp only [Bool.not_eq_true', decide_eq_false_iff_not]; omega
  have e2 : decide (m.schedules.length ≤ 100) = true := by
    simpa using ha.schedules.2
  have e3 : (m.type != AType.batch || decide (m.maxExt ≤ 30)) = true := by
    simp only [Bool.or_eq_true, bne_iff_ne, ne_eq, decide_eq_true_eq]
    by_cases hty : m.type = .batch
    · exact Or.inr (ha.batch hty).2.2
    · exact Or.inl hty
  rw [bind_of_ok (check_of e1), bind_of_ok (check_of e2), bind_of_ok (check_of e3)]
  have hk0 : c.ctl.fault ≠ some c.calls := by rw [hk]; simp
  rw [bind_of_ok (bankCall_of_send hk0 hb)]
  have hnz : m.sellAmt ≠ 0 := by have := ha.sellCoin.2; omega
  have hmk := mkCoins_of_nonneg
    { c with s := { c.s with bank := b },
             effs := c.effs ++ [.xfer ⟨.pool, .user m.auctioneer, .pool, c.s.params.creationFee⟩],
             calls := c.calls + 1 } m.sellDenom m.sellAmt (by have := ha.sellCoin.2; omega)
  rw [if_neg hnz] at hmk
  rw [bind_of_ok hmk]
  obtain ⟨b2, hb2⟩ := (send_pos_iff b (.user m.auctioneer) (.sell c.s.views.length) m.sellDenom m.sellAmt).mpr hamt
  rw [bind_of_ok (bankCall_of_send (by simp only; rw [hk]; simp) hb2)]
  refine exists_hook_bind hf ?_
  intro c3 _ h3
  exact hook_of_no_fail _ _ _ (by simp only [h3]; exact hf)

end AcceptAux
end Fundraising
