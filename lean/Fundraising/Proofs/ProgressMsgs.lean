import Fundraising.Proofs.ProgressBasic
/-
  Inversions of `createAuction` and of a fixed-price `placeBid`.
-/
namespace Fundraising.ProgressInv
open Fundraising.WFInv (bind_ok pure_ok fail_ne_ok)

/-- a successful message: the handler ran on the pre-state and its state was committed -/
theorem msg_ok (st : State) (m : Msg) (hok : (step st (.msg m)).1.res = .ok) :
    ∃ c', handle { s := st.core, ctl := st.ctl } m = .ok c' ∧ (step st (.msg m)).2.core = c'.s := by
  have hstep : step st (.msg m) = runAtomic st true (fun c => deliver c m) := rfl
  rw [hstep] at hok ⊢
  rcases runAtomic_cases st true (fun c => deliver c m) with ⟨c, hc, hr⟩ | ⟨e, _, _, hne⟩
  · refine ⟨c, ?_, by rw [hr]⟩
    simp only [deliver, bind_ok] at hc
    obtain ⟨_, _, hc⟩ := hc
    exact hc
  · exact absurd hok hne

theorem createAuction_inv {c c' : Ctx} {m : CreateMsg} (h : createAuction c m = .ok c') :
    ∃ a : Auction, c'.s.views = c.s.views ++ [({ a := a } : AView)] ∧
      a.status = (if m.startTime ≤ c.s.now then .started else .standby) ∧ a.endTimes = [m.endTime] := by
  unfold createAuction at h
  simp only [bind_ok] at h
  obtain ⟨_, _, _, _, _, _, c1, hb1, coins, _, c2, hb2, c3, hh1, hh2⟩ := h
  have e1 := bankCall_ext hb1
  have e2 := bankCall_ext hb2
  obtain ⟨s3, _, _, _⟩ := hook_ok hh1
  obtain ⟨s4, _, _, _⟩ := hook_ok hh2
  have hviews : ∃ a : Auction, c'.s.views = c3.s.views ++ [({ a := a } : AView)] ∧
      a.status = (if m.startTime ≤ c2.s.now then .started else .standby) ∧ a.endTimes = [m.endTime] :=
    ⟨_, congrArg Core.views s4, rfl, rfl⟩
  obtain ⟨a, h1, h2, h3⟩ := hviews
  refine ⟨a, ?_, ?_, h3⟩
  · rw [h1, s3, e2.views, e1.views]
  · rw [h2, e2.now, e1.now]

theorem placeBid_fixed_inv {c c' : Ctx} {bidder : Acc} {aid : Nat} {price : Dec} {denom : Denom}
    {amt : Int} {v : AView}
    (h : placeBid c bidder aid .fixed price denom amt = .ok c') (hv : c.s.views[aid]? = some v) :
    ∃ b : Bid, b.type = .fixed ∧ b.price = price ∧ b.denom = denom ∧ b.amt = amt ∧ b.bidder = bidder ∧
      b.matched = decide (b.toSelling v.a.payDenom > 0) ∧
      c'.s.views[aid]? = some { v with
        a := { v.a with remaining := v.a.remaining - b.toSelling v.a.payDenom },
        bids := v.bids ++ [b], bidSeq := v.bidSeq + 1 } := by
  unfold placeBid at h
  simp only [bind_ok] at h
  obtain ⟨v', hv', _, _, _, _, h⟩ := h
  rw [view_ok_iff, hv] at hv'
  cases hv'
  cases hla : lookupAllowed v.allowed bidder with
  | none => simp only [hla, bind_ok, fail_ne_ok, false_and, exists_false] at h
  | some ab =>
    simp only [hla, bind_ok, pure_ok, exists_eq_left'] at h
    obtain ⟨c1, hb1, x, ⟨_, _, _, _, _, _, _, _, _, _, coins, _, c2, hb2, rfl⟩, c3, hh, rfl⟩ := h
    have e1 := bankCall_ext hb1
    have e2 := bankCall_ext hb2
    obtain ⟨s3, _, _, _⟩ := hook_ok hh
    have hv3 : c3.s.views[aid]? = some v := by
      rw [s3]
      show c2.s.views[aid]? = some v
      rw [e2.views, e1.views]; exact hv
    let b0 : Bid :=
      { auction := aid, id := v.bidSeq + 1, bidder := bidder, type := .fixed, price := price,
        denom := denom, amt := amt, matched := false }
    refine ⟨{ b0 with matched := decide (b0.toSelling v.a.payDenom > 0) },
      rfl, rfl, rfl, rfl, rfl, rfl, ?_⟩
    exact getElem?_set_self hv3

end Fundraising.ProgressInv
