import Fundraising.Spec.Clearing
import Fundraising.Proofs.DecLemmas
/-
  Generic list facts used by the sweep proofs: integer sums under permutation / filtering,
  `takeWhile` on a price-descending list, `sortBids`, `distinctPrices`, `biddersOf`,
  `lookupAmt`, `sumOver`.
-/
namespace Fundraising

/-! ### integer sums -/

theorem isum_perm {l₁ l₂ : List Int} (h : l₁.Perm l₂) : l₁.sum = l₂.sum := by
  induction h with
  | nil => rfl
  | cons x _ ih => simp only [List.sum_cons, ih]
  | swap x y l => simp only [List.sum_cons]; omega
  | trans _ _ ih1 ih2 => exact ih1.trans ih2

theorem isum_map_perm {α : Type} {l₁ l₂ : List α} (f : α → Int) (h : l₁.Perm l₂) :
    (l₁.map f).sum = (l₂.map f).sum := isum_perm (h.map f)

theorem isum_map_le {α : Type} (f g : α → Int) : ∀ (l : List α), (∀ x ∈ l, f x ≤ g x) →
    (l.map f).sum ≤ (l.map g).sum
  | [], _ => Int.le_refl _
  | x :: l, h => by
    have h1 := h x (List.mem_cons_self)
    have h2 := isum_map_le f g l (fun y hy => h y (List.mem_cons_of_mem _ hy))
    simp only [List.map_cons, List.sum_cons]; omega

theorem isum_map_nonneg {α : Type} (f : α → Int) : ∀ (l : List α), (∀ x ∈ l, 0 ≤ f x) →
    0 ≤ (l.map f).sum
  | [], _ => Int.le_refl _
  | x :: l, h => by
    have h1 := h x (List.mem_cons_self)
    have h2 := isum_map_nonneg f l (fun y hy => h y (List.mem_cons_of_mem _ hy))
    simp only [List.map_cons, List.sum_cons]; omega

theorem isum_map_congr {α : Type} (f g : α → Int) (l : List α) (h : ∀ x ∈ l, f x = g x) :
    (l.map f).sum = (l.map g).sum := by
  rw [List.map_congr_left h]

/-- a sum of non-negative terms that is zero has only zero terms -/
theorem isum_map_eq_zero {α : Type} (f : α → Int) : ∀ (l : List α), (∀ x ∈ l, 0 ≤ f x) →
    (l.map f).sum = 0 → ∀ x ∈ l, f x = 0
  | [], _, _ => fun x hx => by cases hx
  | y :: l, h, hs => by
    have h1 := h y (List.mem_cons_self)
    have h2 := isum_map_nonneg f l (fun z hz => h z (List.mem_cons_of_mem _ hz))
    simp only [List.map_cons, List.sum_cons] at hs
    intro x hx
    rcases List.mem_cons.1 hx with rfl | hx
    · omega
    · exact isum_map_eq_zero f l (fun z hz => h z (List.mem_cons_of_mem _ hz)) (by omega) x hx

/-- filtering with a stronger predicate and smaller summands gives a smaller sum -/
theorem isum_filter_mono {α : Type} (P Q : α → Bool) (f g : α → Int) : ∀ (l : List α),
    (∀ x ∈ l, P x = true → Q x = true) → (∀ x ∈ l, P x = true → f x ≤ g x) → (∀ x ∈ l, 0 ≤ g x) →
    ((l.filter P).map f).sum ≤ ((l.filter Q).map g).sum
  | [], _, _, _ => Int.le_refl _
  | x :: l, hPQ, hfg, hg => by
    have ih := isum_filter_mono P Q f g l (fun y hy => hPQ y (List.mem_cons_of_mem _ hy))
      (fun y hy => hfg y (List.mem_cons_of_mem _ hy)) (fun y hy => hg y (List.mem_cons_of_mem _ hy))
    have hx := List.mem_cons_self (a := x) (l := l)
    by_cases hP : P x = true
    · have hQ := hPQ x hx hP
      have := hfg x hx hP
      simp only [List.filter_cons, hP, hQ, if_true, List.map_cons, List.sum_cons]; omega
    · have := hg x hx
      by_cases hQ : Q x = true
      · simp only [List.filter_cons, hP, hQ, if_true, List.map_cons, List.sum_cons]
        simp only [Bool.false_eq_true, if_false]; omega
      · simp only [List.filter_cons, hP, hQ]
        simp only [Bool.false_eq_true, if_false]; omega

theorem foldl_add_eq_sum {α : Type} (f : α → Int) : ∀ (l : List α) (s : Int),
    l.foldl (fun s b => s + f b) s = s + (l.map f).sum
  | [], s => by simp
  | x :: l, s => by
    simp only [List.foldl_cons, List.map_cons, List.sum_cons]
    rw [foldl_add_eq_sum f l]; omega

theorem sumOver_eq (bids : List Bid) (u : Acc) (f : Bid → Int) :
    sumOver bids u f = ((bids.filter (·.bidder == u)).map f).sum := by
  unfold sumOver; rw [foldl_add_eq_sum]; omega

/-- changing a function at one point of a duplicate-free index list -/
theorem isum_map_update (f g : Acc → Int) (u : Acc) (x : Int) : ∀ (B : List Acc), B.Nodup → u ∈ B →
    g u = f u + x → (∀ v, v ≠ u → g v = f v) → (B.map g).sum = (B.map f).sum + x
  | [], _, hu, _, _ => by cases hu
  | y :: B, hB, hu, h1, h2 => by
    rw [List.nodup_cons] at hB
    simp only [List.map_cons, List.sum_cons]
    by_cases hy : y = u
    · subst hy
      have : (B.map g).sum = (B.map f).sum :=
        isum_map_congr g f B (fun v hv => h2 v (fun e => hB.1 (e ▸ hv)))
      omega
    · have hu' : u ∈ B := by
        rcases List.mem_cons.1 hu with e | e
        · exact absurd e.symm hy
        · exact e
      have := isum_map_update f g u x B hB.2 hu' h1 h2
      have := h2 y hy
      omega

/-! ### takeWhile on a price-descending list -/

theorem takeWhile_eq_filter_of_desc (p : Dec) : ∀ (l : List Bid),
    l.Pairwise (fun x y => y.price ≤ x.price) →
    l.takeWhile (fun b => decide (p ≤ b.price)) = l.filter (fun b => decide (p ≤ b.price))
  | [], _ => rfl
  | b :: l, h => by
    rw [List.pairwise_cons] at h
    by_cases hb : p ≤ b.price
    · simp only [List.takeWhile_cons, List.filter_cons, hb, decide_true, if_true]
      rw [takeWhile_eq_filter_of_desc p l h.2]
    · have : l.filter (fun b => decide (p ≤ b.price)) = [] := by
        rw [List.filter_eq_nil_iff]
        intro x hx
        have := h.1 x hx
        simp only [decide_eq_true_eq]
        intro hpx; exact hb (Int.le_trans hpx this)
      simp only [List.takeWhile_cons, List.filter_cons, hb, decide_false, this]
      simp

/-! ### sortBids -/

theorem insertByPrice_perm (b : Bid) : ∀ (l : List Bid), (insertByPrice b l).Perm (b :: l)
  | [] => List.Perm.refl _
  | y :: ys => by
    unfold insertByPrice
    split
    · exact List.Perm.refl _
    · exact ((insertByPrice_perm b ys).cons y).trans (List.Perm.swap b y ys)

theorem insertByPrice_sorted (b : Bid) : ∀ (l : List Bid),
    l.Pairwise (fun x y => y.price ≤ x.price) →
    (insertByPrice b l).Pairwise (fun x y => y.price ≤ x.price)
  | [], _ => by simp [insertByPrice]
  | y :: ys, h => by
    unfold insertByPrice
    have h' := List.pairwise_cons.1 h
    split
    · rename_i hlt
      refine List.pairwise_cons.2 ⟨?_, h⟩
      intro z hz
      rcases List.mem_cons.1 hz with rfl | hz
      · exact Int.le_of_lt hlt
      · exact Int.le_trans (h'.1 z hz) (Int.le_of_lt hlt)
    · rename_i hnlt
      refine List.pairwise_cons.2 ⟨?_, insertByPrice_sorted b ys h'.2⟩
      intro z hz
      rcases List.mem_cons.1 ((insertByPrice_perm b ys).mem_iff.1 hz) with rfl | hz
      · exact Int.not_lt.1 hnlt
      · exact h'.1 z hz

theorem sortBids_foldl (bids : List Bid) : ∀ (acc : List Bid),
    acc.Pairwise (fun x y => y.price ≤ x.price) →
    (bids.foldl (fun acc b => insertByPrice b acc) acc).Perm (acc ++ bids) ∧
    (bids.foldl (fun acc b => insertByPrice b acc) acc).Pairwise (fun x y => y.price ≤ x.price) := by
  induction bids with
  | nil => intro acc h; simpa using h
  | cons b bs ih =>
    intro acc h
    simp only [List.foldl_cons]
    have := ih (insertByPrice b acc) (insertByPrice_sorted b acc h)
    refine ⟨this.1.trans ?_, this.2⟩
    refine ((insertByPrice_perm b acc).append_right bs).trans ?_
    simpa using (List.perm_middle (a := b) (l₁ := acc) (l₂ := bs)).symm

/-! ### distinctPrices -/

theorem mem_distinctPrices (x : Dec) : ∀ (l : List Bid), x ∈ distinctPrices l ↔ ∃ b ∈ l, b.price = x
  | [] => by simp [distinctPrices]
  | [b] => by simp [distinctPrices, eq_comm]
  | b :: b' :: rest => by
    have ih := mem_distinctPrices x (b' :: rest)
    unfold distinctPrices
    split
    · rename_i heq
      rw [ih]
      constructor
      · rintro ⟨c, hc, e⟩; exact ⟨c, List.mem_cons_of_mem _ hc, e⟩
      · rintro ⟨c, hc, e⟩
        rcases List.mem_cons.1 hc with rfl | hc
        · exact ⟨b', List.mem_cons_self, heq ▸ e⟩
        · exact ⟨c, hc, e⟩
    · rw [List.mem_cons, ih]
      constructor
      · rintro (e | ⟨c, hc, e⟩)
        · exact ⟨b, List.mem_cons_self, e.symm⟩
        · exact ⟨c, List.mem_cons_of_mem _ hc, e⟩
      · rintro ⟨c, hc, e⟩
        rcases List.mem_cons.1 hc with rfl | hc
        · exact Or.inl e.symm
        · exact Or.inr ⟨c, hc, e⟩

theorem distinctPrices_desc : ∀ (l : List Bid), l.Pairwise (fun x y => y.price ≤ x.price) →
    (distinctPrices l).Pairwise (fun x y => y < x)
  | [], _ => by simp [distinctPrices]
  | [b], _ => by simp [distinctPrices]
  | b :: b' :: rest, h => by
    have h' := List.pairwise_cons.1 h
    have ih := distinctPrices_desc (b' :: rest) h'.2
    unfold distinctPrices
    split
    · exact ih
    · rename_i hne
      refine List.pairwise_cons.2 ⟨?_, ih⟩
      intro y hy
      obtain ⟨c, hc, e⟩ := (mem_distinctPrices y (b' :: rest)).1 hy
      have h1 : b'.price ≤ b.price := h'.1 b' List.mem_cons_self
      have h2 : c.price ≤ b'.price := by
        rcases List.mem_cons.1 hc with rfl | hc'
        · exact Int.le_refl _
        · exact (List.pairwise_cons.1 h'.2).1 c hc'
      have h3 : b'.price < b.price := Int.lt_iff_le_and_ne.2 ⟨h1, fun e => hne e.symm⟩
      rw [← e]; exact Int.lt_of_le_of_lt h2 h3

/-! ### biddersOf -/

theorem mem_insertAcc (u v : Acc) : ∀ (l : List Acc), v ∈ insertAcc u l ↔ v = u ∨ v ∈ l
  | [] => by simp [insertAcc]
  | y :: ys => by
    unfold insertAcc
    split
    · simp
    · split
      · rename_i _ he; subst he; simp
      · rw [List.mem_cons, mem_insertAcc u v ys, List.mem_cons]
        constructor
        · rintro (h | h | h) <;> simp [h]
        · rintro (h | h | h) <;> simp [h]

theorem insertAcc_sorted (u : Acc) : ∀ (l : List Acc), l.Pairwise (· < ·) → (insertAcc u l).Pairwise (· < ·)
  | [], _ => by simp [insertAcc]
  | y :: ys, h => by
    have h' := List.pairwise_cons.1 h
    unfold insertAcc
    split
    · rename_i hlt
      refine List.pairwise_cons.2 ⟨?_, h⟩
      intro z hz
      rcases List.mem_cons.1 hz with rfl | hz
      · exact hlt
      · exact Nat.lt_trans hlt (h'.1 z hz)
    · split
      · exact h
      · rename_i hnlt hne
        refine List.pairwise_cons.2 ⟨?_, insertAcc_sorted u ys h'.2⟩
        intro z hz
        rcases (mem_insertAcc u z ys).1 hz with rfl | hz
        · exact Nat.lt_of_le_of_ne (Nat.not_lt.1 hnlt) (fun e => hne e.symm)
        · exact h'.1 z hz

theorem biddersOf_foldl (bids : List Bid) : ∀ (acc : List Acc), acc.Pairwise (· < ·) →
    (∀ v, v ∈ bids.foldl (fun l b => insertAcc b.bidder l) acc ↔ v ∈ acc ∨ ∃ b ∈ bids, b.bidder = v) ∧
    (bids.foldl (fun l b => insertAcc b.bidder l) acc).Pairwise (· < ·) := by
  induction bids with
  | nil => intro acc h; simpa using h
  | cons b bs ih =>
    intro acc h
    simp only [List.foldl_cons]
    have := ih (insertAcc b.bidder acc) (insertAcc_sorted _ acc h)
    refine ⟨fun v => ?_, this.2⟩
    rw [this.1 v, mem_insertAcc]
    constructor
    · rintro ((h | h) | ⟨c, hc, e⟩)
      · exact Or.inr ⟨b, List.mem_cons_self, h.symm⟩
      · exact Or.inl h
      · exact Or.inr ⟨c, List.mem_cons_of_mem _ hc, e⟩
    · rintro (h | ⟨c, hc, e⟩)
      · exact Or.inl (Or.inr h)
      · rcases List.mem_cons.1 hc with rfl | hc
        · exact Or.inl (Or.inl e.symm)
        · exact Or.inr ⟨c, hc, e⟩

theorem mem_biddersOf (bids : List Bid) (v : Acc) : v ∈ biddersOf bids ↔ ∃ b ∈ bids, b.bidder = v := by
  have := (biddersOf_foldl bids [] List.Pairwise.nil).1 v
  unfold biddersOf; rw [this]; simp

theorem biddersOf_nodup (bids : List Bid) : (biddersOf bids).Nodup := by
  have := (biddersOf_foldl bids [] List.Pairwise.nil).2
  unfold biddersOf
  exact this.imp (fun h => Nat.ne_of_lt h)

/-! ### lookupAmt -/

theorem lookupAmt_map (g : Acc → Int) (u : Acc) : ∀ (B : List Acc), u ∈ B →
    lookupAmt (B.map (fun v => (v, g v))) u = g u
  | [], h => by cases h
  | y :: B, h => by
    by_cases hy : y = u
    · subst hy; simp [lookupAmt]
    · have hu : u ∈ B := by
        rcases List.mem_cons.1 h with e | e
        · exact absurd e.symm hy
        · exact e
      have ih := lookupAmt_map g u B hu
      unfold lookupAmt at ih ⊢
      simp only [List.map_cons, List.find?_cons]
      have : ((y, g y).1 == u) = false := by simpa using hy
      rw [this]; exact ih

end Fundraising
