import Fundraising.Proofs.TotalSettle
import Fundraising.Proofs.TotalFacts
import Fundraising.Proofs.EscrowProofs
/-
  C07 helpers, part 6: the vesting release loop, one iteration of `BeginBlocker`, the
  whole loop.
-/
namespace Fundraising

/-- sum of the unreleased instalments of a queue snapshot -/
def unrel (l : List VQ) : Int := ((l.filter (fun q => !q.released)).map (·.amt)).sum

theorem unrel_nonneg (l : List VQ) (h : ∀ q ∈ l, 0 ≤ q.amt) : 0 ≤ unrel l :=
  isum_map_nonneg _ _ (fun q hq => h q (List.mem_filter.1 hq).1)

theorem unrel_cons (q : VQ) (l : List VQ) :
    unrel (q :: l) = (if q.released = false then q.amt else 0) + unrel l := by
  unfold unrel
  cases h : q.released <;> simp [h]

theorem get_of_lt {c : Ctx} {aid : Nat} (h : aid < c.s.views.length) :
    ∃ v, c.s.views[aid]? = some v := ⟨_, List.getElem?_eq_getElem h⟩

theorem releaseLoop_ok (aid : Nat) (auctioneer : Acc) (n : Nat) (pd : Denom) :
    ∀ (l : List VQ) (i : Nat) (c : Ctx), c.ctl.fault = none → aid < c.s.views.length →
      (∀ q ∈ l, 0 ≤ q.amt ∧ q.denom = pd) → unrel l ≤ c.s.bank (.vest aid) pd →
      ∃ c', releaseLoop c aid auctioneer n i l = .ok c' ∧ Frame aid c c'
  | [], i, c, _, _, _, _ => ⟨c, rfl, Frame.refl _ _⟩
  | q :: rest, i, c, hf, hlt, hq, hle => by
    have hq0 := hq q (List.mem_cons_self)
    have hq' : ∀ x ∈ rest, 0 ≤ x.amt ∧ x.denom = pd := fun x hx => hq x (List.mem_cons_of_mem _ hx)
    have hr0 : 0 ≤ unrel rest := unrel_nonneg rest (fun x hx => (hq' x hx).1)
    rw [unrel_cons] at hle
    simp only [releaseLoop]
    by_cases hd : q.release ≤ c.s.now ∧ (!q.released) = true
    · rw [if_pos hd]
      have hrel : q.released = false := by simpa using hd.2
      rw [if_pos hrel] at hle
      rw [mkCoins_of_nonneg c _ _ hq0.1, ok_bind]
      obtain ⟨c1, h1, hx, hb⟩ := send_user_ok c hf .send (.vest aid) auctioneer
        (fun u e => by cases e) q.denom q.amt hq0.1 (by rw [hq0.2]; omega)
      rw [h1, ok_bind]
      have hlt1 : aid < c1.s.views.length := by rw [hx.views]; exact hlt
      obtain ⟨v1, hv1⟩ := get_of_lt hlt1
      rw [view_of_get hv1, ok_bind]
      have key : ∀ c2 : Ctx, Frame aid c1 c2 → c2.s.bank = c1.s.bank →
          ∃ c', releaseLoop c2 aid auctioneer n (i + 1) rest = .ok c' ∧ Frame aid c c' := by
        intro c2 hfr hbk
        obtain ⟨c', h', hfr'⟩ := releaseLoop_ok aid auctioneer n pd rest (i + 1) c2
          (by rw [hfr.ctl, hx.ctl]; exact hf) (by rw [hfr.len]; exact hlt1) hq'
          (by rw [hbk, ← hq0.2, hb, hq0.2]; omega)
        exact ⟨c', h', ((hx.frame (Or.inr (Or.inr rfl))).trans hfr).trans hfr'⟩
      split
      · rw [view_of_get (setView_get aid c1 _ hlt1), ok_bind, pure_eq_ok, ok_bind]
        exact key _ ((setView_frame aid c1 _).trans (setView_frame aid _ _)) rfl
      · rw [pure_eq_ok, ok_bind]
        exact key _ (setView_frame aid c1 _) rfl
    · rw [if_neg hd]
      have : unrel rest ≤ c.s.bank (.vest aid) pd := by
        split at hle <;> omega
      exact releaseLoop_ok aid auctioneer n pd rest (i + 1) c hf hlt hq' this

theorem releaseVesting_ok (c : Ctx) (hf : c.ctl.fault = none) (aid : Nat) (v : AView)
    (hv : c.s.views[aid]? = some v)
    (hq : ∀ q ∈ v.vqs, 0 ≤ q.amt ∧ q.denom = v.a.payDenom)
    (hle : unreleasedTotal v ≤ c.s.bank (.vest aid) v.a.payDenom) :
    ∃ c', releaseVesting c aid = .ok c' ∧ Frame aid c c' := by
  unfold releaseVesting
  rw [view_of_get hv, ok_bind]
  exact releaseLoop_ok aid _ _ v.a.payDenom v.vqs 0 c hf (lt_of_get hv) hq hle

/-- one iteration of the `BeginBlocker` loop succeeds on a well-formed, covered auction -/
theorem blockStep_ok (c : Ctx) (hf : c.ctl.fault = none) (hh : c.ctl.failhook = none)
    (aid : Nat) (v : AView) (hv : c.s.views[aid]? = some v) (hwf : ViewWF aid v)
    (hcov : EscrowCovered c.s aid v) (hnn : BankNonneg c.s) :
    ∃ c', blockStep c aid = .ok c' ∧ Frame aid c c' := by
  unfold blockStep
  rw [view_of_get hv, ok_bind]
  cases hst : v.a.status with
  | standby =>
    simp only []
    split
    · exact ⟨_, rfl, setView_frame aid c _⟩
    · exact ⟨_, rfl, Frame.refl _ _⟩
  | started =>
    simp only []
    cases he : v.a.endTimes.getLast? with
    | none =>
      exact absurd (List.getLast?_eq_none_iff.1 he) hwf.auction.endNonempty
    | some e =>
      simp only []
      split
      · have hsell : v.a.sellAmt ≤ c.s.bank (.sell aid) v.a.sellDenom := by
          have := hcov.sell
          unfold owedSell at this
          rw [if_pos (Or.inr hst)] at this
          exact this
        have hpay : reservedTotal v ≤ c.s.bank (.pay aid) v.a.payDenom := by
          have := hcov.pay
          unfold owedPay at this
          rw [if_pos hst] at this
          exact this
        cases hty : v.a.type with
        | fixed =>
          simp only []
          obtain ⟨f0, fsum⟩ := calcFixed_facts v
            (fun b hb => ⟨(hwf.bids b hb).price, (hwf.bids b hb).amt⟩)
          have hrem := hwf.remaining hty (Or.inr hst)
          exact closeFixed_ok c hf hh aid v hv hwf.id hnn _ hwf.auction.sched f0
            (by rw [fsum]; omega)
        | batch =>
          simp only []
          obtain ⟨mi, hmi, a0, asum, r0, rsum⟩ := calcBatch_facts v (bookWF_of_viewWF hwf hty)
          exact closeBatch_ok c hf hh aid v hv hwf.id hnn _ hwf.auction.sched mi hmi a0
            (by omega) r0 (by omega)
      · exact ⟨_, rfl, Frame.refl _ _⟩
  | vesting =>
    simp only []
    refine releaseVesting_ok c hf aid v hv (fun q hq => ?_) ?_
    · obtain ⟨h1, h2, _, _⟩ := hwf.vqsWF q hq
      exact ⟨h1, h2⟩
    · have := hcov.vest
      unfold owedVest at this
      rw [if_pos hst] at this
      exact this
  | finished => exact ⟨_, rfl, Frame.refl _ _⟩
  | cancelled => exact ⟨_, rfl, Frame.refl _ _⟩

theorem blockLoop_ok : ∀ (l : List Nat) (c : Ctx), c.ctl.fault = none → c.ctl.failhook = none →
    BankNonneg c.s → l.Nodup →
    (∀ j ∈ l, ∃ v, c.s.views[j]? = some v ∧ ViewWF j v ∧ EscrowCovered c.s j v) →
    ∃ c', blockLoop c l = .ok c'
  | [], c, _, _, _, _, _ => ⟨c, rfl⟩
  | aid :: rest, c, hf, hh, hnn, hnd, hall => by
    obtain ⟨v, hv, hwf, hcov⟩ := hall aid (List.mem_cons_self)
    obtain ⟨c1, h1, hfr⟩ := blockStep_ok c hf hh aid v hv hwf hcov hnn
    simp only [blockLoop]
    rw [h1, ok_bind]
    have hnd' := List.nodup_cons.1 hnd
    refine blockLoop_ok rest c1 (by rw [hfr.ctl]; exact hf) (by rw [hfr.ctl]; exact hh)
      (hfr.nonneg hnn) hnd'.2 ?_
    intro j hj
    have hne : j ≠ aid := fun e => hnd'.1 (e ▸ hj)
    obtain ⟨w, hw, hwf', hcov'⟩ := hall j (List.mem_cons_of_mem _ hj)
    refine ⟨w, by rw [hfr.views j hne]; exact hw, hwf', ?_⟩
    exact ⟨by rw [hfr.sell j hne]; exact hcov'.sell, by rw [hfr.pay j hne]; exact hcov'.pay,
      by rw [hfr.vest j hne]; exact hcov'.vest⟩

/-- `BeginBlocker` succeeds on a well-formed state whose escrows cover what is owed -/
theorem beginBlock_total (s : Core) (ctl : Control) (t : Int) (hwf : WF s) (hnn : BankNonneg s)
    (hcov : AllCovered s) (hh : ctl.failhook = none) (hf : ctl.fault = none) :
    ∃ c', beginBlock { s := { s with now := t }, ctl := ctl } t = .ok c' := by
  simp only [beginBlock]
  refine blockLoop_ok _ _ hf hh hnn List.nodup_range ?_
  intro j hj
  have hlt : j < s.views.length := List.mem_range.1 hj
  have hg : s.views[j]? = some s.views[j] := List.getElem?_eq_getElem hlt
  have hc := hcov j _ hg
  exact ⟨s.views[j], hg, hwf.views j _ hg, ⟨hc.sell, hc.pay, hc.vest⟩⟩

end Fundraising
