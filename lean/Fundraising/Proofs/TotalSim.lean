import Fundraising.Proofs.TotalBase
/-
  C07 helpers, part 1: a failure armed in the controls (a failing bank call, a failing
  listener) makes the handler follow the failure-free run up to the failing primitive
  and then REJECT (never panic).  Generic in what is armed (`SimSpec`); one lemma per
  handler of `beginBlock`.
-/
namespace Fundraising

/-- what is armed (`arm`), when a context of the failure-free run is still before the
    failing primitive (`Good`), and when it is past it (`Past`) -/
structure SimSpec where
  arm : Control → Control
  Good : List Eff → Nat → Prop
  Past : List Eff → Nat → Prop

def SimSpec.armC (S : SimSpec) (c : Ctx) : Ctx := { c with ctl := S.arm c.ctl }

/-- `c0`/`c2`: contexts of the failure-free run before/after a piece of a handler;
    `y`: the result of the same piece run from the armed `c0` -/
def Rel (S : SimSpec) (c0 c2 : Ctx) (y : M Ctx) : Prop :=
  (S.Past c0.effs c0.calls → S.Past c2.effs c2.calls) ∧
  (S.Good c0.effs c0.calls →
    (S.Good c2.effs c2.calls ∧ y = .ok (S.armC c2)) ∨
    (S.Past c2.effs c2.calls ∧ ∃ e, y = .error ⟨.reject, e⟩))

def Sound (S : SimSpec) (f : Ctx → M Ctx) : Prop :=
  ∀ c c', f c = .ok c' → Rel S c c' (f (S.armC c))

structure SimOK (S : SimSpec) : Prop where
  bank : ∀ k src dst coins, Sound S (fun c => c.bankCall k src dst coins)
  hook : ∀ name args, Sound S (fun c => c.hook name args)

variable {S : SimSpec}

theorem Rel.chain {x : M Ctx} {g : Ctx → M Ctx} {c0 c1 c2 : Ctx}
    (h1 : Rel S c0 c1 x) (h2 : Rel S c1 c2 (g (S.armC c1))) : Rel S c0 c2 (x >>= g) := by
  refine ⟨fun h => h2.1 (h1.1 h), fun hg => ?_⟩
  rcases h1.2 hg with ⟨hg1, hx⟩ | ⟨hp1, e, hx⟩
  · rw [hx, ok_bind]
    exact h2.2 hg1
  · rw [hx, error_bind]
    exact Or.inr ⟨h2.1 hp1, e, rfl⟩

theorem Rel.refl (c : Ctx) : Rel S c c (.ok (S.armC c)) :=
  ⟨id, fun h => Or.inl ⟨h, rfl⟩⟩

/-- a pure state change (store writes) -/
theorem Rel.pure {c c' : Ctx} (he : c'.effs = c.effs) (hc : c'.calls = c.calls) :
    Rel S c c' (.ok (S.armC c')) := by
  unfold Rel
  rw [he, hc]
  exact ⟨id, fun h => Or.inl ⟨h, rfl⟩⟩

theorem Rel.trans_pure {c0 c1 c2 : Ctx} {y : M Ctx} (h : Rel S c0 c1 y)
    (he : c2.effs = c1.effs) (hc : c2.calls = c1.calls) (f : Ctx → Ctx)
    (hf : f (S.armC c1) = S.armC c2) : Rel S c0 c2 (y >>= fun c => .ok (f c)) := by
  refine Rel.chain h ?_
  show Rel S c1 c2 (.ok (f (S.armC c1)))
  rw [hf]
  exact Rel.pure he hc

/-! readers do not see the controls -/

theorem view_armC (c : Ctx) (aid : Nat) : (S.armC c).view aid = c.view aid := rfl
theorem mkCoins_armC (c : Ctx) (d : Denom) (amt : Int) : mkCoins (S.armC c) d amt = mkCoins c d amt := rfl
theorem setView_armC (c : Ctx) (aid : Nat) (v : AView) :
    (S.armC c).setView aid v = S.armC (c.setView aid v) := rfl
theorem bal_armC (c : Ctx) (a : Addr) (d : Denom) : (S.armC c).bal a d = c.bal a d := rfl
theorem s_armC (c : Ctx) : (S.armC c).s = c.s := rfl

/-! ### the handlers -/

theorem payOut_sound (hS : SimOK S) (src : Addr) (d : Denom) :
    ∀ l, Sound S (fun c => payOut c src d l)
  | [] => by
    intro c c' h
    simp only [payOut, pure_eq_ok] at h ⊢
    cases h
    exact Rel.refl c
  | (u, amt) :: rest => by
    intro c c' h
    simp only [payOut] at h ⊢
    by_cases h0 : amt = 0
    · simp only [h0, if_true] at h ⊢
      exact payOut_sound hS src d rest c c' h
    · simp only [h0, if_false] at h ⊢
      obtain ⟨coins, hm, h⟩ := bind_eq_ok.1 h
      obtain ⟨c1, hb, h⟩ := bind_eq_ok.1 h
      rw [mkCoins_armC, hm, ok_bind]
      exact Rel.chain (hS.bank _ _ _ _ c c1 hb) (payOut_sound hS src d rest c1 c' h)

theorem allocateSellingCoin_sound (hS : SimOK S) (a : Auction) (mi : MInfo) :
    Sound S (fun c => allocateSellingCoin c a mi) := by
  intro c c' h
  simp only [allocateSellingCoin] at h ⊢
  obtain ⟨c1, h1, h⟩ := bind_eq_ok.1 h
  exact Rel.chain (hS.hook _ _ c c1 h1) (payOut_sound hS _ _ _ c1 c' h)

theorem refundRemainingSellingCoin_sound (hS : SimOK S) (a : Auction) :
    Sound S (fun c => refundRemainingSellingCoin c a) := by
  intro c c' h
  simp only [refundRemainingSellingCoin] at h ⊢
  obtain ⟨coins, hm, h⟩ := bind_eq_ok.1 h
  rw [mkCoins_armC, bal_armC, hm, ok_bind]
  exact hS.bank _ _ _ _ c c' h

theorem refundPayingCoin_sound (hS : SimOK S) (a : Auction) (mi : MInfo) :
    Sound S (fun c => refundPayingCoin c a mi) := by
  intro c c' h
  exact payOut_sound hS _ _ _ c c' h


theorem applyVestingSchedules_sound (hS : SimOK S) (aid : Nat) :
    Sound S (fun c => applyVestingSchedules c aid) := by
  intro c c' h
  simp only [applyVestingSchedules] at h ⊢
  obtain ⟨v, hv, h⟩ := bind_eq_ok.1 h
  obtain ⟨coins, hm, h⟩ := bind_eq_ok.1 h
  rw [view_armC, hv, ok_bind]
  simp only [mkCoins_armC, bal_armC]
  rw [hm, ok_bind]
  by_cases he : v.a.schedules.isEmpty = true
  · rw [if_pos he] at h ⊢
    obtain ⟨c1, hb, h⟩ := bind_eq_ok.1 h
    rw [pure_eq_ok] at h
    cases h
    exact Rel.chain (hS.bank _ _ _ _ c c1 hb) (Rel.pure rfl rfl)
  · rw [if_neg he] at h ⊢
    obtain ⟨c1, hb, h⟩ := bind_eq_ok.1 h
    cases hs : splitLoop (c.bal (Addr.pay aid) v.a.payDenom) v.a.schedules
        (c.bal (Addr.pay aid) v.a.payDenom) with
    | none => rw [hs] at h; cases h
    | some parts =>
      rw [hs] at h
      simp only [pure_eq_ok] at h
      cases h
      exact Rel.chain (hS.bank _ _ _ _ c c1 hb) (Rel.pure rfl rfl)

theorem closeFixed_sound (hS : SimOK S) (aid : Nat) : Sound S (fun c => closeFixed c aid) := by
  intro c c' h
  simp only [closeFixed] at h ⊢
  obtain ⟨v, hv, h⟩ := bind_eq_ok.1 h
  obtain ⟨c1, h1, h⟩ := bind_eq_ok.1 h
  obtain ⟨c2, h2, h⟩ := bind_eq_ok.1 h
  rw [view_armC, hv, ok_bind]
  exact Rel.chain (allocateSellingCoin_sound hS _ _ c c1 h1)
    (Rel.chain (refundRemainingSellingCoin_sound hS _ c1 c2 h2)
      (applyVestingSchedules_sound hS aid c2 c' h))

theorem extendRound_sound (aid : Nat) : Sound S (fun c => extendRound c aid) := by
  intro c c' h
  simp only [extendRound] at h ⊢
  obtain ⟨v, hv, h⟩ := bind_eq_ok.1 h
  rw [view_armC, hv, ok_bind]
  rw [pure_eq_ok] at h
  cases h
  exact Rel.pure rfl rfl

theorem settleBatch_sound (hS : SimOK S) (aid : Nat) (mi : MInfo) :
    Sound S (fun c => settleBatch c aid mi) := by
  intro c c' h
  simp only [settleBatch] at h ⊢
  obtain ⟨v, hv, h⟩ := bind_eq_ok.1 h
  obtain ⟨c1, h1, h⟩ := bind_eq_ok.1 h
  obtain ⟨c2, h2, h⟩ := bind_eq_ok.1 h
  obtain ⟨c3, h3, h⟩ := bind_eq_ok.1 h
  obtain ⟨v3, hv3, h⟩ := bind_eq_ok.1 h
  rw [view_armC, hv, ok_bind]
  refine Rel.chain (allocateSellingCoin_sound hS _ _ c c1 h1)
    (Rel.chain (refundRemainingSellingCoin_sound hS _ c1 c2 h2)
      (Rel.chain (refundPayingCoin_sound hS _ _ c2 c3 h3) ?_))
  rw [view_armC, hv3, ok_bind]
  exact applyVestingSchedules_sound hS aid _ c' h

theorem closeBatch_sound (hS : SimOK S) (aid : Nat) : Sound S (fun c => closeBatch c aid) := by
  intro c c' h
  simp only [closeBatch] at h ⊢
  obtain ⟨v, hv, h⟩ := bind_eq_ok.1 h
  rw [view_armC, hv, ok_bind]
  cases hcb : calcBatch v.a v.bids v.allowed with
  | none => rw [hcb] at h; cases h
  | some mi =>
    rw [hcb] at h
    simp only [pure_eq_ok, ok_bind, setView_armC] at h ⊢
    split at h
    next hA => rw [if_pos hA]; exact settleBatch_sound hS aid _ _ c' h
    next hA =>
      rw [if_neg hA]
      split at h
      next hB => rw [if_pos hB]; exact extendRound_sound aid _ c' h
      next hB =>
        rw [if_neg hB]
        split at h
        next hC => rw [if_pos hC]; exact extendRound_sound aid _ c' h
        next hC => rw [if_neg hC]; exact settleBatch_sound hS aid _ _ c' h

theorem releaseLoop_sound (hS : SimOK S) (aid : Nat) (auctioneer : Acc) (n : Nat) :
    ∀ (l : List VQ) (i : Nat), Sound S (fun c => releaseLoop c aid auctioneer n i l)
  | [], i => by
    intro c c' h
    simp only [releaseLoop, pure_eq_ok] at h ⊢
    cases h
    exact Rel.refl c
  | q :: rest, i => by
    intro c c' h
    simp only [releaseLoop] at h ⊢
    split at h
    next hd =>
      rw [if_pos (show q.release ≤ (S.armC c).s.now ∧ (!q.released) = true from hd)]
      obtain ⟨coins, hm, h⟩ := bind_eq_ok.1 h
      obtain ⟨c1, hb, h⟩ := bind_eq_ok.1 h
      obtain ⟨v, hv, h⟩ := bind_eq_ok.1 h
      rw [mkCoins_armC, hm, ok_bind]
      refine Rel.chain (hS.bank _ _ _ _ c c1 hb) ?_
      rw [view_armC, hv, ok_bind]
      simp only [setView_armC]
      split at h
      next hn =>
        rw [if_pos hn]
        obtain ⟨v2, hv2, h⟩ := bind_eq_ok.1 h
        rw [view_armC, hv2, ok_bind]
        rw [pure_eq_ok, ok_bind] at h ⊢
        exact releaseLoop_sound hS aid auctioneer n rest (i + 1) _ c' h
      next hn =>
        rw [if_neg hn]
        rw [pure_eq_ok, ok_bind] at h ⊢
        exact releaseLoop_sound hS aid auctioneer n rest (i + 1) _ c' h
    next hd =>
      rw [if_neg (show ¬ (q.release ≤ (S.armC c).s.now ∧ (!q.released) = true) from hd)]
      exact releaseLoop_sound hS aid auctioneer n rest (i + 1) c c' h

theorem releaseVesting_sound (hS : SimOK S) (aid : Nat) :
    Sound S (fun c => releaseVesting c aid) := by
  intro c c' h
  simp only [releaseVesting] at h ⊢
  obtain ⟨v, hv, h⟩ := bind_eq_ok.1 h
  rw [view_armC, hv, ok_bind]
  exact releaseLoop_sound hS aid _ _ _ _ c c' h

theorem blockStep_sound (hS : SimOK S) (aid : Nat) : Sound S (fun c => blockStep c aid) := by
  intro c c' h
  simp only [blockStep] at h ⊢
  obtain ⟨v, hv, h⟩ := bind_eq_ok.1 h
  rw [view_armC, hv, ok_bind]
  cases hst : v.a.status with
  | standby =>
    simp only [hst] at h ⊢
    split at h
    next hd =>
      rw [if_pos (show v.a.startTime ≤ (S.armC c).s.now from hd)]
      rw [pure_eq_ok] at h
      cases h
      exact Rel.pure rfl rfl
    next hd =>
      rw [if_neg (show ¬ v.a.startTime ≤ (S.armC c).s.now from hd)]
      rw [pure_eq_ok] at h
      cases h
      exact Rel.refl c
  | started =>
    simp only [hst] at h ⊢
    cases he : v.a.endTimes.getLast? with
    | none => rw [he] at h; cases h
    | some e =>
      simp only [he] at h ⊢
      split at h
      next hd =>
        rw [if_pos (show e ≤ (S.armC c).s.now from hd)]
        cases hty : v.a.type with
        | fixed => simp only [hty] at h ⊢; exact closeFixed_sound hS aid c c' h
        | batch => simp only [hty] at h ⊢; exact closeBatch_sound hS aid c c' h
      next hd =>
        rw [if_neg (show ¬ e ≤ (S.armC c).s.now from hd)]
        rw [pure_eq_ok] at h
        cases h
        exact Rel.refl c
  | vesting =>
    simp only [hst] at h ⊢
    exact releaseVesting_sound hS aid c c' h
  | finished =>
    simp only [hst, pure_eq_ok] at h ⊢
    cases h
    exact Rel.refl c
  | cancelled =>
    simp only [hst, pure_eq_ok] at h ⊢
    cases h
    exact Rel.refl c

theorem blockLoop_sound (hS : SimOK S) : ∀ l, Sound S (fun c => blockLoop c l)
  | [] => by
    intro c c' h
    simp only [blockLoop, pure_eq_ok] at h ⊢
    cases h
    exact Rel.refl c
  | aid :: rest => by
    intro c c' h
    simp only [blockLoop] at h ⊢
    obtain ⟨c1, h1, h⟩ := bind_eq_ok.1 h
    exact Rel.chain (blockStep_sound hS aid c c1 h1) (blockLoop_sound hS rest c1 c' h)

theorem beginBlock_sound (hS : SimOK S) (t : Int) : Sound S (fun c => beginBlock c t) := by
  intro c c' h
  simp only [beginBlock] at h ⊢
  exact blockLoop_sound hS _ { c with s := { c.s with now := t } } c' h

end Fundraising
