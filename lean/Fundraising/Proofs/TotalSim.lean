import Fundraising.Proofs.TotalBase
/-
  C07 helpers, part 1: a failure armed in the controls (a failing bank call, a failing
  listener) makes the handler follow the failure-free run up to the failing primitive
  and then REJECT (never panic).  Generic in what is armed (`SimSpec`); one lemma per
  handler of `beginBlock`.
-/
namespace Fundraising

/-- what is armed (`arm`), when a context of the failure-free run is still before the
    failing primitive (`Good`), and when it is past it (`Past`) -/
structure SimSpec where
  arm : Control → Control
  Good : List Eff → Nat → Prop
  Past : List Eff → Nat → Prop

def SimSpec.armC (S : SimSpec) (c : Ctx) : Ctx := { c with ctl := S.arm c.ctl }

/-- `c0`/`c2`: contexts of the failure-free run before/after a piece of a handler;
    `y`: the result of the same piece run from the armed `c0` -/
def Rel (S : SimSpec) (c0 c2 : Ctx) (y : M Ctx) : Prop :=
  (S.Past c0.effs c0.calls → S.Past c2.effs c2.calls) ∧
  (S.Good c0.effs c0.calls →
    (S.Good c2.effs c2.calls ∧ y = .ok (S.armC c2)) ∨
    (S.Past c2.effs c2.calls ∧ ∃ e, y = .error ⟨.reject, e⟩))

def Sound (S : SimSpec) (f : Ctx → M Ctx) : Prop :=
  ∀ c c', f c = .ok c' → Rel S c c' (f (S.armC c))

structure SimOK (S : SimSpec) : Prop where
  bank : ∀ k src dst coins, Sound S (fun c => c.bankCall k src dst coins)
  hook : ∀ name args, Sound S (fun c => c.hook name args)

variable {S : SimSpec}

theorem Rel.chain {x : M Ctx} {g : Ctx → M Ctx} {c0 c1 c2 : Ctx}
    (h1 : Rel S c0 c1 x) (h2 : Rel S c1 c2 (g (S.armC c1))) : Rel S c0 c2 (x >>= g) := by
  refine ⟨fun h => h2.1 (h1.1 h), fun hg => ?_⟩
  rcases h1.2 hg with ⟨hg1, hx⟩ | ⟨hp1, e, hx⟩
  · rw [hx, ok_bind]
    exact h2.2 hg1
  · rw [hx, error_bind]
    exact Or.inr ⟨h2.1 hp1, e, rfl⟩

theorem Rel.refl (c : Ctx) : Rel S c c (.ok (S.armC c)) :=
  ⟨id, fun h => Or.inl ⟨h, rfl⟩⟩

/-- a pure state change (store writes) -/
theorem Rel.pure {c c' : Ctx} (he : c'.effs = c.effs) (hc : c'.calls = c.calls) :
    Rel S c c' (.ok (S.armC c')) := by
  unfold Rel
  rw [he, hc]
  exact ⟨id, fun h => Or.inl ⟨h, rfl⟩⟩

theorem Rel.trans_pure {c0 c1 c2 : Ctx} {y : M Ctx} (h : Rel S c0 c1 y)
    (he : c2.effs = c1.effs) (hc : c2.calls = c1.calls) (f : Ctx → Ctx)
    (hf : f (S.armC c1) = S.armC c2) : Rel S c0 c2 (y >>= fun c => .ok (f c)) := by
  refine Rel.chain h ?_
  show Rel S c1 c2 (.ok (f (S.armC c1)))
  rw [hf]
  exact Rel.pure he hc

/-! readers do not see the controls -/

theorem view_armC (c : Ctx) (aid : Nat) : (S.armC c).view aid = c.view aid := rfl
theorem mkCoins_armC (c : Ctx) (d : Denom) (amt : Int) : mkCoins (S.armC c) d amt = mkCoins c d amt := rfl
theorem setView_armC (c : Ctx) (aid : Nat) (v : AView) :
    (S.armC c).setView aid v = S.armC (c.setView aid v) := rfl
theorem bal_armC (c : Ctx) (a : Addr) (d : Denom) : (S.armC c).bal a d = c.bal a d := rfl
theorem s_armC (c : Ctx) : (S.armC c).s = c.s := rfl

/-! ### the handlers -/

theorem payOut_sound (hS : SimOK S) (src : Addr) (d : Denom) :
    ∀ l, Sound S (fun c => payOut c src d l)
  | [] => by
    intro c c' h
    simp only [payOut, pure_eq_ok] at h ⊢
    cases h
    exact Rel.refl c
  | (u, amt) :: rest => by
    intro c c' h
    simp only [payOut] at h ⊢
    by_cases h0 : amt = 0
    · simp only [h0, if_true] at h ⊢
      exact payOut_sound hS src d rest c c' h
    · simp only [h0, if_false] at h ⊢
      obtain ⟨coins, hm, h⟩ := bind_eq_ok.1 h
      obtain ⟨c1, hb, h⟩ := bind_eq_ok.1 h
      rw [mkCoins_armC, hm, ok_bind]
      exact Rel.chain (hS.bank _ _ _ _ c c1 hb) (payOut_sound hS src d rest c1 c' h)

theorem allocateSellingCoin_sound (hS : SimOK S) (a : Auction) (mi : MInfo) :
    Sound S (fun c => allocateSellingCoin c a mi) := by
  intro c c' h
  simp only [allocateSellingCoin] at h ⊢
  obtain ⟨c1, h1, h⟩ := bind_eq_ok.1 h
  exact Rel.chain (hS.hook _ _ c c1 h1) (payOut_sound hS _ _ _ c1 c' h)

theorem refundRemainingSellingCoin_sound (hS : SimOK S) (a : Auction) :
    Sound S (fun c => refundRemainingSellingCoin c a) := by
  intro c c' h
  simp only [refundRemainingSellingCoin] at h ⊢
  obtain ⟨coins, hm, h⟩ := bind_eq_ok.1 h
  rw [mkCoins_armC, bal_armC, hm, ok_bind]
  exact hS.bank _ _ _ _ c c' h

theorem refundPayingCoin_sound (hS : SimOK S) (a : Auction) (mi : MInfo) :
    Sound S (fun c => refundPayingCoin c a mi) := by
  intro c c' h
  exact payOut_sound hS _ _ _ c c' h


theorem applyVestingSchedules_sound (hS : SimOK S) (aid : Nat) :
    Sound S (fun c => applyVestingSchedules c aid) := by
  intro c c' h
  simp only [applyVestingSchedules] at h ⊢
  obtain ⟨v, hv, h⟩ := bind_eq_ok.1 h
  obtain ⟨coins, hm, h⟩ := bind_eq_ok.1 h
  rw [view_armC, hv, ok_bind]
  simp only [mkCoins_armC, bal_armC]
  rw [hm, ok_bind]
  by_cases he : v.a.schedules.isEmpty = true
  · rw [if_pos he] at h ⊢
    obtain ⟨c1, hb, h⟩ := bind_eq_ok.1 h
    rw [pure_eq_ok] at h
    cases h
    exact Rel.chain (hS.bank _ _ _ _ c c1 hb) (Rel.pure rfl rfl)
  · rw [if_neg he] at h ⊢
    obtain ⟨c1, hb, h⟩ := bind_eq_ok.1 h
    cases hs : splitLoop (c.bal (Addr.pay aid) v.a.payDenom) v.a.schedules
        (c.bal (Addr.pay aid) v.a.payDenom) with
    | none => rw [hs] at h; cases h
    | some parts =>
      rw [hs] at h
      simp only [pure_eq_ok] at h
      cases h
      exact Rel.chain (hS.bank _ _ _ _ c c1 hb) (Rel.pure rfl rfl)

end Fundraising
