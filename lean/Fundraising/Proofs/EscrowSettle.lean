import Fundraising.Proofs.EscrowBasic
import Fundraising.Proofs.VestingLemmas
/-
  C01: settlement (`closeFixed`, `closeBatch`) sweeps the selling and paying escrows and
  funds the vesting escrow with exactly the sum of the instalments.
-/
set_option linter.unusedSimpArgs false
set_option linter.unusedVariables false
namespace Fundraising.EscrowInv

/-! ### vesting queue construction -/

theorem upsertBy_append {α : Type} (key : α → Int) (x : α) :
    ∀ l : List α, (∀ y ∈ l, key y < key x) → upsertBy key x l = l ++ [x] := by
  intro l
  induction l with
  | nil => intro _; rfl
  | cons y ys ih =>
    intro h
    have hy : key y < key x := h y (by simp)
    simp only [upsertBy]
    rw [if_neg (by omega), if_neg (by omega), ih (fun z hz => h z (List.mem_cons_of_mem _ hz))]
    rfl

theorem foldl_setVQ (f : Int × Int → VQ) (hf : ∀ p, (f p).release = p.1) :
    ∀ (parts : List (Int × Int)) (l0 : List VQ), (parts.map (·.1)).Pairwise (· < ·) →
      (∀ y ∈ l0, ∀ p ∈ parts, y.release < p.1) →
      parts.foldl (fun l p => setVQ l (f p)) l0 = l0 ++ parts.map f := by
  intro parts
  induction parts with
  | nil => intro l0 _ _; simp
  | cons p ps ih =>
    intro l0 hpw hlt
    rw [List.map_cons, List.pairwise_cons] at hpw
    simp only [List.foldl_cons]
    have e : setVQ l0 (f p) = l0 ++ [f p] := by
      unfold setVQ
      apply upsertBy_append
      intro y hy
      rw [hf]
      exact hlt y hy p (by simp)
    rw [e, ih (l0 ++ [f p]) hpw.2]
    · simp
    · intro y hy q hq
      rcases List.mem_append.mp hy with hy | hy
      · exact hlt y hy q (List.mem_cons_of_mem _ hq)
      · simp at hy
        subst hy
        rw [hf]
        exact hpw.1 q.1 (List.mem_map.mpr ⟨q, hq, rfl⟩)

theorem unreleased_map (f : Int × Int → VQ) (hr : ∀ p, (f p).released = false)
    (ha : ∀ p, (f p).amt = p.2) : ∀ parts : List (Int × Int),
    (((parts.map f).filter (fun q => !q.released)).map (·.amt)).sum = (parts.map (·.2)).sum := by
  intro parts
  induction parts with
  | nil => rfl
  | cons p ps ih =>
    simp only [List.map_cons, List.filter_cons, hr p, Bool.not_false, if_true, List.sum_cons, ih, ha p]

/-! ### payOut -/

theorem payOut_spec {src : Addr} {d : Denom} : ∀ {l : List (Acc × Int)} {c c' : Ctx},
    payOut c src d l = .ok c' →
    ∃ b', c'.s = { c.s with bank := b' } ∧
      ∀ x d', (∀ u, x ≠ .user u) → (x ≠ src ∨ d' ≠ d) → b' x d' = c.s.bank x d' := by
  intro l
  induction l with
  | nil =>
    intro c c' h
    simp only [payOut, pure_ok] at h
    subst h
    exact ⟨c.s.bank, rfl, fun _ _ _ _ => rfl⟩
  | cons p ps ih =>
    intro c c' h
    obtain ⟨u, amt⟩ := p
    simp only [payOut] at h
    by_cases h0 : amt = 0
    · rw [if_pos h0] at h
      exact ih h
    · rw [if_neg h0] at h
      simp only [bind_ok] at h
      obtain ⟨coins, hmk, c1, hbc, h⟩ := h
      obtain ⟨_, h1⟩ := send_mk hmk hbc
      obtain ⟨b', h2, hb'⟩ := ih h
      refine ⟨b', by rw [h2, h1], ?_⟩
      intro x d' hu hx
      rw [hb' x d' hu hx, h1]
      simp only [move_apply]
      have e1 : ¬ (x = src ∧ d' = d) := by
        intro ⟨a, b⟩; rcases hx with hx | hx
        · exact hx a
        · exact hx b
      have e2 : ¬ (x = Addr.user u ∧ d' = d) := fun ⟨a, _⟩ => hu u a
      simp [e1, e2]

/-- allocation out of the selling escrow, then the sweep of its whole balance -/
theorem sell_phase {c c1 c2 : Ctx} {a : Auction} {mi : MInfo}
    (h1 : allocateSellingCoin c a mi = .ok c1) (h2 : refundRemainingSellingCoin c1 a = .ok c2) :
    ∃ b2, c2.s = { c.s with bank := b2 } ∧ b2 (.sell a.id) a.sellDenom = 0 ∧
      ∀ x d, (∀ u, x ≠ .user u) → (x ≠ .sell a.id ∨ d ≠ a.sellDenom) → b2 x d = c.s.bank x d := by
  unfold allocateSellingCoin at h1
  simp only [bind_ok] at h1
  obtain ⟨c0, hhk, h1⟩ := h1
  obtain ⟨e0, _⟩ := hook_ok hhk
  obtain ⟨b1, e1, hb1⟩ := payOut_spec h1
  unfold refundRemainingSellingCoin at h2
  simp only [bind_ok] at h2
  obtain ⟨coins, hmk, hbc⟩ := h2
  obtain ⟨_, e2⟩ := send_mk hmk hbc
  rw [e1, e0] at e2
  refine ⟨_, e2, ?_, ?_⟩
  · simp only [move_apply, Ctx.bal, e1]
    simp
  · intro x d hu hx
    simp only [move_apply]
    have e1 : ¬ (x = Addr.sell a.id ∧ d = a.sellDenom) := by
      intro ⟨a, b⟩; rcases hx with hx | hx
      · exact hx a
      · exact hx b
    have e2 : ¬ (x = Addr.user a.auctioneer ∧ d = a.sellDenom) := fun ⟨a, _⟩ => hu _ a
    simp only [e1, e2, if_false, Int.sub_zero, Int.add_zero]
    rw [← e0]
    exact hb1 x d hu hx

/-! ### ApplyVestingSchedules -/

theorem applyVesting_spec {c c' : Ctx} {aid : Nat} {v : AView}
    (h : applyVestingSchedules c aid = .ok c') (hv : c.s.views[aid]? = some v)
    (hw : AuctionWF v.a) (hq : v.vqs = []) :
    ∃ (b' : Bank) (v' : AView), c'.s = { c.s with bank := b', views := c.s.views.set aid v' } ∧
      v'.bids = v.bids ∧ v'.a.sellDenom = v.a.sellDenom ∧ v'.a.payDenom = v.a.payDenom ∧
      (v'.a.status = .finished ∨ v'.a.status = .vesting) ∧
      (∀ x d, x ≠ .pay aid → x ≠ .vest aid → (∀ u, x ≠ .user u) → b' x d = c.s.bank x d) ∧
      (∀ d, b' (.pay aid) d = if d = v.a.payDenom then 0 else c.s.bank (.pay aid) d) ∧
      (∀ d, b' (.vest aid) d - (if d = v.a.payDenom then owedVest v' else 0) = c.s.bank (.vest aid) d) := by
  unfold applyVestingSchedules at h
  simp only [bind_ok, view_ok_iff] at h
  obtain ⟨v0, hv0, coins, hmk, h⟩ := h
  rw [hv] at hv0
  cases hv0
  by_cases hemp : v.a.schedules.isEmpty = true
  · rw [if_pos hemp] at h
    simp only [bind_ok, pure_ok] at h
    obtain ⟨c1, hbc, rfl⟩ := h
    obtain ⟨_, e1⟩ := send_mk hmk hbc
    refine ⟨c.s.bank.move (.pay aid) (.user v.a.auctioneer) v.a.payDenom (c.bal (.pay aid) v.a.payDenom),
      { v with a := { v.a with status := .finished } },
      by rw [Ctx.setView, e1], rfl, rfl, rfl, Or.inl rfl, ?_, ?_, ?_⟩
    · intro x d h1 _ h3
      simp only [move_apply]
      simp [h1, h3]
    · intro d
      simp only [move_apply, Ctx.bal]
      by_cases hd : d = v.a.payDenom <;> simp [hd]
    · intro d
      simp only [move_apply, owedVest]
      simp
  · rw [if_neg hemp] at h
    simp only [bind_ok] at h
    obtain ⟨c1, hbc, h⟩ := h
    obtain ⟨hnn, e1⟩ := send_mk hmk hbc
    have hne : v.a.schedules ≠ [] := by
      intro e; rw [e] at hemp; exact hemp rfl
    obtain ⟨hvw, _, hsorted⟩ := validSchedules_spec _ _ hne hw.sched
    obtain ⟨parts, hsp, hrel, hsum, _, _⟩ := splitLoop_spec (c.bal (.pay aid) v.a.payDenom) _ hnn hvw
    rw [hsp] at h
    simp only [pure_ok] at h
    subst h
    obtain ⟨f, hf⟩ : ∃ f : Int × Int → VQ, f = fun p =>
      { auction := aid, release := p.1, auctioneer := v.a.auctioneer, denom := v.a.payDenom,
        amt := p.2, released := false } := ⟨_, rfl⟩
    have hfold : parts.foldl (fun l p => setVQ l (f p)) v.vqs = parts.map f := by
      rw [hq, foldl_setVQ f (by intro p; rw [hf]) parts [] (by rw [hrel]; exact hsorted)
        (by intro y hy; cases hy)]
      rfl
    have hun : (((parts.map f).filter (fun q => !q.released)).map (·.amt)).sum =
        c.bal (.pay aid) v.a.payDenom := by
      rw [unreleased_map f (by intro p; rw [hf]) (by intro p; rw [hf]), hsum]
    subst hf
    refine ⟨c.s.bank.move (.pay aid) (.vest aid) v.a.payDenom (c.bal (.pay aid) v.a.payDenom),
      { v with a := { v.a with status := .vesting }, vqs := parts.map _ },
      by rw [Ctx.setView, e1, hfold], rfl, rfl, rfl, Or.inr rfl, ?_, ?_, ?_⟩
    · intro x d h1 h2 _
      simp only [move_apply]
      simp [h1, h2]
    · intro d
      simp only [move_apply, Ctx.bal]
      by_cases hd : d = v.a.payDenom <;> simp [hd]
    · intro d
      simp only [move_apply, owedVest, unreleasedTotal, hun, Ctx.bal]
      by_cases hd : d = v.a.payDenom <;> simp [hd]

/-! ### the common tail of both settlements -/

theorem auctionWF_matchedPrice {a : Auction} (hw : AuctionWF a) (x : Dec) :
    AuctionWF { a with matchedPrice := x } :=
  ⟨hw.auctioneer, hw.sellPos, hw.pricePos, hw.denomNe, hw.sellDenomOk, hw.payDenomOk, hw.endNonempty,
   hw.endLen, hw.maxExt, hw.sched, hw.schedLen, hw.batch, hw.fixed⟩

theorem settle_keeps {c c2 c' : Ctx} {aid : Nat} {v v2 : AView} {b2 : Bank}
    (hv : c.s.views[aid]? = some v) (hst : v.a.status = .started)
    (hv2 : c2.s.views[aid]? = some v2) (hw2 : AuctionWF v2.a) (hq2 : v2.vqs = [])
    (hsd : v2.a.sellDenom = v.a.sellDenom) (hpd : v2.a.payDenom = v.a.payDenom)
    (hviews : ∀ w, c2.s.views.set aid w = c.s.views.set aid w)
    (hb2 : c2.s.bank = b2)
    (hsell0 : b2 (.sell aid) v.a.sellDenom = 0)
    (hsell : ∀ d, d ≠ v.a.sellDenom → b2 (.sell aid) d = c.s.bank (.sell aid) d)
    (hpay : ∀ d, d ≠ v.a.payDenom → b2 (.pay aid) d = c.s.bank (.pay aid) d)
    (hvest : ∀ d, b2 (.vest aid) d = c.s.bank (.vest aid) d)
    (hoth : ∀ x j, escIdx x = some j → j ≠ aid → ∀ d, b2 x d = c.s.bank x d)
    (h : applyVestingSchedules c2 aid = .ok c') :
    Local aid c.s c'.s ∧ ∃ v', c'.s.views[aid]? = some v' ∧ Keeps c.s c'.s aid v v' := by
  obtain ⟨b', v', e, _, hsd', hpd', hst', hb1, hb2', hb3⟩ := applyVesting_spec h hv2 hw2 hq2
  have hviews' : c'.s.views = c.s.views.set aid v' := by rw [e]; exact hviews v'
  have hbank' : c'.s.bank = b' := by rw [e]
  have hne : v'.a.status ≠ .standby ∧ v'.a.status ≠ .started := by
    rcases hst' with h | h <;> rw [h] <;> simp
  obtain ⟨l, hv'⟩ := local_of_set hv hviews' (by
    intro x j hx hj d
    rw [hbank', hb1 x d (esc_ne_pay hx hj) (esc_ne_vest hx hj) (fun u => esc_ne_user hx), hb2]
    exact hoth x j hx hj d)
  refine ⟨l, v', hv', hsd'.trans hsd, hpd'.trans hpd, ?_, ?_, ?_⟩
  · intro d
    simp only [slackSell, owedSell, hbank', hne.1, hne.2, or_self, if_false, hst, hsd', hsd]
    rw [hb1 _ d (by simp) (by simp) (by simp), hb2]
    by_cases hd : d = v.a.sellDenom
    · right; rw [hd, hsell0]; simp
    · left; rw [hsell d hd]; simp [hd]
  · intro d
    simp only [slackPay, owedPay, hbank', hne.2, if_false, hst, hpd', hpd]
    rw [hb2' d, hpd, hb2]
    by_cases hd : d = v.a.payDenom
    · right; simp [hd]
    · left; rw [hpay d hd]; simp [hd]
  · intro d; left
    have := hb3 d
    rw [hpd, hb2, hvest d] at this
    simp only [slackVest, hbank', hpd', hpd]
    rw [this]
    simp [owedVest, hst]

/-! ### CloseFixedPriceAuction -/

theorem closeFixed_spec {c c' : Ctx} {aid : Nat} {v : AView} (h : closeFixed c aid = .ok c')
    (hv : c.s.views[aid]? = some v) (hid : v.a.id = aid) (hw : AuctionWF v.a) (hq : v.vqs = [])
    (hst : v.a.status = .started) :
    Local aid c.s c'.s ∧ ∃ v', c'.s.views[aid]? = some v' ∧ Keeps c.s c'.s aid v v' := by
  unfold closeFixed at h
  simp only [bind_ok, view_ok_iff] at h
  obtain ⟨v0, hv0, c1, h1, c2, h2, h3⟩ := h
  rw [hv] at hv0; cases hv0
  obtain ⟨b2, e2, hs0, hb2⟩ := sell_phase h1 h2
  rw [hid] at hs0 hb2
  refine settle_keeps (c2 := c2) (v2 := v) (b2 := b2) hv hst (by rw [e2]; exact hv) hw hq rfl rfl
    (by intro w; rw [e2]) (by rw [e2]) hs0 ?_ ?_ ?_ ?_ h3
  · intro d hd; exact hb2 _ d (by simp) (Or.inr hd)
  · intro d _; exact hb2 _ d (by simp) (Or.inl (by simp))
  · intro d; exact hb2 _ d (by simp) (Or.inl (by simp))
  · intro x j hx hj d; exact hb2 x d (fun u => esc_ne_user hx) (Or.inl (esc_ne_sell hx hj))

/-! ### CloseBatchAuction -/

theorem settleBatch_spec {c c' : Ctx} {aid : Nat} {mi : MInfo} {v : AView}
    (h : settleBatch c aid mi = .ok c')
    (hv : c.s.views[aid]? = some v) (hid : v.a.id = aid) (hw : AuctionWF v.a) (hq : v.vqs = [])
    (hst : v.a.status = .started) :
    Local aid c.s c'.s ∧ ∃ v', c'.s.views[aid]? = some v' ∧ Keeps c.s c'.s aid v v' := by
  unfold settleBatch at h
  simp only [bind_ok, view_ok_iff] at h
  obtain ⟨v0, hv0, c1, h1, c2, h2, c3, h3, v3, hv3, h4⟩ := h
  rw [hv] at hv0; cases hv0
  obtain ⟨b2, e2, hs0, hb2⟩ := sell_phase h1 h2
  unfold refundPayingCoin at h3
  obtain ⟨b3, e3, hb3⟩ := payOut_spec h3
  rw [hid] at hs0 hb2 hb3
  have hviews3 : c3.s.views = c.s.views := by rw [e3, e2]
  rw [hviews3, hv] at hv3; cases hv3
  have hbank2 : c2.s.bank = b2 := by rw [e2]
  have hne : v.a.sellDenom ≠ v.a.payDenom := hw.denomNe
  refine settle_keeps (b2 := b3) hv hst
    (v2 := { v with a := { v.a with matchedPrice := if mi.total > 0 then mi.price else 0 } })
    ?_ (auctionWF_matchedPrice hw _) hq rfl rfl ?_ (by rw [setView_bank, e3]) ?_ ?_ ?_ ?_ ?_ h4
  · have hi : aid < c.s.views.length := by
      rcases Nat.lt_or_ge aid c.s.views.length with h1 | h1
      · exact h1
      · rw [List.getElem?_eq_none h1] at hv; cases hv
    rw [setView_views, hviews3, List.getElem?_set_self hi]
  · intro w; rw [setView_views, hviews3, List.set_set]
  · rw [hb3 _ _ (by simp) (Or.inl (by simp)), hbank2]; exact hs0
  · intro d hd
    rw [hb3 _ _ (by simp) (Or.inl (by simp)), hbank2]; exact hb2 _ d (by simp) (Or.inr hd)
  · intro d hd
    rw [hb3 _ _ (by simp) (Or.inr hd), hbank2]; exact hb2 _ d (by simp) (Or.inl (by simp))
  · intro d
    rw [hb3 _ _ (by simp) (Or.inl (by simp)), hbank2]; exact hb2 _ d (by simp) (Or.inl (by simp))
  · intro x j hx hj d
    rw [hb3 _ _ (fun u => esc_ne_user hx) (Or.inl (esc_ne_pay hx hj)), hbank2]
    exact hb2 x d (fun u => esc_ne_user hx) (Or.inl (esc_ne_sell hx hj))

theorem reservedTotal_flags (v v' : AView) (g : Bid → Bool) (hp : v'.a.payDenom = v.a.payDenom)
    (hb : v'.bids = v.bids.map (fun b => { b with matched := g b })) :
    reservedTotal v' = reservedTotal v := by
  unfold reservedTotal
  rw [hb, hp, List.map_map]
  rfl

theorem extendRound_spec {c c' : Ctx} {aid : Nat} {v : AView} (h : extendRound c aid = .ok c')
    (hv : c.s.views[aid]? = some v) :
    Local aid c.s c'.s ∧ ∃ v', c'.s.views[aid]? = some v' ∧ Keeps c.s c'.s aid v v' := by
  unfold extendRound at h
  simp only [bind_ok, view_ok_iff, pure_ok] at h
  obtain ⟨v0, hv0, rfl⟩ := h
  rw [hv] at hv0; cases hv0
  obtain ⟨l, hv'⟩ := local_of_set hv (setView_views _ _ _) (fun x j _ _ d => by rw [setView_bank])
  exact ⟨l, _, hv', keeps_of_eq (fun x _ d => by rw [setView_bank]) rfl rfl rfl rfl rfl rfl⟩

theorem closeBatch_spec {c c' : Ctx} {aid : Nat} {v : AView} (h : closeBatch c aid = .ok c')
    (hv : c.s.views[aid]? = some v) (hid : v.a.id = aid) (hw : AuctionWF v.a) (hq : v.vqs = [])
    (hst : v.a.status = .started) :
    Local aid c.s c'.s ∧ ∃ v', c'.s.views[aid]? = some v' ∧ Keeps c.s c'.s aid v v' := by
  unfold closeBatch at h
  simp only [bind_ok, view_ok_iff] at h
  obtain ⟨v0, hv0, h⟩ := h
  rw [hv] at hv0; cases hv0
  split at h
  · rename_i mi _
    simp only [bind_ok, pure_ok] at h
    obtain ⟨_, rfl, h⟩ := h
    obtain ⟨vf, hvf⟩ : ∃ vf : AView, vf = { v with bids := v.bids.map (fun b => { b with matched := mi.matchedIds.contains b.id }), matchedLen := mi.matchedLen } := ⟨_, rfl⟩
    rw [← hvf] at h
    obtain ⟨l0, hv0⟩ := local_of_set (v' := vf) hv (setView_views c aid vf)
      (fun x j _ _ d => by rw [setView_bank])
    have k0 : Keeps c.s (c.setView aid vf).s aid v vf := by
      apply keeps_of_eq (fun x _ d => by rw [setView_bank]) <;> (try subst hvf) <;> try rfl
      exact reservedTotal_flags v _ (fun b => mi.matchedIds.contains b.id) rfl rfl
    have hfin : ∀ c0 : Ctx, c0 = c.setView aid vf →
        (settleBatch c0 aid mi = .ok c' ∨ extendRound c0 aid = .ok c') →
        Local aid c.s c'.s ∧ ∃ v', c'.s.views[aid]? = some v' ∧ Keeps c.s c'.s aid v v' := by
      intro c0 hc0 hh
      subst hc0
      have : Local aid (c.setView aid vf).s c'.s ∧
          ∃ v', c'.s.views[aid]? = some v' ∧ Keeps (c.setView aid vf).s c'.s aid vf v' := by
        rcases hh with hh | hh
        · refine settleBatch_spec hh hv0 ?_ ?_ ?_ ?_ <;> subst hvf
          · exact hid
          · exact hw
          · exact hq
          · exact hst
        · exact extendRound_spec hh hv0
      obtain ⟨l1, v', hv', k1⟩ := this
      exact ⟨l0.trans l1, v', hv', k0.trans k1⟩
    split at h
    · exact hfin _ rfl (Or.inl h)
    · split at h
      · exact hfin _ rfl (Or.inr h)
      · split at h
        · exact hfin _ rfl (Or.inr h)
        · exact hfin _ rfl (Or.inl h)
  · simp only [bind_ok, fail_ok] at h
    obtain ⟨_, h, _⟩ := h
    exact h.elim

end Fundraising.EscrowInv
