import Fundraising.Spec.Invariants
import Fundraising.Proofs.MatchLemmas
namespace Fundraising

/-- in a list with pairwise distinct ids, selecting the bids whose id occurs among the ids of a
    sublist `m` gives back `m` -/
private theorem filter_ids_sublist_eq : ∀ {m l : List Bid}, m.Sublist l → (l.map (·.id)).Nodup →
    l.filter (fun b => (m.map (·.id)).contains b.id) = m := by
  intro m l hsub
  induction hsub with
  | slnil => intro _; rfl
  | @cons m0 l0 a hs ih =>
    intro hnd
    rw [List.map_cons, List.nodup_cons] at hnd
    have hna : (m0.map (·.id)).contains a.id = false := by
      apply Bool.eq_false_iff.2
      intro hc
      rw [List.contains_iff_mem, List.mem_map] at hc
      obtain ⟨c, hc, e⟩ := hc
      exact hnd.1 (List.mem_map.2 ⟨c, hs.subset hc, e⟩)
    rw [List.filter_cons, hna]
    exact ih hnd.2
  | @cons_cons m0 l0 a hs ih =>
    intro hnd
    rw [List.map_cons, List.nodup_cons] at hnd
    have hya : ((a :: m0).map (·.id)).contains a.id = true := by
      rw [List.contains_iff_mem, List.map_cons]
      exact List.mem_cons_self
    rw [List.filter_cons, hya]
    have hcongr : l0.filter (fun b => ((a :: m0).map (·.id)).contains b.id) =
        l0.filter (fun b => (m0.map (·.id)).contains b.id) := by
      apply List.filter_congr
      intro b hb
      have hne : b.id ≠ a.id := by
        intro e
        exact hnd.1 (List.mem_map.2 ⟨b, hb, e⟩)
      rw [Bool.eq_iff_iff, List.contains_iff_mem, List.contains_iff_mem, List.map_cons,
        List.mem_cons]
      exact ⟨fun h => h.resolve_left hne, Or.inr⟩
    simp only [if_true]
    rw [hcongr, ih hnd.2]

/-- the number of recorded bids whose id is among the ids of the matched bids is the number of
    matched bids -/
private theorem matched_count_eq (bids sorted matched : List Bid) (hperm : sorted.Perm bids)
    (hnd : (bids.map (·.id)).Nodup) (hsub : matched.Sublist sorted) :
    (bids.filter (fun b => (matched.map (·.id)).contains b.id)).length = matched.length := by
  have hnd' : (sorted.map (·.id)).Nodup := ((hperm.map (·.id)).nodup_iff).2 hnd
  rw [← (hperm.filter _).length_eq, filter_ids_sublist_eq hsub hnd']

private theorem countMatched_flag (bids : List Bid) (ids : List Nat) :
    countMatched (bids.map (fun b => { b with matched := ids.contains b.id })) =
      ((bids.filter (fun b => ids.contains b.id)).length : Int) := by
  unfold countMatched
  rw [List.filter_map, List.length_map]
  rfl

/-- after `CalculateBatchAllocation` rewrote the matched flags, `MatchedBidsLen` equals the
    number of flagged bids -/
theorem calcBatch_matchedLen_count (a : Auction) (bids : List Bid) (allowed : List Allowed) (mi : MInfo)
    (hw : BookWF a bids allowed) (h : calcBatch a bids allowed = some mi) :
    mi.matchedLen = countMatched (bids.map (fun b => { b with matched := mi.matchedIds.contains b.id })) := by
  obtain ⟨hperm, hdesc⟩ := sortBids_arrangement bids
  unfold calcBatch at h
  rw [countMatched_flag]
  rcases calcBatchWith_cases a bids (sortBids bids) allowed hw hperm hdesc with
    ⟨_, e⟩ | ⟨p, acc, _, hp, hfit, e⟩
  · rw [e] at h
    injection h with h
    subst h
    have hnil : bids.filter (fun b => ([] : List Nat).contains b.id) = [] :=
      List.filter_eq_nil_iff.2 (fun b _ hb => by simp at hb)
    simp only [noMatchInfo]
    rw [hnil]
    rfl
  · rw [e] at h
    injection h with h
    subst h
    have hsub := (matchAt_full a bids (sortBids bids) allowed p acc hw hperm hdesc hp hfit).2.2.2.2.2.2.2.2.2
    have := matched_count_eq bids (sortBids bids) acc.matched hperm hw.ids hsub
    simp only [matchInfo]
    rw [this]

end Fundraising
