import Fundraising.Proofs.WFBasic
/-
  `createAuction`, `cancelAuction`, `MsgUpdateParams` preserve `WF` and `BankNonneg`.
-/
namespace Fundraising.WFInv

theorem cancelAuction_wf {c c' : Ctx} {signer : Acc} {aid : Nat}
    (h : cancelAuction c signer aid = .ok c') (hw : WF c.s) :
    WF c'.s ∧ (BankNonneg c.s → BankNonneg c'.s) := by
  unfold cancelAuction at h
  simp only [bind_ok, pure_ok] at h
  obtain ⟨v, hv, _, hc1, _, hc2, coins, hmk, c1, hb, c2, hh, rfl⟩ := h
  rw [view_ok_iff] at hv
  rw [check_ok_iff] at hc1 hc2
  obtain ⟨f1, _, n1⟩ := bankCall_frame hb
  obtain ⟨f2, _, n2⟩ := hook_frame hh
  have f := f1.trans f2
  have hw2 : WF c2.s := WF.frame f hw
  have V := hw.views aid v hv
  have hst : v.a.status = .standby := by simpa using hc2
  refine ⟨WF.ctx_setView hw2 aid _ ?_, fun hn => n2 (n1 (mkCoins_nonneg hmk) hn)⟩
  have hb0 : v.bids = [] := V.noBidsBefore (Or.inl hst)
  have hq0 : v.vqs = [] := V.vqsNone (Or.inl hst)
  exact {
    id := V.id
    auction := { V.auction with }
    bids := by simp [hb0]
    bidIds := V.bidIds
    bidSeq := V.bidSeq
    caps := V.caps
    allowedSorted := V.allowedSorted
    noBidsBefore := fun _ => hb0
    matchedLenBatch := V.matchedLenBatch
    matchedLenFixed := V.matchedLenFixed
    remaining := by intro _ h; simp at h
    vqsNone := fun _ => hq0
    vqsSome := by intro h; simp at h
    vqsWF := by simp [hq0]
    releasedPrefix := V.releasedPrefix
    vestingOpen := by intro h; simp at h
    finishedAll := by intro h; simp at h }

theorem createAuction_wf {c c' : Ctx} {m : CreateMsg}
    (h : createAuction c m = .ok c') (hvb : validateBasic (.create m) = true) (hw : WF c.s) :
    WF c'.s ∧ (BankNonneg c.s → BankNonneg c'.s) := by
  unfold createAuction at h
  simp only [bind_ok] at h
  obtain ⟨_, hc1, _, hc2, _, hc3, c1, hb1, coins, hmk, c2, hb2, c3, hh1, h⟩ := h
  unfold validateBasic at hvb
  simp only [Bool.and_eq_true, decide_eq_true_eq, Bool.or_eq_true, bne_iff_ne, ne_eq] at hvb
  obtain ⟨⟨⟨⟨⟨⟨⟨⟨⟨v1, v2⟩, v3⟩, v4⟩, v5⟩, v6⟩, v7⟩, _⟩, v9⟩, v10⟩ := hvb
  rw [check_ok_iff] at hc1 hc2 hc3
  simp only [Bool.or_eq_true, bne_iff_ne, ne_eq, decide_eq_true_eq] at hc2 hc3
  obtain ⟨f1, _, n1⟩ := bankCall_frame hb1
  obtain ⟨f2, _, n2⟩ := bankCall_frame hb2
  obtain ⟨f3, _, n3⟩ := hook_frame hh1
  obtain ⟨f4, _, n4⟩ := hook_frame h
  have f := (f1.trans f2).trans f3
  have hw3 : WF c3.s := WF.frame f hw
  have hlen : c.s.views.length = c3.s.views.length := by rw [f.views]
  unfold validCoin at v4
  simp only [Bool.and_eq_true, decide_eq_true_eq] at v4
  refine ⟨WF.frame f4 (WF.append hw3 _ ?_), fun hn => n4 (n3 (n2 (mkCoins_nonneg hmk)
    (n1 (validCoins_pos hw.params.1) hn)))⟩
  rw [← hlen]
  exact {
    id := rfl
    auction := {
      auctioneer := v1
      sellPos := v5
      pricePos := v2
      denomNe := v6
      sellDenomOk := v4.1
      payDenomOk := v7
      endNonempty := by simp
      endLen := by simp
      maxExt := by
        show (if m.type = AType.batch then m.maxExt else 0) ≤ 30
        split
        · rename_i hb; rcases hc3 with h | h
          · exact absurd hb h
          · exact h
        · omega
      sched := by simpa using v10
      schedLen := hc2
      batch := by
        intro (hb : m.type = .batch)
        show 0 < (if m.type = AType.batch then m.minBid else 0) ∧
          0 < (if m.type = AType.batch then m.rate else 0)
        rw [if_pos hb, if_pos hb]
        exact ⟨by rcases v3 with h | h; exact absurd hb h; exact h,
               by rcases v9 with h | h; exact absurd hb h; exact h⟩
      fixed := by
        intro (hb : m.type = .fixed)
        show (if m.type = AType.batch then m.maxExt else 0) = 0
        rw [if_neg (by rw [hb]; decide)] }
    bids := by intro b hb; cases hb
    bidIds := rfl
    bidSeq := rfl
    caps := by intro b hb; cases hb
    allowedSorted := List.Pairwise.nil
    noBidsBefore := fun _ => rfl
    matchedLenBatch := fun _ => rfl
    matchedLenFixed := fun _ => rfl
    remaining := by
      intro (hb : m.type = .fixed) _
      show (if m.type = AType.fixed then m.sellAmt else 0) = m.sellAmt - soldOf _ ∧
        0 ≤ (if m.type = AType.fixed then m.sellAmt else 0)
      rw [if_pos hb]
      simp [soldOf]; omega
    vqsNone := fun _ => rfl
    vqsSome := by
      intro h
      have : (if m.startTime ≤ c2.s.now then Status.started else Status.standby) = .vesting ∨
          (if m.startTime ≤ c2.s.now then Status.started else Status.standby) = .finished := h
      split at this <;> simp at this
    vqsWF := by intro b hb; cases hb
    releasedPrefix := List.Pairwise.nil
    vestingOpen := by
      intro h
      have : (if m.startTime ≤ c2.s.now then Status.started else Status.standby) = .vesting := h
      split at this <;> simp at this
    finishedAll := by intro _ b hb; cases hb }

/-- the `MsgUpdateParams` branch of `handle` -/
theorem updateParams_wf {c : Ctx} {p : Params} (hw : WF c.s)
    (hp : (validCoins p.creationFee && validCoins p.bidFee) = true) :
    WF ({ c with s := { c.s with params := p } } : Ctx).s := by
  simp only [Bool.and_eq_true] at hp
  exact ⟨hp, hw.views, hw.switchOff⟩

end Fundraising.WFInv
