import Fundraising.Model.Block
import Fundraising.Proofs.DecLemmas
/-
  Helper lemmas for C09 (vesting split) and C13 (extension rule arithmetic).
  STATEMENTS ARE FIXED (cited by Props/C09.lean and Props/C13.lean); proofs to be filled in.
-/
namespace Fundraising

/-- what `ValidateVestingSchedules` guarantees about a non-empty schedule: positive
    18-decimal weights summing to exactly one -/
structure ValidWeights (vs : List VS) : Prop where
  nonempty : vs ≠ []
  pos : ∀ s ∈ vs, 0 < s.weight
  total : (vs.map (·.weight)).sum = PREC

/-! ### helpers: `validSchedulesLoop` -/

theorem validSchedulesLoop_spec (endTime : Int) :
    ∀ (vs : List VS) (prev : Int) (tot r : Dec), validSchedulesLoop endTime vs prev tot = some r →
      (∀ s ∈ vs, 0 < s.weight) ∧ r = tot + (vs.map (·.weight)).sum ∧
      (∀ s ∈ vs, endTime < s.release) ∧ (∀ s ∈ vs, prev < s.release) ∧
      (vs.map (·.release)).Pairwise (· < ·) := by
  intro vs
  induction vs with
  | nil =>
    intro prev tot r h
    simp [validSchedulesLoop] at h
    simp [h]
  | cons s rest ih =>
    intro prev tot r h
    simp only [validSchedulesLoop] at h
    split at h
    · contradiction
    split at h
    · contradiction
    split at h
    · contradiction
    split at h
    · contradiction
    rename_i h1 h2 h3 h4
    simp at h1 h2 h3
    obtain ⟨a, b, c, d, e⟩ := ih _ _ _ h
    refine ⟨?_, ?_, ?_, ?_, ?_⟩
    · intro x hx
      rcases List.mem_cons.mp hx with rfl | hx
      · exact h1
      · exact a x hx
    · rw [b]; simp [Int.add_assoc]
    · intro x hx
      rcases List.mem_cons.mp hx with rfl | hx
      · exact h2
      · exact c x hx
    · intro x hx
      rcases List.mem_cons.mp hx with rfl | hx
      · exact h3
      · exact Int.lt_trans h3 (d x hx)
    · rw [List.map_cons, List.pairwise_cons]
      refine ⟨?_, e⟩
      intro y hy
      obtain ⟨x, hx, rfl⟩ := List.mem_map.mp hy
      exact d x hx

/-- `validSchedules` (the model of `ValidateVestingSchedules`) implies `ValidWeights`
    and strictly increasing release times, all after `endTime` -/
theorem validSchedules_spec (vs : List VS) (endTime : Int) (hne : vs ≠ [])
    (h : validSchedules vs endTime = true) :
    ValidWeights vs ∧ (∀ s ∈ vs, endTime < s.release) ∧
    (vs.map (·.release)).Pairwise (· < ·) := by
  unfold validSchedules at h
  have hemp : vs.isEmpty = false := by
    cases vs with
    | nil => exact absurd rfl hne
    | cons _ _ => rfl
  rw [hemp] at h
  simp only [Bool.false_eq_true, if_false] at h
  split at h
  · rename_i tot htot
    obtain ⟨a, b, c, _, e⟩ := validSchedulesLoop_spec endTime vs TIME_ZERO 0 tot htot
    have ht : tot = Dec.one := by simpa using h
    refine ⟨⟨hne, a, ?_⟩, c, e⟩
    rw [ht, Int.zero_add] at b
    exact b.symm
  · contradiction

/-! ### helpers: `splitLoop` -/

def floorSum (R : Int) : List VS → Int
  | [] => 0
  | [_] => 0
  | s :: s' :: rest => R * s.weight / PREC + floorSum R (s' :: rest)

theorem floorSum_nonneg (R : Int) (hR : 0 ≤ R) :
    ∀ vs : List VS, (∀ s ∈ vs, (0 : Int) ≤ s.weight) → 0 ≤ floorSum R vs := by
  intro vs
  induction vs with
  | nil => intro _; simp [floorSum]
  | cons s rest ih =>
    intro hw
    cases rest with
    | nil => simp [floorSum]
    | cons s' rest =>
      have ih' := ih (fun x hx => hw x (List.mem_cons_of_mem _ hx))
      have h0 : (0 : Int) ≤ s.weight := hw s (by simp)
      have := Int.ediv_nonneg (Int.mul_nonneg hR h0) (show (0 : Int) ≤ PREC by decide)
      simp only [floorSum]
      omega

theorem floorSum_mul_le (R : Int) (hR : 0 ≤ R) :
    ∀ vs : List VS, (∀ s ∈ vs, 0 ≤ s.weight) →
      floorSum R vs * PREC ≤ R * (vs.map (·.weight)).sum := by
  intro vs
  induction vs with
  | nil => intro _; simp [floorSum]
  | cons s rest ih =>
    intro hw
    cases rest with
    | nil =>
      simp only [floorSum, List.map_cons, List.map_nil, List.sum_cons, List.sum_nil, Int.zero_mul]
      have h0 : (0:Int) ≤ s.weight := hw s (by simp)
      exact Int.mul_nonneg hR (by omega)
    | cons s' rest =>
      have ih' := ih (fun x hx => hw x (List.mem_cons_of_mem _ hx))
      simp only [floorSum, List.map_cons, List.sum_cons] at ih' ⊢
      rw [Int.add_mul, Int.mul_add]
      have := Int.ediv_mul_le (R * s.weight) (b := PREC) (by decide)
      omega

theorem splitLoop_aux (R : Int) (hR : 0 ≤ R) :
    ∀ (rest : List VS) (s : VS) (rem : Int), (∀ x ∈ s :: rest, 0 ≤ x.weight) →
      floorSum R (s :: rest) ≤ rem →
      ∃ parts, splitLoop R (s :: rest) rem = some parts ∧
        parts.map (·.1) = (s :: rest).map (·.release) ∧
        (parts.map (·.2)).sum = rem ∧
        (∀ p ∈ parts, 0 ≤ p.2) ∧
        (∀ i, i + 1 < (s :: rest).length →
          (parts.map (·.2))[i]? = some (R * ((s :: rest).map (·.weight)).getD i 0 / PREC)) := by
  intro rest
  induction rest with
  | nil =>
    intro s rem hw hrem
    simp only [floorSum] at hrem
    refine ⟨[(s.release, rem)], ?_, ?_, ?_, ?_, ?_⟩
    · simp only [splitLoop]; rw [if_neg (by omega)]
    · simp
    · simp
    · simp; exact hrem
    · intro i hi; simp at hi
  | cons s' rest ih =>
    intro s rem hw hrem
    simp only [floorSum] at hrem
    have hs : (0:Int) ≤ s.weight := hw s (by simp)
    have hamt : Dec.truncInt (Dec.mulTrunc (Dec.ofInt R) s.weight) = R * s.weight / PREC :=
      Dec.truncInt_mulTrunc_ofInt R s.weight hR hs
    have hnn : 0 ≤ R * s.weight / PREC := Int.ediv_nonneg (Int.mul_nonneg hR hs) (by decide)
    have hw' : ∀ x ∈ s' :: rest, (0 : Int) ≤ x.weight := fun x hx => hw x (List.mem_cons_of_mem _ hx)
    have hfs := floorSum_nonneg R hR (s' :: rest) hw'
    obtain ⟨X, hX⟩ : ∃ X, X = R * s.weight / PREC := ⟨_, rfl⟩
    rw [← hX] at hrem hamt hnn
    obtain ⟨parts, h1, h2, h3, h4, h5⟩ := ih s' (rem - X) hw' (by omega)
    refine ⟨(s.release, X) :: parts, ?_, ?_, ?_, ?_, ?_⟩
    · simp only [splitLoop]
      rw [hamt, if_neg (Int.not_lt.mpr hnn), if_neg (by omega), h1]; rfl
    · simp only [List.map_cons] at h2 ⊢; rw [h2]
    · simp only [List.map_cons, List.sum_cons, h3]; omega
    · intro p hp
      rcases List.mem_cons.mp hp with rfl | hp
      · exact hnn
      · exact h4 p hp
    · intro i hi
      cases i with
      | zero => simp [hX]
      | succ i =>
        have := h5 i (by simp only [List.length_cons] at hi ⊢; omega)
        simpa using this

/-- the instalments of `ApplyVestingSchedules`, for ANY number of instalments and any
    non-negative proceeds (including 0 and amounts smaller than the number of
    instalments): the computation never produces a negative coin, there is one
    instalment per schedule entry with that entry's release time, every non-final
    instalment is the weight share rounded down, all are non-negative, and they sum
    exactly to the proceeds -/
theorem splitLoop_spec (R : Int) (vs : List VS) (hR : 0 ≤ R) (hv : ValidWeights vs) :
    ∃ parts, splitLoop R vs R = some parts ∧
      parts.map (·.1) = vs.map (·.release) ∧
      (parts.map (·.2)).sum = R ∧
      (∀ p ∈ parts, 0 ≤ p.2) ∧
      (∀ i, i + 1 < vs.length → (parts.map (·.2))[i]? = some (R * (vs.map (·.weight)).getD i 0 / PREC)) := by
  obtain ⟨hne, hpos, htot⟩ := hv
  cases vs with
  | nil => exact absurd rfl hne
  | cons s rest =>
    have hw : ∀ x ∈ s :: rest, (0 : Int) ≤ x.weight := fun x hx => Int.le_of_lt (hpos x hx)
    have h1 := floorSum_mul_le R hR (s :: rest) hw
    rw [htot] at h1
    exact splitLoop_aux R hR rest s R hw (Int.le_of_mul_le_mul_right h1 (by decide))

/-! ### the extension rule `1 − Quo(curr, last) ≥ rate` -/

theorem chopRoundNonneg_close (t : Int) (ht : 0 ≤ t) :
    Dec.chopRoundNonneg t * PREC ≤ t + HALF ∧ t ≤ Dec.chopRoundNonneg t * PREC + HALF := by
  unfold Dec.chopRoundNonneg
  rw [Int.tdiv_eq_ediv_of_nonneg ht, Int.tmod_eq_emod_of_nonneg ht]
  simp only []
  repeat' split
  all_goals (unfold PREC HALF at *; omega)

theorem quo_ofInt_eq (curr last : Int) (hc : 0 ≤ curr) (hl : 0 < last) :
    Dec.quo (Dec.ofInt curr) (Dec.ofInt last) = Dec.chopRoundNonneg (curr * (PREC * PREC) / last) ∧
      0 ≤ curr * (PREC * PREC) / last := by
  unfold Dec.quo Dec.ofInt
  have hN : 0 ≤ curr * (PREC * PREC) := Int.mul_nonneg hc (by decide)
  have hx : 0 ≤ curr * PREC * (PREC * PREC) :=
    Int.mul_nonneg (Int.mul_nonneg hc (by decide)) (by decide)
  rw [Int.tdiv_eq_ediv_of_nonneg hx]
  have e : curr * PREC * (PREC * PREC) = curr * (PREC * PREC) * PREC := by
    rw [Int.mul_right_comm]
  rw [e, Int.mul_ediv_mul_of_pos_left _ _ (by decide)]
  have ht : 0 ≤ curr * (PREC * PREC) / last := Int.ediv_nonneg hN (Int.le_of_lt hl)
  refine ⟨?_, ht⟩
  unfold Dec.chopRound; rw [if_neg (by omega)]

theorem quo_ofInt_close_strong (curr last : Int) (hc : 0 ≤ curr) (hl : 0 < last)
    (q : Int) (hqd : q = Dec.quo (Dec.ofInt curr) (Dec.ofInt last)) :
    q * last * PREC ≤ curr * PREC * PREC + HALF * last ∧
    curr * PREC * PREC < q * last * PREC + (HALF + 1) * last := by
  obtain ⟨hq, ht⟩ := quo_ofInt_eq curr last hc hl
  rw [hq] at hqd
  have d1 : curr * (PREC * PREC) / last * last ≤ curr * (PREC * PREC) :=
    Int.ediv_mul_le _ (Int.ne_of_gt hl)
  have d2 : curr * (PREC * PREC) < (curr * (PREC * PREC) / last + 1) * last :=
    Int.lt_ediv_add_one_mul_self _ hl
  generalize curr * (PREC * PREC) / last = t at *
  obtain ⟨c1, c2⟩ := chopRoundNonneg_close t ht
  rw [← hqd] at c1 c2
  have m1 := Int.mul_le_mul_of_nonneg_right c1 (Int.le_of_lt hl)
  have m2 := Int.mul_le_mul_of_nonneg_right c2 (Int.le_of_lt hl)
  rw [Int.add_mul] at m1 m2 d2
  rw [Int.mul_right_comm] at m1 m2
  unfold PREC HALF at *
  omega

theorem quo_ofInt_close_int (curr last : Int) (hc : 0 ≤ curr) (hl : 0 < last)
    (q : Int) (hqd : q = Dec.quo (Dec.ofInt curr) (Dec.ofInt last)) :
    q * last ≤ curr * PREC + last ∧ curr * PREC ≤ q * last + last := by
  obtain ⟨h1, h2⟩ := quo_ofInt_close_strong curr last hc hl q hqd
  generalize q * last = a at *
  unfold PREC HALF at *
  omega

theorem shouldExtend_iff_int (curr last : Int) (rate q : Int)
    (hqd : q = Dec.quo (Dec.ofInt curr) (Dec.ofInt last)) :
    shouldExtend curr last rate = true ↔ rate ≤ PREC - q := by
  subst hqd
  unfold shouldExtend Dec.sub Dec.one
  rw [decide_eq_true_eq]

theorem shouldExtend_of_fall_int (curr last : Int) (rate : Int) (hc : 0 ≤ curr) (hl : 0 < last)
    (h : (rate + 1) * last ≤ (last - curr) * PREC) : shouldExtend curr last rate = true := by
  rw [shouldExtend_iff_int curr last rate _ rfl]
  obtain ⟨h1, _⟩ := quo_ofInt_close_int curr last hc hl _ rfl
  generalize Dec.quo (Dec.ofInt curr) (Dec.ofInt last) = q' at *
  have hq : ∃ q : Int, q = q' := ⟨q', rfl⟩
  obtain ⟨q, rfl⟩ := hq
  rw [Int.add_mul, Int.sub_mul] at h
  have : rate * last ≤ (PREC - q) * last := by
    rw [Int.sub_mul]
    unfold PREC at *; omega
  exact Int.le_of_mul_le_mul_right this hl

theorem not_shouldExtend_of_small_fall_int (curr last : Int) (rate : Int) (hc : 0 ≤ curr)
    (hl : 0 < last) (q : Int) (hqd : q = Dec.quo (Dec.ofInt curr) (Dec.ofInt last))
    (h : (last - curr) * PREC ≤ (rate - 1) * last) : ¬ rate ≤ PREC - q := by
  obtain ⟨_, h2⟩ := quo_ofInt_close_strong curr last hc hl q hqd
  intro hle
  have m := Int.mul_le_mul_of_nonneg_right hle (Int.le_of_lt hl)
  rw [Int.sub_mul] at m
  rw [Int.sub_mul, Int.sub_mul] at h
  unfold PREC HALF at *
  omega

theorem quo_ofInt_exact (curr last k : Int) (hc : 0 ≤ curr) (hl : 0 < last)
    (hk : curr * PREC = last * k) : Dec.quo (Dec.ofInt curr) (Dec.ofInt last) = k := by
  have hk0 : 0 ≤ k := by
    have h0 : 0 ≤ last * k := by rw [← hk]; exact Int.mul_nonneg hc (by decide)
    by_cases hneg : k < 0
    · have := Int.mul_neg_of_pos_of_neg hl hneg; omega
    · omega
  unfold Dec.quo Dec.ofInt
  have e : curr * PREC * (PREC * PREC) = (k * PREC) * (last * PREC) := by
    rw [hk]; ac_rfl
  rw [e, Int.mul_tdiv_cancel _ (Int.ne_of_gt (Int.mul_pos hl (by decide)))]
  exact Dec.chopRound_mul_PREC k hk0

theorem shouldExtend_exact_int (curr last : Int) (rate : Int) (hc : 0 ≤ curr) (hl : 0 < last)
    (hdiv : last ∣ curr * PREC) :
    shouldExtend curr last rate = true ↔ rate * last ≤ (last - curr) * PREC := by
  obtain ⟨k, hk⟩ := hdiv
  rw [shouldExtend_iff_int curr last rate k (quo_ofInt_exact curr last k hc hl hk).symm]
  have e2 : (last - curr) * PREC = (PREC - k) * last := by
    rw [Int.sub_mul, Int.sub_mul, hk, Int.mul_comm last PREC, Int.mul_comm last k]
  rw [e2]
  constructor
  · intro h; exact Int.mul_le_mul_of_nonneg_right h (Int.le_of_lt hl)
  · intro h; exact Int.le_of_mul_le_mul_right h hl

/-- `LegacyNewDec(curr).Quo(LegacyNewDec(last))` is within 10^-18 of the exact ratio -/
theorem quo_ofInt_close (curr last : Int) (hc : 0 ≤ curr) (hl : 0 < last) :
    let q := Dec.quo (Dec.ofInt curr) (Dec.ofInt last)
    q * last ≤ curr * PREC + last ∧ curr * PREC ≤ q * last + last := by
  intro q
  exact quo_ofInt_close_int curr last hc hl q rfl

/-- the rule as computed, unfolded -/
theorem shouldExtend_iff (curr last : Int) (rate : Dec) :
    shouldExtend curr last rate = true ↔
      rate ≤ PREC - Dec.quo (Dec.ofInt curr) (Dec.ofInt last) := by
  exact shouldExtend_iff_int curr last rate _ rfl

/-- agreement with the exact comparison `(last − curr)/last ≥ rate` whenever the exact
    fall is not within 10^-18 of the rate: fallen by at least `rate + 10^-18` ⇒ extend -/
theorem shouldExtend_of_fall (curr last : Int) (rate : Dec) (hc : 0 ≤ curr) (hl : 0 < last)
    (h : (rate + 1) * last ≤ (last - curr) * PREC) : shouldExtend curr last rate = true := by
  exact shouldExtend_of_fall_int curr last rate hc hl h

/-- … fallen by at most `rate − 10^-18` (or risen) ⇒ settle -/
theorem not_shouldExtend_of_small_fall (curr last : Int) (rate : Dec) (hc : 0 ≤ curr) (hl : 0 < last)
    (h : (last - curr) * PREC ≤ (rate - 1) * last) : shouldExtend curr last rate = false := by
  rw [Bool.eq_false_iff, Ne, shouldExtend_iff_int curr last rate _ rfl]
  exact not_shouldExtend_of_small_fall_int curr last rate hc hl _ rfl h

/-- exact agreement when the ratio is representable (e.g. curr = last, curr = 0, last | curr·10^18) -/
theorem shouldExtend_exact (curr last : Int) (rate : Dec) (hc : 0 ≤ curr) (hl : 0 < last)
    (hdiv : last ∣ curr * PREC) :
    shouldExtend curr last rate = true ↔ rate * last ≤ (last - curr) * PREC := by
  exact shouldExtend_exact_int curr last rate hc hl hdiv

end Fundraising
