import Fundraising.Proofs.VestingLemmas
import Fundraising.Proofs.ProgressProofs
import Fundraising.Proofs.FrameProofs
import Fundraising.Proofs.WFProofs
/-
  C13 — bounded rounds: helper theorems shared by Props/C13.lean and Proofs/LivenessProofs.lean.
-/
namespace Fundraising

/-- **bounded**: in every reachable state an auction has at most one plus its maximum extended
    rounds end times, and the maximum is at most 30 -/
theorem rounds_bounded (st : State) (h : Reach st) (i : Nat) (v : AView)
    (hv : st.core.views[i]? = some v) :
    v.a.endTimes.length ≤ v.a.maxExt + 1 ∧ v.a.maxExt ≤ 30 ∧ v.a.endTimes ≠ [] :=
  let hw := ((wf_reach st h).views i v hv).auction
  ⟨hw.endLen, hw.maxExt, hw.endNonempty⟩

/-- **every auction eventually settles**: each end-time event (a block at or after the current
    end time of an open auction) either settles it or strictly decreases the number of rounds
    left `maxExt + 1 − #endTimes`, which is non-negative in reachable states; so after at most
    `maxExt + 1 ≤ 31` end-time events the auction has settled -/
theorem end_time_event_settles_or_consumes_a_round (st : State) (h : Reach st) (t : Int)
    (hok : (step st (.block t)).1.res = .ok)
    (i : Nat) (v v' : AView) (hv : st.core.views[i]? = some v)
    (hv' : (step st (.block t)).2.core.views[i]? = some v')
    (hs : v.a.status = .started) (hdue : v.a.lastEnd ≤ t) :
    (v'.a.status = .vesting ∨ v'.a.status = .finished) ∨
    (v'.a.status = .started ∧ v'.a.maxExt = v.a.maxExt ∧
      v'.a.maxExt + 1 - v'.a.endTimes.length < v.a.maxExt + 1 - v.a.endTimes.length) := by
  rcases (block_closes st t hok i v v' hv hv' hs).1 hdue with hdone | ⟨hst, _, hlen⟩
  · exact Or.inl hdone
  · refine Or.inr ⟨hst, ?_, ?_⟩
    · obtain ⟨v'', h1, h2⟩ := view_step st (.block t) (by simp) (wf_reach st h) i v hv
      rw [hv'] at h1; cases h1
      have := congrArg Terms.maxExt h2.terms
      simpa [Auction.terms] using this
    · have hb := (rounds_bounded (step st (.block t)).2 (reach_step h _) i v' hv').1
      obtain ⟨v'', h1, h2⟩ := view_step st (.block t) (by simp) (wf_reach st h) i v hv
      rw [hv'] at h1; cases h1
      have hm : v'.a.maxExt = v.a.maxExt := by
        have := congrArg Terms.maxExt h2.terms
        simpa [Auction.terms] using this
      omega

end Fundraising
