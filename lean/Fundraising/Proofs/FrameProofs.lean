import Fundraising.Spec.Frame
import Fundraising.Proofs.ExecLemmas
import Fundraising.Proofs.Reach
import Fundraising.Proofs.GenesisProofs
/-
  C08 / C10 / C11 / C12 / C13 / C19 — one-step theorems about what an operation may change.
  STATEMENTS ARE FIXED (cited by the Props files).
-/
namespace Fundraising

/-- **no auction is ever removed, ids are never reused** (any operation but `reset`) -/
theorem views_grow (st : State) (op : Op) (hop : op ≠ .reset) (hwf : WF st.core) :
    st.core.views.length ≤ (step st op).2.core.views.length := by
  sorry

/-- **every existing auction takes a legal step** (any operation but `reset`): status moves
    along a lifecycle edge, terms unchanged, end times/bids/allow-list/instalments only grow -/
theorem view_step (st : State) (op : Op) (hop : op ≠ .reset) (hwf : WF st.core) (i : Nat) (v : AView)
    (hv : st.core.views[i]? = some v) :
    ∃ v', (step st op).2.core.views[i]? = some v' ∧ ViewStep v v' := by
  sorry

/-- **frame, message and keeper-API operations**: an operation that names auction `a`
    leaves every other auction's record, bids, allow-list, instalments, counters and escrow
    balances exactly as they were -/
theorem frame_target (st : State) (op : Op) (a : Nat) (ht : op.target = some a) (j : Nat) (hj : j ≠ a) :
    (step st op).2.core.views[j]? = st.core.views[j]? ∧ SameEscrows st.core (step st op).2.core j := by
  sorry

/-- **frame, creation**: creating an auction leaves every existing auction and its escrows
    untouched and appends at most one auction -/
theorem frame_create (st : State) (m : CreateMsg) (j : Nat) (hj : j < st.core.views.length) :
    (step st (.msg (.create m))).2.core.views[j]? = st.core.views[j]? ∧
    SameEscrows st.core (step st (.msg (.create m))).2.core j ∧
    (step st (.msg (.create m))).2.core.views.length ≤ st.core.views.length + 1 := by
  sorry

/-- **frame, blocks**: an auction with nothing due at the block's time is untouched by the
    block, whatever happens to the other auctions in it (settlement of one auction never
    changes another auction) -/
theorem frame_block_idle (st : State) (t : Int) (hwf : WF st.core) (j : Nat) (v : AView)
    (hv : st.core.views[j]? = some v) (hidle : idleAt v t = true) :
    (step st (.block t)).2.core.views[j]? = some v ∧
    SameEscrows st.core (step st (.block t)).2.core j := by
  sorry

/-- **only messages of the auctioneer cancel** (C12): an auction becomes cancelled in one
    step only through `MsgCancelAuction` signed by its auctioneer while it is in stand-by,
    and then its selling escrow's whole selling-denom balance goes to the auctioneer, the
    published remainder is zero -/
theorem cancelled_only_by_cancel (st : State) (op : Op) (hop : op ≠ .reset) (hwf : WF st.core)
    (i : Nat) (v v' : AView) (hv : st.core.views[i]? = some v)
    (hv' : (step st op).2.core.views[i]? = some v')
    (hs : v.a.status ≠ .cancelled) (hs' : v'.a.status = .cancelled) :
    op = .msg (.cancel v.a.auctioneer i) ∧ v.a.status = .standby ∧
    (v.a.type = .fixed → v'.a.remaining = 0) ∧
    (step st op).2.core.bank (.sell i) v.a.sellDenom = 0 ∧
    (step st op).2.core.bank (.user v.a.auctioneer) v.a.sellDenom =
      st.core.bank (.user v.a.auctioneer) v.a.sellDenom + st.core.bank (.sell i) v.a.sellDenom := by
  sorry

/-- **bids change only through their owner's MsgModifyBid, new bids only through
    MsgPlaceBid, only while the auction is open** (C08/C11) -/
theorem bids_change_only_by_owner (st : State) (op : Op) (hop : op ≠ .reset) (hwf : WF st.core)
    (i : Nat) (v v' : AView) (hv : st.core.views[i]? = some v)
    (hv' : (step st op).2.core.views[i]? = some v') :
    -- price/amount of an existing bid changed ⇒ it was the owner's modify on an open batch auction
    (∀ b ∈ v.bids, ∀ b' ∈ v'.bids, b'.id = b.id → (b'.price ≠ b.price ∨ b'.amt ≠ b.amt) →
        v.a.status = .started ∧ v.a.type = .batch ∧
        op = .msg (.modify b.bidder i b.id b'.price b.denom b'.amt)) ∧
    -- a bid was added ⇒ it was a place-bid on an open auction by an allow-listed bidder
    (v.bids.length < v'.bids.length →
        v.a.status = .started ∧ v'.bids.length = v.bids.length + 1 ∧
        ∃ b, v'.bids.getLast? = some b ∧ b.id = v.bids.length + 1 ∧
          (lookupAllowed v.allowed b.bidder).isSome = true ∧
          op = .msg (.place b.bidder i (some b.type) b.price b.denom b.amt)) := by
  sorry

/-- **messages never change an allow-list in a default build** (C10) -/
theorem msg_keeps_allowlists (st : State) (m : Msg) (hoff : st.core.enableAdd = false)
    (i : Nat) (v : AView) (hv : st.core.views[i]? = some v) :
    ∃ v', (step st (.msg m)).2.core.views[i]? = some v' ∧ v'.allowed = v.allowed := by
  sorry

/-- **MsgAddAllowedBidder is rejected in a default build** (C10) -/
theorem addAllowed_rejected (st : State) (aid : Nat) (ab : AllowedArg) (hoff : st.core.enableAdd = false) :
    (step st (.msg (.addAllowed aid ab))).1.res ≠ .ok ∧
    (step st (.msg (.addAllowed aid ab))).2.core = st.core := by
  sorry

/-- **end times** (C13): an operation changes an auction's end times only by appending
    exactly one end time, one extended period after the last one, in a block at or after
    that last end time, and only while rounds are left -/
theorem endTimes_step (st : State) (op : Op) (hop : op ≠ .reset) (hwf : WF st.core)
    (i : Nat) (v v' : AView) (hv : st.core.views[i]? = some v)
    (hv' : (step st op).2.core.views[i]? = some v') (hne : v'.a.endTimes ≠ v.a.endTimes) :
    ∃ t, op = .block t ∧ v.a.status = .started ∧ v.a.type = .batch ∧ v.a.lastEnd ≤ t ∧
      v.a.endTimes.length < v.a.maxExt + 1 ∧
      v'.a.endTimes = v.a.endTimes ++ [v.a.lastEnd + 86400 * (st.core.params.period : Int)] ∧
      v'.a.status = .started := by
  sorry

end Fundraising
