import Fundraising.Spec.Frame
import Fundraising.Proofs.ExecLemmas
import Fundraising.Proofs.Reach
import Fundraising.Proofs.GenesisProofs
import Fundraising.Proofs.FrameViews
/-
  C08 / C10 / C11 / C12 / C13 / C19 — one-step theorems about what an operation may change.
  STATEMENTS ARE FIXED (cited by the Props files).
-/
namespace Fundraising

/-- **no auction is ever removed, ids are never reused** (any operation but `reset`) -/
theorem views_grow (st : State) (op : Op) (hop : op ≠ .reset) (hwf : WF st.core) :
    st.core.views.length ≤ (step st op).2.core.views.length := by
  rcases Frame.step_kind st op hop hwf with ⟨t, rfl⟩ | k
  · exact Nat.le_of_eq (Frame.block_spec st t hwf).1.symm
  · cases k with
    | same hvs => rw [hvs]; exact Nat.le_refl _
    | create m nv _ hvs => rw [hvs, List.length_append]; exact Nat.le_add_right _ _
    | cancel _ _ _ _ fp => exact Nat.le_of_eq fp.len.symm
    | place _ _ _ _ _ _ _ _ _ _ fp => exact Nat.le_of_eq fp.len.symm
    | modify _ _ _ _ _ _ _ _ _ fp => exact Nat.le_of_eq fp.len.symm
    | allowed _ _ _ _ fp => exact Nat.le_of_eq fp.len.symm

/-- **every existing auction takes a legal step** (any operation but `reset`): status moves
    along a lifecycle edge, terms unchanged, end times/bids/allow-list/instalments only grow -/
theorem view_step (st : State) (op : Op) (hop : op ≠ .reset) (hwf : WF st.core) (i : Nat) (v : AView)
    (hv : st.core.views[i]? = some v) :
    ∃ v', (step st op).2.core.views[i]? = some v' ∧ ViewStep v v' := by
  rcases Frame.step_kind st op hop hwf with ⟨t, rfl⟩ | k
  · obtain ⟨_, _, h, _⟩ := Frame.block_spec st t hwf
    obtain ⟨v', hv', r⟩ := h i v hv
    exact ⟨v', hv', r.viewStep⟩
  · obtain ⟨v', hv', a⟩ := k.at hv
    refine ⟨v', hv', ?_⟩
    have w := hwf.views i v hv
    cases a with
    | same => exact Frame.viewStep_refl v
    | cancel signer hop' hsigner hst hnn hbank => exact Frame.viewStep_cancel hst _
    | place bidder t price denom amt r m hop' hst hallowed => exact Frame.viewStep_place v r _
    | modify bidder bidId price denom amt bid hop' hst hty hfind hbidder hdenom hprice hamt =>
      exact Frame.viewStep_modify w hfind hprice hamt
    | allowed l hmsg kept => exact Frame.viewStep_allowed v kept

/-- **frame, message and keeper-API operations**: an operation that names auction `a`
    leaves every other auction's record, bids, allow-list, instalments, counters and escrow
    balances exactly as they were -/
theorem frame_target (st : State) (op : Op) (a : Nat) (ht : op.target = some a) (j : Nat) (hj : j ≠ a) :
    (step st op).2.core.views[j]? = st.core.views[j]? ∧ SameEscrows st.core (step st op).2.core j := by
  have fp := Frame.targeted_fp st op a ht
  exact ⟨fp.others j hj, fp.same hj⟩

/-- **frame, creation**: creating an auction leaves every existing auction and its escrows
    untouched and appends at most one auction -/
theorem frame_create (st : State) (m : CreateMsg) (j : Nat) (hj : j < st.core.views.length) :
    (step st (.msg (.create m))).2.core.views[j]? = st.core.views[j]? ∧
    SameEscrows st.core (step st (.msg (.create m))).2.core j ∧
    (step st (.msg (.create m))).2.core.views.length ≤ st.core.views.length + 1 := by
  obtain ⟨h1, h2, h3⟩ := Frame.create_frame st m
  exact ⟨h1 j hj, h2.same (Nat.ne_of_lt hj), h3⟩

/-- **frame, blocks**: an auction with nothing due at the block's time is untouched by the
    block, whatever happens to the other auctions in it (settlement of one auction never
    changes another auction) -/
theorem frame_block_idle (st : State) (t : Int) (hwf : WF st.core) (j : Nat) (v : AView)
    (hv : st.core.views[j]? = some v) (hidle : idleAt v t = true) :
    (step st (.block t)).2.core.views[j]? = some v ∧
    SameEscrows st.core (step st (.block t)).2.core j := by
  exact (Frame.block_spec st t hwf).2.2.2 j v hv hidle

/-- **only messages of the auctioneer cancel** (C12): an auction becomes cancelled in one
    step only through `MsgCancelAuction` signed by its auctioneer while it is in stand-by,
    and then its selling escrow's whole selling-denom balance goes to the auctioneer, the
    published remainder is zero -/
theorem cancelled_only_by_cancel (st : State) (op : Op) (hop : op ≠ .reset) (hwf : WF st.core)
    (i : Nat) (v v' : AView) (hv : st.core.views[i]? = some v)
    (hv' : (step st op).2.core.views[i]? = some v')
    (hs : v.a.status ≠ .cancelled) (hs' : v'.a.status = .cancelled) :
    op = .msg (.cancel v.a.auctioneer i) ∧ v.a.status = .standby ∧
    (v.a.type = .fixed → v'.a.remaining = 0) ∧
    (step st op).2.core.bank (.sell i) v.a.sellDenom = 0 ∧
    (step st op).2.core.bank (.user v.a.auctioneer) v.a.sellDenom =
      st.core.bank (.user v.a.auctioneer) v.a.sellDenom + st.core.bank (.sell i) v.a.sellDenom := by
  rcases Frame.step_kind st op hop hwf with ⟨t, rfl⟩ | k
  · obtain ⟨_, _, h, _⟩ := Frame.block_spec st t hwf
    obtain ⟨v'', hv'', r⟩ := h i v hv
    have e : v'' = v' := by rw [hv'] at hv''; exact (Option.some.inj hv'').symm
    subst e
    exact absurd (r.notCancel hs') hs
  · obtain ⟨v'', hv'', a⟩ := k.at hv
    have e : v'' = v' := by rw [hv'] at hv''; exact (Option.some.inj hv'').symm
    subst e
    cases a with
    | same => exact absurd hs' hs
    | cancel signer hop' hsigner hst hnn hbank =>
      subst hsigner
      refine ⟨hop', hst, ?_, ?_, ?_⟩
      · intro hty; simp [hty]
      · rw [hbank]; simp [move_apply]
      · rw [hbank]; simp [move_apply]
    | place bidder t price denom amt r m hop' hst hallowed => exact absurd hs' hs
    | modify bidder bidId price denom amt bid hop' hst hty hfind hbidder hdenom hprice hamt =>
      exact absurd hs' hs
    | allowed l hmsg kept => exact absurd hs' hs

/-- **bids change only through their owner's MsgModifyBid, new bids only through
    MsgPlaceBid, only while the auction is open** (C08/C11) -/
theorem bids_change_only_by_owner (st : State) (op : Op) (hop : op ≠ .reset) (hwf : WF st.core)
    (i : Nat) (v v' : AView) (hv : st.core.views[i]? = some v)
    (hv' : (step st op).2.core.views[i]? = some v') :
    -- price/amount of an existing bid changed ⇒ it was the owner's modify on an open batch auction
    (∀ b ∈ v.bids, ∀ b' ∈ v'.bids, b'.id = b.id → (b'.price ≠ b.price ∨ b'.amt ≠ b.amt) →
        v.a.status = .started ∧ v.a.type = .batch ∧
        op = .msg (.modify b.bidder i b.id b'.price b.denom b'.amt)) ∧
    -- a bid was added ⇒ it was a place-bid on an open auction by an allow-listed bidder
    (v.bids.length < v'.bids.length →
        v.a.status = .started ∧ v'.bids.length = v.bids.length + 1 ∧
        ∃ b, v'.bids.getLast? = some b ∧ b.id = v.bids.length + 1 ∧
          (lookupAllowed v.allowed b.bidder).isSome = true ∧
          op = .msg (.place b.bidder i (some b.type) b.price b.denom b.amt)) := by
  show Frame.BidsClaim op i v v'
  have w := hwf.views i v hv
  rcases Frame.step_kind st op hop hwf with ⟨t, rfl⟩ | k
  · obtain ⟨_, _, h, _⟩ := Frame.block_spec st t hwf
    obtain ⟨v'', hv'', r⟩ := h i v hv
    have e : v'' = v' := by rw [hv'] at hv''; exact (Option.some.inj hv'').symm
    subst e
    obtain ⟨f, hf⟩ := r.bids
    exact Frame.bidsClaim_flags w f hf
  · obtain ⟨v'', hv'', a⟩ := k.at hv
    have e : v'' = v' := by rw [hv'] at hv''; exact (Option.some.inj hv'').symm
    subst e
    cases a with
    | same => exact Frame.bidsClaim_same w rfl
    | cancel signer hop' hsigner hst hnn hbank => exact Frame.bidsClaim_same w rfl
    | allowed l hmsg kept => exact Frame.bidsClaim_same w rfl
    | place bidder t price denom amt r m hop' hst hallowed =>
      constructor
      · intro b hb b' hb' hid hne
        simp only at hb'
        rcases List.mem_append.mp hb' with h1 | h1
        · have := Frame.id_unique w b' h1 b hb hid
          subst this
          simp at hne
        · simp only [List.mem_singleton] at h1
          subst h1
          simp only at hid
          have h2 := Frame.id_le w b hb
          have h3 := w.bidSeq
          omega
      · intro _
        refine ⟨hst, by simp, ⟨i, v.bidSeq + 1, bidder, t, price, denom, amt, m⟩, by simp, ?_, hallowed, hop'⟩
        show v.bidSeq + 1 = v.bids.length + 1
        rw [w.bidSeq]
    | modify bidder bidId price denom amt bid hop' hst hty hfind hbidder hdenom hprice hamt =>
      obtain ⟨hmem, hbid, huniq⟩ := Frame.find_unique w hfind
      constructor
      · intro b hb b' hb' hid hne
        obtain ⟨x, hx, rfl⟩ := List.mem_map.mp hb'
        by_cases hx' : x.id = bidId
        · have e1 := huniq x hx hx'
          subst e1
          have hxb : (x.id == bidId) = true := by simpa using hx'
          simp only [hxb, if_true] at hid hne ⊢
          have e2 := Frame.id_unique w x hx b hb hid
          subst e2
          refine ⟨hst, hty, ?_⟩
          rw [hop', hbidder, hdenom, hx']
        · have hx'' : (x.id == bidId) = false := by simpa using hx'
          simp only [hx''] at hid hne
          have e2 := Frame.id_unique w x hx b hb hid
          subst e2
          simp at hne
      · intro hlt
        simp only [List.length_map] at hlt
        omega

/-- **messages never change an allow-list in a default build** (C10) -/
theorem msg_keeps_allowlists (st : State) (m : Msg) (hoff : st.core.enableAdd = false)
    (i : Nat) (v : AView) (hv : st.core.views[i]? = some v) :
    ∃ v', (step st (.msg m)).2.core.views[i]? = some v' ∧ v'.allowed = v.allowed := by
  obtain ⟨v', hv', a⟩ := (Frame.msg_kind st m).at hv
  refine ⟨v', hv', ?_⟩
  cases a with
  | same => rfl
  | cancel signer hop' hsigner hst hnn hbank => rfl
  | place bidder t price denom amt r m' hop' hst hallowed => rfl
  | modify bidder bidId price denom amt bid hop' hst hty hfind hbidder hdenom hprice hamt => rfl
  | allowed l hmsg kept =>
    have := hmsg m rfl
    rw [hoff] at this
    cases this

/-- **MsgAddAllowedBidder is rejected in a default build** (C10) -/
theorem addAllowed_rejected (st : State) (aid : Nat) (ab : AllowedArg) (hoff : st.core.enableAdd = false) :
    (step st (.msg (.addAllowed aid ab))).1.res ≠ .ok ∧
    (step st (.msg (.addAllowed aid ab))).2.core = st.core := by
  simp only [step]
  rcases runAtomic_cases st true (fun c => deliver c (.addAllowed aid ab)) with
    ⟨c, hc, e⟩ | ⟨e, _, hs, hr⟩
  · have h := (Frame.handle_addAllowed (Frame.deliver_ok hc)).1
    simp only at h
    rw [hoff] at h
    cases h
  · exact ⟨hr, by rw [hs]⟩

/-- **end times** (C13): an operation changes an auction's end times only by appending
    exactly one end time, one extended period after the last one, in a block at or after
    that last end time, and only while rounds are left -/
theorem endTimes_step (st : State) (op : Op) (hop : op ≠ .reset) (hwf : WF st.core)
    (i : Nat) (v v' : AView) (hv : st.core.views[i]? = some v)
    (hv' : (step st op).2.core.views[i]? = some v') (hne : v'.a.endTimes ≠ v.a.endTimes) :
    ∃ t, op = .block t ∧ v.a.status = .started ∧ v.a.type = .batch ∧ v.a.lastEnd ≤ t ∧
      v.a.endTimes.length < v.a.maxExt + 1 ∧
      v'.a.endTimes = v.a.endTimes ++ [v.a.lastEnd + 86400 * (st.core.params.period : Int)] ∧
      v'.a.status = .started := by
  rcases Frame.step_kind st op hop hwf with ⟨t, rfl⟩ | k
  · obtain ⟨_, _, h, _⟩ := Frame.block_spec st t hwf
    obtain ⟨v'', hv'', r⟩ := h i v hv
    have e : v'' = v' := by rw [hv'] at hv''; exact (Option.some.inj hv'').symm
    subst e
    rcases r.ends with e | ⟨h1, h2, h3, h4, h5, h6⟩
    · exact absurd e hne
    · have h7 := (hwf.views i v hv).auction.endLen
      exact ⟨t, rfl, h1, h2, h3, by omega, h5, h6⟩
  · obtain ⟨v'', hv'', a⟩ := k.at hv
    have e : v'' = v' := by rw [hv'] at hv''; exact (Option.some.inj hv'').symm
    subst e
    cases a <;> exact absurd rfl hne

end Fundraising
