import Fundraising.Spec.Invariants
import Fundraising.Proofs.MatchLemmas
/-
  C07 helpers, part 4: what the allocation / refund maps add up to.
-/
namespace Fundraising

theorem sumOver_cons (f : Bid → Int) (b : Bid) (bids : List Bid) (u : Acc) :
    sumOver (b :: bids) u f = (if b.bidder = u then f b else 0) + sumOver bids u f := by
  rw [sumOver_eq, sumOver_eq, List.filter_cons]
  by_cases h : b.bidder = u
  · simp [h]
  · simp [h]

/-- the per-bidder sums add up to the sum over all bids -/
theorem sum_sumOver (f : Bid → Int) : ∀ (bids : List Bid) (B : List Acc), B.Nodup →
    (∀ b ∈ bids, b.bidder ∈ B) → (B.map (fun u => sumOver bids u f)).sum = (bids.map f).sum
  | [], B, _, _ => by
    have : (fun u => sumOver [] u f) = fun _ => (0 : Int) := by
      funext u; rfl
    rw [this, isum_map_zero]; rfl
  | b :: bids, B, hB, hin => by
    have ih := sum_sumOver f bids B hB (fun x hx => hin x (List.mem_cons_of_mem _ hx))
    have hu := isum_map_update (fun u => sumOver bids u f) (fun u => sumOver (b :: bids) u f)
      b.bidder (f b) B hB (hin b (List.mem_cons_self))
      (by simp only [sumOver_cons, if_true]; omega)
      (by
        intro v hv
        have : ¬ b.bidder = v := fun e => hv e.symm
        simp only [sumOver_cons, this, if_false]; omega)
    rw [hu, ih]
    simp only [List.map_cons, List.sum_cons]
    omega

theorem sum_sumOver_bidders (f : Bid → Int) (bids : List Bid) :
    ((biddersOf bids).map (fun u => sumOver bids u f)).sum = (bids.map f).sum :=
  sum_sumOver f bids _ (biddersOf_nodup bids) (fun b hb => (mem_biddersOf bids _).2 ⟨b, hb, rfl⟩)

theorem sumOver_nonneg (f : Bid → Int) (bids : List Bid) (u : Acc) (h : ∀ b ∈ bids, 0 ≤ f b) :
    0 ≤ sumOver bids u f := by
  rw [sumOver_eq]
  exact isum_map_nonneg f _ (fun b hb => h b (List.mem_filter.1 hb).1)

theorem toSelling_nonneg (b : Bid) (pd : Denom) (hp : 0 < b.price) (ha : 0 < b.amt) :
    0 ≤ b.toSelling pd := by
  by_cases h : b.denom = pd
  · rw [Bid.toSelling_pay b pd h (Int.le_of_lt ha) hp]
    exact Int.ediv_nonneg (Int.mul_nonneg (Int.le_of_lt ha) (by decide)) (Int.le_of_lt hp)
  · rw [Bid.toSelling_sell b pd h]
    exact Int.le_of_lt ha

/-- `CalculateFixedPriceAllocation`: non-negative allocations that add up to what was sold -/
theorem calcFixed_facts (v : AView) (hb : ∀ b ∈ v.bids, 0 < b.price ∧ 0 < b.amt) :
    (∀ p ∈ (calcFixed v.a v.bids).alloc, 0 ≤ p.2) ∧
    ((calcFixed v.a v.bids).alloc.map (·.2)).sum = soldOf v := by
  constructor
  · intro p hp
    obtain ⟨u, _, rfl⟩ := List.mem_map.1 hp
    exact sumOver_nonneg _ _ _ (fun b hb' => toSelling_nonneg b _ (hb b hb').1 (hb b hb').2)
  · unfold calcFixed
    simp only [List.map_map]
    exact sum_sumOver_bidders (·.toSelling v.a.payDenom) v.bids

/-- the order book of a well-formed batch auction is a well-formed book -/
theorem bookWF_of_viewWF {i : Nat} {v : AView} (h : ViewWF i v) (ht : v.a.type = .batch) :
    BookWF v.a v.bids v.allowed where
  types := by
    intro b hb
    rcases (h.bids b hb).batch ht with ⟨h1, _⟩ | ⟨h1, _⟩
    · exact Or.inl h1
    · exact Or.inr h1
  denoms := by
    intro b hb
    rcases (h.bids b hb).batch ht with ⟨h1, h2⟩ | ⟨h1, h2⟩
    · refine ⟨fun _ => h2, fun e => ?_⟩
      rw [h1] at e; cases e
    · refine ⟨fun e => ?_, fun _ => ?_⟩
      · rw [h1] at e; cases e
      rw [h2]
      exact h.auction.denomNe
  prices := fun b hb => (h.bids b hb).price
  amts := fun b hb => (h.bids b hb).amt
  listed := fun b hb => (h.bids b hb).listed
  caps := fun x hx => (h.caps x hx).2
  supply := h.auction.sellPos
  ids := by
    rw [h.bidIds]
    exact List.Pairwise.map _ (fun a b (hab : a ≠ b) => fun e => hab (by omega)) List.nodup_range

/-- the two maps of `CalculateBatchAllocation` are indexed by the bidders -/
theorem calcBatchWith_shape (sorted : List Bid) (a : Auction) (bids : List Bid) (allowed : List Allowed)
    (mi : MInfo) (h : calcBatchWith sorted a bids allowed = some mi) :
    ∃ g r : Acc → Int, mi.alloc = (biddersOf bids).map (fun u => (u, g u)) ∧
      mi.refund = (biddersOf bids).map (fun u => (u, r u)) := by
  unfold calcBatchWith at h
  simp only [] at h
  split at h
  · cases h
  · split at h
    · injection h with h
      subst h
      exact ⟨_, _, rfl, rfl⟩
    · injection h with h
      subst h
      exact ⟨_, _, rfl, rfl⟩

/-- `CalculateBatchAllocation` on a well-formed book: it returns, the allocations are
    non-negative and within the supply, the refunds are non-negative and within what was
    reserved -/
theorem calcBatch_facts (v : AView) (hw : BookWF v.a v.bids v.allowed) :
    ∃ mi, calcBatch v.a v.bids v.allowed = some mi ∧
      (∀ p ∈ mi.alloc, 0 ≤ p.2) ∧ (mi.alloc.map (·.2)).sum ≤ v.a.sellAmt ∧
      (∀ p ∈ mi.refund, 0 ≤ p.2) ∧ (mi.refund.map (·.2)).sum ≤ reservedTotal v := by
  have hs := sortBids_arrangement v.bids
  obtain ⟨mi, hmi, hno, hcl⟩ := calcBatchWith_spec v.a v.bids _ v.allowed hw hs
  obtain ⟨_, htot, hsum, _, _, hb⟩ := calcBatchWith_bounds v.a v.bids _ v.allowed mi hw hs hmi
  obtain ⟨g, r, hg, hr⟩ := calcBatchWith_shape _ _ _ _ _ hmi
  have hlg : ∀ u ∈ biddersOf v.bids, lookupAmt mi.alloc u = g u := by
    intro u hu; rw [hg]; exact lookupAmt_map g u _ hu
  have hlr : ∀ u ∈ biddersOf v.bids, lookupAmt mi.refund u = r u := by
    intro u hu; rw [hr]; exact lookupAmt_map r u _ hu
  -- refund ≤ reserved for every bidder
  have hrle : ∀ u ∈ biddersOf v.bids, 0 ≤ r u ∧ r u ≤ reservedOf v.bids v.a.payDenom u := by
    intro u hu
    obtain ⟨b1, _, _, b4, _, b6, b7, _⟩ := hb u hu
    rw [hlg u hu] at b1 b6 b7
    rw [hlr u hu] at b4 b6 b7
    refine ⟨b4, ?_⟩
    by_cases hz : g u = 0
    · rw [b7 hz]; exact Int.le_refl _
    · have hpos : 0 < g u := by omega
      -- a positive allocation: some price cleared, the price is a bid price (> 0)
      rcases clearing_cases v.bids v.allowed v.a.sellAmt with hnf | ⟨p, hp⟩
      · have := ((hno hnf).2.2 u hu).1
        rw [hlg u hu] at this
        omega
      · obtain ⟨hpe, _, _, _⟩ := hcl p hp
        obtain ⟨⟨b, hbm, hbp⟩, _, _⟩ := hp
        have hpp : 0 < mi.price := by rw [hpe, ← hbp]; exact hw.prices b hbm
        have h1 : 0 ≤ mi.price * g u := Int.mul_nonneg (Int.le_of_lt hpp) (Int.le_of_lt hpos)
        have h2 : 0 ≤ PREC * (reservedOf v.bids v.a.payDenom u - r u) := Int.le_trans h1 b6
        have h3 : 0 ≤ reservedOf v.bids v.a.payDenom u - r u := by
          by_cases hneg : reservedOf v.bids v.a.payDenom u - r u < 0
          · have : PREC * (reservedOf v.bids v.a.payDenom u - r u) < 0 :=
              Int.mul_neg_of_pos_of_neg (by decide) hneg
            omega
          · exact Int.not_lt.1 hneg
        omega
  refine ⟨mi, hmi, ?_, ?_, ?_, ?_⟩
  · intro p hp
    rw [hg] at hp
    obtain ⟨u, hu, rfl⟩ := List.mem_map.1 hp
    have := (hb u hu).1
    rw [hlg u hu] at this
    exact this
  · rw [hg, List.map_map]
    have : ((biddersOf v.bids).map ((fun p : Acc × Int => p.2) ∘ fun u => (u, g u))).sum =
        ((biddersOf v.bids).map (lookupAmt mi.alloc)).sum :=
      isum_map_congr _ _ _ (fun u hu => (hlg u hu).symm)
    rw [this, ← hsum]
    exact htot
  · intro p hp
    rw [hr] at hp
    obtain ⟨u, hu, rfl⟩ := List.mem_map.1 hp
    exact (hrle u hu).1
  · rw [hr, List.map_map]
    have h1 : ((biddersOf v.bids).map ((fun p : Acc × Int => p.2) ∘ fun u => (u, r u))).sum ≤
        ((biddersOf v.bids).map (fun u => reservedOf v.bids v.a.payDenom u)).sum :=
      isum_map_le _ _ _ (fun u hu => (hrle u hu).2)
    have h2 : ((biddersOf v.bids).map (fun u => reservedOf v.bids v.a.payDenom u)).sum =
        reservedTotal v := sum_sumOver_bidders (·.toPaying v.a.payDenom) v.bids
    omega

end Fundraising
