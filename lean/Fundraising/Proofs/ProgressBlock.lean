import Fundraising.Proofs.ProgressSettle
import Fundraising.Proofs.ProgressRelease
/-
  The `BeginBlocker` loop: footprint of one iteration, decomposition of a successful loop
  around one index.
-/
namespace Fundraising.ProgressInv
open Fundraising.WFInv (bind_ok pure_ok fail_ne_ok)

/-- the accounts the iteration for index `j` (stored auction id `id`) may debit -/
def SrcOK (j id : Nat) (a : Addr) : Prop := a = .sell id ∨ a = .pay id ∨ a = .pay j ∨ a = .vest j

theorem settleXfers_src {aid : Nat} {v : AView} {alloc refund : List (Acc × Int)} {rest : List Coin}
    {R : Int} : ∀ x ∈ settleXfers aid v alloc refund rest R, SrcOK aid v.a.id x.src := by
  intro x hx
  unfold settleXfers at hx
  simp only [List.mem_append, List.mem_singleton] at hx
  rcases hx with ((hx | hx) | hx) | hx
  · exact Or.inl (payXfers_src x hx)
  · subst hx; exact Or.inl rfl
  · exact Or.inr (Or.inl (payXfers_src x hx))
  · subst hx; exact Or.inr (Or.inr (Or.inl rfl))

/-- a started auction: nothing before the end time, the close operation at or after it -/
theorem blockStep_started {c c' : Ctx} {aid : Nat} {v : AView} (h : blockStep c aid = .ok c')
    (hv : c.s.views[aid]? = some v) (hs : v.a.status = .started) :
    (c.s.now < v.a.lastEnd → c' = c) ∧
    (v.a.lastEnd ≤ c.s.now →
      (v.a.type = .fixed → closeFixed c aid = .ok c') ∧ (v.a.type = .batch → closeBatch c aid = .ok c')) := by
  unfold blockStep at h
  simp only [bind_ok] at h
  obtain ⟨v', hv', h⟩ := h
  rw [view_ok_iff, hv] at hv'
  cases hv'
  simp only [hs] at h
  cases he : v.a.endTimes.getLast? with
  | none => simp only [he, fail_ne_ok] at h
  | some e =>
    simp only [he] at h
    have hl : v.a.lastEnd = e := by unfold Auction.lastEnd; rw [he]; rfl
    rw [hl]
    split at h
    · rename_i hdue
      refine ⟨fun hlt => absurd hdue (by omega), fun _ => ?_⟩
      cases ht : v.a.type <;> simp only [ht] at h
      · exact ⟨fun _ => h, fun hh => by cases hh⟩
      · exact ⟨fun hh => (by cases hh), fun _ => h⟩
    · rename_i hdue
      rw [pure_ok] at h
      exact ⟨fun _ => h.symm, fun hle => absurd hle hdue⟩

theorem set_others {c c' : Ctx} {aid : Nat} {w : AView} (h : c'.s.views = c.s.views.set aid w) :
    ∀ j, j ≠ aid → c'.s.views[j]? = c.s.views[j]? := by
  intro j hj
  rw [h, getElem?_set_other _ hj]

/-- footprint of one iteration -/
theorem blockStep_foot {c c' : Ctx} {aid : Nat} (h : blockStep c aid = .ok c') :
    (∀ j, j ≠ aid → c'.s.views[j]? = c.s.views[j]?) ∧ c'.s.now = c.s.now ∧
    ∃ w, c.s.views[aid]? = some w ∧
    ∃ e, c'.effs = c.effs ++ e ∧ ∀ x ∈ xf e, SrcOK aid w.a.id x.src := by
  have h0 := h
  unfold blockStep at h
  simp only [bind_ok] at h
  obtain ⟨v, hv, h⟩ := h
  rw [view_ok_iff] at hv
  have triv : c' = c → (∀ j, j ≠ aid → c'.s.views[j]? = c.s.views[j]?) ∧ c'.s.now = c.s.now ∧
      ∃ w, c.s.views[aid]? = some w ∧
      ∃ e, c'.effs = c.effs ++ e ∧ ∀ x ∈ xf e, SrcOK aid w.a.id x.src := by
    intro e; subst e
    exact ⟨fun _ _ => rfl, rfl, v, hv, [], by simp, fun x hx => by cases hx⟩
  cases hs : v.a.status <;> simp only [hs] at h
  · -- standby
    split at h
    · rw [pure_ok] at h; subst h
      exact ⟨fun j hj => getElem?_set_other _ hj, rfl, v, hv, [], by simp [setView_effs],
        fun x hx => by cases hx⟩
    · rw [pure_ok] at h; exact triv h.symm
  · -- started
    obtain ⟨hnd, hd⟩ := blockStep_started h0 hv hs
    by_cases hdue : v.a.lastEnd ≤ c.s.now
    · obtain ⟨hf, hb⟩ := hd hdue
      cases ht : v.a.type
      · obtain ⟨R, w, rest, e, _, _, hvs, hnow, heff, hx⟩ := closeFixed_inv (hf ht) hv
        refine ⟨set_others hvs, hnow, v, hv, e, heff, ?_⟩
        rw [hx]; exact settleXfers_src
      · obtain ⟨mi, _, hext, hset⟩ := closeBatch_inv (hb ht) hv
        by_cases hde : extDecision v mi
        · have := hext hde
          subst this
          exact ⟨fun j hj => getElem?_set_other _ hj, rfl, v, hv, [], by simp [setView_effs],
            fun x hx => by cases hx⟩
        · obtain ⟨R, w, rest, e, _, _, hvs, hnow, heff, hx⟩ := hset hde
          refine ⟨set_others hvs, hnow, v, hv, e, heff, ?_⟩
          rw [hx]; exact settleXfers_src
    · exact triv (hnd (by omega))
  · -- vesting
    obtain ⟨ho, hn, ⟨e, he, hx⟩, _⟩ := releaseVesting_inv h hv
    refine ⟨ho, hn, v, hv, e, he, ?_⟩
    rw [hx]
    intro x hx
    obtain ⟨q, _, rfl⟩ := List.mem_map.mp hx
    exact Or.inr (Or.inr (Or.inr rfl))
  · rw [pure_ok] at h; exact triv h.symm
  · rw [pure_ok] at h; exact triv h.symm

/-- footprint of a run of iterations over distinct indices -/
theorem blockLoop_foot : ∀ (l : List Nat) (c c' : Ctx), blockLoop c l = .ok c' → l.Nodup →
    (∀ j, j ∉ l → c'.s.views[j]? = c.s.views[j]?) ∧ c'.s.now = c.s.now ∧
    ∃ e, c'.effs = c.effs ++ e ∧
      ∀ x ∈ xf e, ∃ j w, j ∈ l ∧ c.s.views[j]? = some w ∧ SrcOK j w.a.id x.src := by
  intro l
  induction l with
  | nil =>
    intro c c' h _
    simp only [blockLoop, pure_ok] at h
    subst h
    exact ⟨fun _ _ => rfl, rfl, [], by simp, fun x hx => by cases hx⟩
  | cons a rest ih =>
    intro c c' h hnd
    rw [List.nodup_cons] at hnd
    unfold blockLoop at h
    simp only [bind_ok] at h
    obtain ⟨c1, h1, h⟩ := h
    obtain ⟨ho1, hn1, w, hw, e1, he1, hx1⟩ := blockStep_foot h1
    obtain ⟨ho2, hn2, e2, he2, hx2⟩ := ih c1 c' h hnd.2
    refine ⟨fun j hj => ?_, hn2.trans hn1, e1 ++ e2, by rw [he2, he1, List.append_assoc], ?_⟩
    · rw [List.mem_cons, not_or] at hj
      exact (ho2 j hj.2).trans (ho1 j hj.1)
    · intro x hx
      rw [xf_append, List.mem_append] at hx
      rcases hx with hx | hx
      · exact ⟨a, w, List.mem_cons_self .., hw, hx1 x hx⟩
      · obtain ⟨j, w', hj, hw', hs⟩ := hx2 x hx
        have hja : j ≠ a := fun e => hnd.1 (e ▸ hj)
        exact ⟨j, w', List.mem_cons_of_mem _ hj, by rw [← ho1 j hja]; exact hw', hs⟩

theorem blockLoop_append : ∀ (l1 l2 : List Nat) (c c' : Ctx),
    blockLoop c (l1 ++ l2) = .ok c' ↔ ∃ cm, blockLoop c l1 = .ok cm ∧ blockLoop cm l2 = .ok c' := by
  intro l1
  induction l1 with
  | nil =>
    intro l2 c c'
    simp only [List.nil_append, blockLoop, pure_ok, exists_eq_left']
  | cons a rest ih =>
    intro l2 c c'
    simp only [List.cons_append, blockLoop, bind_ok, ih]
    constructor
    · rintro ⟨c1, h1, cm, h2, h3⟩
      exact ⟨cm, ⟨c1, h1, h2⟩, h3⟩
    · rintro ⟨cm, ⟨c1, h1, h2⟩, h3⟩
      exact ⟨c1, h1, cm, h2, h3⟩

/-- **decomposition of a successful `BeginBlocker`** around index `i`: the iteration for `i`
    starts from a context that still holds the pre-state view, what it writes is final, and
    every transfer of the other iterations is out of another auction's accounts -/
theorem beginBlock_inv {c0 c' : Ctx} {t : Int} (h : beginBlock c0 t = .ok c') (i : Nat) (v : AView)
    (hv : c0.s.views[i]? = some v) :
    ∃ c1 c2 pre seg post, blockStep c1 i = .ok c2 ∧ c1.s.views[i]? = some v ∧ c1.s.now = t ∧
      c'.s.views[i]? = c2.s.views[i]? ∧ c2.effs = c1.effs ++ seg ∧
      c'.effs = c0.effs ++ pre ++ seg ++ post ∧
      (∀ x ∈ xf pre ++ xf post, ∃ j w, j ≠ i ∧ c0.s.views[j]? = some w ∧ SrcOK j w.a.id x.src) := by
  unfold beginBlock at h
  have hi : i < c0.s.views.length := by
    rcases Nat.lt_or_ge i c0.s.views.length with h' | h'
    · exact h'
    · rw [List.getElem?_eq_none h'] at hv; cases hv
  obtain ⟨s, r, hl⟩ := List.append_of_mem (List.mem_range.mpr hi)
  have hnd : (s ++ i :: r).Nodup := hl ▸ List.nodup_range
  rw [List.nodup_append] at hnd
  obtain ⟨hs, hir, hdis⟩ := hnd
  rw [List.nodup_cons] at hir
  simp only at h
  rw [hl, blockLoop_append] at h
  obtain ⟨c1, hA, hB⟩ := h
  unfold blockLoop at hB
  simp only [bind_ok] at hB
  obtain ⟨c2, hstep, hC⟩ := hB
  have his : i ∉ s := fun hm => hdis i hm i (List.mem_cons_self ..) rfl
  obtain ⟨hoA, hnA, pre, heA, hxA⟩ := blockLoop_foot s _ c1 hA hs
  obtain ⟨hoC, hnC, post, heC, hxC⟩ := blockLoop_foot r c2 c' hC hir.2
  obtain ⟨hoS, hnS, _, _, seg, heS, _⟩ := blockStep_foot hstep
  refine ⟨c1, c2, pre, seg, post, hstep, ?_, ?_, hoC i hir.1, heS, ?_, ?_⟩
  · rw [hoA i his]; exact hv
  · rw [hnA]
  · rw [heC, heS, heA]
  · intro x hx
    rw [List.mem_append] at hx
    rcases hx with hx | hx
    · obtain ⟨j, w, hj, hw, hsrc⟩ := hxA x hx
      exact ⟨j, w, fun e => his (e ▸ hj), hw, hsrc⟩
    · obtain ⟨j, w, hj, hw, hsrc⟩ := hxC x hx
      have hji : j ≠ i := fun e => hir.1 (e ▸ hj)
      have hjs : j ∉ s := fun hm => hdis j hm j (List.mem_cons_of_mem _ hj) rfl
      refine ⟨j, w, hji, ?_, hsrc⟩
      rw [hoS j hji, hoA j hjs] at hw
      exact hw

/-- the two outcomes of a block -/
theorem block_cases (st : State) (t : Int) :
    (∃ c', beginBlock { s := { st.core with now := t }, ctl := st.ctl } t = .ok c' ∧
        (step st (.block t)).1.res = .ok ∧ (step st (.block t)).1.effs = c'.effs ∧
        (step st (.block t)).2.core = c'.s) ∨
    ((step st (.block t)).1.res ≠ .ok ∧ (step st (.block t)).2.core = { st.core with now := t }) := by
  have hstep : step st (.block t) =
      runAtomic { st with core := { st.core with now := t } } false (fun c => beginBlock c t) := rfl
  rw [hstep]
  rcases runAtomic_cases { st with core := { st.core with now := t } } false (fun c => beginBlock c t) with
    ⟨c, hc, hr⟩ | ⟨e, _, hr, hne⟩
  · exact Or.inl ⟨c, hc, by rw [hr], by rw [hr], by rw [hr]⟩
  · exact Or.inr ⟨hne, by rw [hr]⟩

/-- decomposition of a successful block of the step function around index `i` -/
theorem block_inv (st : State) (t : Int) (hok : (step st (.block t)).1.res = .ok) (i : Nat) (v : AView)
    (hv : st.core.views[i]? = some v) :
    ∃ c1 c2 pre seg post, blockStep c1 i = .ok c2 ∧ c1.s.views[i]? = some v ∧ c1.s.now = t ∧
      (step st (.block t)).2.core.views[i]? = c2.s.views[i]? ∧ c2.effs = c1.effs ++ seg ∧
      (step st (.block t)).1.effs = pre ++ seg ++ post ∧
      (∀ x ∈ xf pre ++ xf post, ∃ j w, j ≠ i ∧ st.core.views[j]? = some w ∧ SrcOK j w.a.id x.src) := by
  rcases block_cases st t with ⟨c', hb, _, he, hc⟩ | ⟨hne, _⟩
  · obtain ⟨c1, c2, pre, seg, post, h1, h2, h3, h4, h5, h6, h7⟩ := beginBlock_inv hb i v hv
    refine ⟨c1, c2, pre, seg, post, h1, h2, h3, by rw [hc]; exact h4, h5, ?_, h7⟩
    rw [he, h6]; simp
  · exact absurd hok hne

end Fundraising.ProgressInv
