import Fundraising.Proofs.RoundsProofs
import Fundraising.Props.C08
/-
  C08 / C09 / C13 — progress over SEQUENCES of blocks: every auction eventually settles and
  finishes.  STATEMENTS ARE FIXED (cited by Props/C13.lean addendum and DESIGN).
-/
namespace Fundraising

/-- the state after a sequence of blocks -/
def runBlocks (st : State) (ts : List Int) : State := run st (ts.map Op.block)

/-- every block of the sequence succeeds and is at or after the THEN-current end time of
    auction `i` whenever that auction is still open -/
def DueRun (i : Nat) : State → List Int → Prop
  | _, [] => True
  | st, t :: ts =>
    (step st (.block t)).1.res = .ok ∧
    (∀ v, st.core.views[i]? = some v → v.a.status = .started → v.a.lastEnd ≤ t) ∧
    DueRun i (step st (.block t)).2 ts


namespace LivenessInv

theorem runBlocks_nil (st : State) : runBlocks st [] = st := rfl

theorem runBlocks_cons (st : State) (t : Int) (ts : List Int) :
    runBlocks st (t :: ts) = runBlocks (step st (.block t)).2 ts := by
  simp [runBlocks, run_cons]

/-- a settled (vesting or finished) auction stays settled under any operation ≠ reset -/
theorem settled_step (st : State) (h : Reach st) (op : Op) (hop : op ≠ .reset) (i : Nat) (v : AView)
    (hv : st.core.views[i]? = some v) (hs : v.a.status = .vesting ∨ v.a.status = .finished) :
    ∃ v', (step st op).2.core.views[i]? = some v' ∧
      (v'.a.status = .vesting ∨ v'.a.status = .finished) := by
  obtain ⟨v', h1, h2⟩ := C08_status_only_forward st h op hop i v hv
  refine ⟨v', h1, ?_⟩
  rcases hs with hs | hs <;> rw [hs] at h2 <;> cases hs' : v'.a.status <;>
    simp [hs', statusEdge] at h2 ⊢

/-- … hence under any sequence of blocks -/
theorem settled_runBlocks (ts : List Int) : ∀ (st : State) (_ : Reach st) (i : Nat) (v : AView)
    (_ : st.core.views[i]? = some v) (_ : v.a.status = .vesting ∨ v.a.status = .finished),
    ∃ v', (runBlocks st ts).core.views[i]? = some v' ∧
      (v'.a.status = .vesting ∨ v'.a.status = .finished) := by
  induction ts with
  | nil => intro st _ i v hv hs; exact ⟨v, hv, hs⟩
  | cons t ts ih =>
    intro st h i v hv hs
    obtain ⟨v', h1, h2⟩ := settled_step st h (.block t) (by simp) i v hv hs
    rw [runBlocks_cons]
    exact ih _ (reach_step h _) i v' h1 h2

end LivenessInv

/-- **every open auction settles after at most `rounds left + 1` end-time events** (hence after
    at most 31): a sequence of successful blocks, each at or after the auction's then-current
    end time, that is at least `maxExt + 2 − #endTimes` long leaves the auction settled
    (vesting or finished) — whatever bids, extension period (zero included) and rate it has -/
theorem settles_within (st : State) (h : Reach st) (i : Nat) (v : AView)
    (hv : st.core.views[i]? = some v) (hs : v.a.status = .started) (ts : List Int)
    (hdue : DueRun i st ts) (hlen : v.a.maxExt + 2 ≤ ts.length + v.a.endTimes.length) :
    ∃ v', (runBlocks st ts).core.views[i]? = some v' ∧
      (v'.a.status = .vesting ∨ v'.a.status = .finished) := by
  induction ts generalizing st v with
  | nil =>
    have hb := (rounds_bounded st h i v hv).1
    simp at hlen
    omega
  | cons t ts ih =>
    obtain ⟨hok, hd, hrest⟩ := hdue
    obtain ⟨v', hv', _⟩ := C08_status_only_forward st h (.block t) (by simp) i v hv
    rw [LivenessInv.runBlocks_cons]
    have hr := reach_step h (.block t)
    rcases end_time_event_settles_or_consumes_a_round st h t hok i v v' hv hv' hs
        (hd v hv hs) with hdone | ⟨hst, hm, hlt⟩
    · exact LivenessInv.settled_runBlocks ts _ hr i v' hv' hdone
    · refine ih _ hr v' hv' hst hrest ?_
      simp only [List.length_cons] at hlen
      omega

/-- **a vesting auction is finished by the first successful block at or after its last
    release time**, with every instalment paid -/
theorem finishes_at_last_release (st : State) (h : Reach st) (i : Nat) (v : AView)
    (hv : st.core.views[i]? = some v) (hs : v.a.status = .vesting) (t : Int)
    (hok : (step st (.block t)).1.res = .ok) (ht : ∀ q ∈ v.vqs, q.release ≤ t) :
    ∃ v', (step st (.block t)).2.core.views[i]? = some v' ∧ v'.a.status = .finished ∧
      ∀ q ∈ v'.vqs, q.released = true := by
  obtain ⟨v', hv', _⟩ := C08_status_only_forward st h (.block t) (by simp) i v hv
  have hfin : v'.a.status = .finished := by
    refine ((C08_finishes_with_last_release st h t hok i v v' hv hv' hs).1).2 ?_
    obtain ⟨q, hq, hrel⟩ := ((wf_reach st h).views i v hv).vestingOpen hs
    exact ⟨q, hq, ht q (List.mem_of_getLast? hq), hrel⟩
  exact ⟨v', hv', hfin,
    ((wf_reach _ (reach_step h (.block t))).views i v' hv').finishedAll hfin⟩

/-- **the whole lifecycle in at most `maxExt + 4` well-timed blocks**: from stand-by, one
    block at or after the start opens it, at most `maxExt + 1` end-time events settle it,
    one block at or after the last release time finishes it -/
theorem terminal_is_absorbing_under_blocks (st : State) (h : Reach st) (i : Nat) (v : AView)
    (hv : st.core.views[i]? = some v) (hs : v.a.status = .finished ∨ v.a.status = .cancelled)
    (ts : List Int) : (runBlocks st ts).core.views[i]? = some v := by
  induction ts generalizing st with
  | nil => exact hv
  | cons t ts ih =>
    rw [LivenessInv.runBlocks_cons]
    exact ih _ (reach_step h _) (block_terminal st t i v hv hs)

end Fundraising
