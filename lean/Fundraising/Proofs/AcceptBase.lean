import Fundraising.Spec.Accept
import Fundraising.Proofs.ExecLemmas
import Fundraising.Proofs.DecLemmas
/-
  C18 infrastructure: inversion of `do` blocks in `Except`, construction of successful
  runs, the transaction boundary, arithmetic of the reservation amounts.
  (Names live in `Fundraising.AcceptAux` so that they cannot clash with the plumbing of the
  other proof files.)
-/
set_option linter.unusedSimpArgs false
set_option linter.unusedVariables false
namespace Fundraising
namespace AcceptAux

/-! ### `Except` plumbing -/

theorem bind_ok {ε α β : Type} {x : Except ε α} {f : α → Except ε β} {b : β} :
    (x >>= f) = Except.ok b ↔ ∃ a, x = .ok a ∧ f a = .ok b := by
  cases x with
  | error e => simp [bind, Except.bind]
  | ok a => simp [bind, Except.bind]

/-- running past a successful statement -/
theorem bind_of_ok {ε α β : Type} {x : Except ε α} {f : α → Except ε β} {a : α}
    (h : x = .ok a) : (x >>= f) = f a := by
  subst h; rfl

theorem pure_ok {ε α : Type} {a b : α} : (pure a : Except ε α) = Except.ok b ↔ a = b := by
  simp [pure, Except.pure]

theorem fail_ok {α : Type} {c : Ctx} {e : Err} {b : α} : (c.fail e : M α) = Except.ok b ↔ False := by
  simp [Ctx.fail]

theorem check_ok {c : Ctx} {b : Bool} {u : Unit} : c.check b = Except.ok u ↔ b = true :=
  check_ok_iff

theorem check_of {c : Ctx} {b : Bool} (h : b = true) : c.check b = .ok () :=
  check_ok_iff.mpr h

theorem status_of_beq {a b : Status} (h : (a == b) = true) : a = b := by
  simpa using h

theorem atype_of_beq {a b : AType} (h : (a == b) = true) : a = b := by
  simpa using h

/-! ### the transaction boundary -/

/-- the context a delivered message starts in -/
def ctx0 (st : State) : Ctx := { s := st.core, ctl := st.ctl }

theorem step_msg_ok_iff (st : State) (m : Msg) :
    (step st (.msg m)).1.res = .ok ↔ ∃ c', deliver (ctx0 st) m = .ok c' := by
  show (runAtomic st true (fun c => deliver c m)).1.res = .ok ↔ _
  rcases runAtomic_cases st true (fun c => deliver c m) with ⟨c, h1, h2⟩ | ⟨e, h1, _, h3⟩
  · rw [h2]
    exact ⟨fun _ => ⟨c, h1⟩, fun _ => rfl⟩
  · constructor
    · intro h; exact absurd h h3
    · rintro ⟨c', hc'⟩
      have : deliver (ctx0 st) m = .error e := h1
      rw [this] at hc'; cases hc'

theorem step_msg_core (st : State) (m : Msg) {c' : Ctx} (h : deliver (ctx0 st) m = .ok c') :
    (step st (.msg m)).2.core = c'.s := by
  show (runAtomic st true (fun c => deliver c m)).2.core = _
  rcases runAtomic_cases st true (fun c => deliver c m) with ⟨c, h1, h2⟩ | ⟨e, h1, _, _⟩
  · have : deliver (ctx0 st) m = .ok c := h1
    rw [this] at h
    cases h
    rw [h2]
  · have : deliver (ctx0 st) m = .error e := h1
    rw [this] at h; cases h

/-- with no vetoing listener a hook statement is passed, and it only logs -/
theorem exists_hook_bind {X : Ctx} {n : String} {a : List String} {f : Ctx → M Ctx}
    (hf : X.ctl.failhook = none)
    (h : ∀ c1 : Ctx, c1.s = X.s → c1.ctl = X.ctl → ∃ c', f c1 = .ok c') :
    ∃ c', (X.hook n a >>= f) = .ok c' := by
  obtain ⟨c1, hc1⟩ := hook_of_no_fail X n a hf
  obtain ⟨h1, h2, _⟩ := hook_ok hc1
  rw [bind_of_ok hc1]
  exact h c1 h1 h2

/-! ### bank -/

theorem move_zero (b : Bank) (src dst : Addr) (d : Denom) : b.move src dst d 0 = b := by
  funext a d'
  simp [Bank.move]

/-- sending the coins `NewCoins(NewCoin(d, amt))` of a positive amount succeeds exactly when
    the balance covers the amount -/
theorem send_pos_iff (b : Bank) (src dst : Addr) (d : Denom) (amt : Int) :
    (∃ b', b.sendCoins src dst [⟨d, amt⟩] = some b') ↔ amt ≤ b src d := by
  rw [sendCoins_single]
  by_cases h : b src d < amt
  · simp [h]
  · simp [h]; omega

/-- a successful reservation of a positive amount: the balance covered it -/
theorem reserve_inv {c0 c1 c2 : Ctx} {k : XKind} {src dst : Addr} {d : Denom} {amt : Int}
    {coins : List Coin} (hpos : 0 < amt) (hmk : mkCoins c0 d amt = .ok coins)
    (hbc : c1.bankCall k src dst coins = .ok c2) : amt ≤ c1.s.bank src d := by
  obtain ⟨_, hcoins⟩ := mkCoins_ok hmk
  rw [if_neg (by omega)] at hcoins
  subst hcoins
  obtain ⟨_, b2, hb2, _⟩ := bankCall_ok hbc
  exact (send_pos_iff _ _ _ _ _).mp ⟨b2, hb2⟩

/-- a reservation of a positive amount that the balance covers goes through -/
theorem exists_reserve_bind {α : Type} {c1 : Ctx} {k : XKind} {src dst : Addr} {d : Denom} {amt : Int}
    {f : Ctx → M α} (hk : c1.ctl.fault = none) (hpos : 0 < amt) (hcov : amt ≤ c1.s.bank src d)
    (h : ∀ c2 : Ctx, c2.ctl = c1.ctl → c2.s.views = c1.s.views → ∃ r, f c2 = .ok r) :
    ∃ r, (mkCoins c1 d amt >>= fun coins => c1.bankCall k src dst coins >>= f) = .ok r := by
  have hmk := mkCoins_of_nonneg c1 d amt (Int.le_of_lt hpos)
  rw [if_neg (by omega)] at hmk
  rw [bind_of_ok hmk]
  obtain ⟨b2, hb2⟩ := (send_pos_iff c1.s.bank src dst d amt).mpr hcov
  rw [bind_of_ok (bankCall_of_send (by rw [hk]; simp) hb2)]
  exact h _ rfl rfl

/-- a successful transfer of one coin -/
theorem send_single_inv {c c1 : Ctx} {k : XKind} {src dst : Addr} {d : Denom} {amt : Int}
    (h : c.bankCall k src dst [⟨d, amt⟩] = .ok c1) :
    amt ≤ c.s.bank src d ∧ c1.s = { c.s with bank := c.s.bank.move src dst d amt } := by
  obtain ⟨_, b, hb, rfl⟩ := bankCall_ok h
  have hcov := (send_pos_iff _ _ _ _ _).mp ⟨b, hb⟩
  rw [sendCoins_single, if_neg (by omega)] at hb
  cases hb
  exact ⟨hcov, rfl⟩

theorem exists_send_single {c : Ctx} (k : XKind) {src : Addr} (dst : Addr) {d : Denom} {amt : Int}
    (hk : c.ctl.fault = none) (hcov : amt ≤ c.s.bank src d) :
    ∃ c1, c.bankCall k src dst [⟨d, amt⟩] = .ok c1 ∧ c1.ctl = c.ctl := by
  obtain ⟨b2, hb2⟩ := (send_pos_iff c.s.bank src dst d amt).mpr hcov
  exact ⟨_, bankCall_of_send (by rw [hk]; simp) hb2, rfl⟩

/-! ### reservation arithmetic -/

theorem ceil_mul (x : Dec) : ∃ k, Dec.ceil x = k * PREC := by
  unfold Dec.ceil
  simp only
  split
  · exact ⟨_, rfl⟩
  · split <;> exact ⟨_, rfl⟩

/-- `Ceil` values are whole numbers, so `TruncateInt` distributes over their difference -/
theorem truncInt_ceil_sub (x y : Dec) :
    Dec.truncInt (Dec.ceil x - Dec.ceil y) = Dec.truncInt (Dec.ceil x) - Dec.truncInt (Dec.ceil y) := by
  obtain ⟨a, ha⟩ := ceil_mul x
  obtain ⟨b, hb⟩ := ceil_mul y
  rw [ha, hb]
  unfold Dec.truncInt
  rw [← Int.sub_mul, Int.mul_tdiv_cancel _ (by decide), Int.mul_tdiv_cancel _ (by decide),
    Int.mul_tdiv_cancel _ (by decide)]

/-- `⌈a·p/10^18⌉` for non-negative operands -/
theorem sellPay (a : Int) (p : Dec) (ha : 0 ≤ a) (hp : 0 ≤ p) :
    Dec.truncInt (Dec.ceil (Dec.mul (Dec.ofInt a) p)) = (a * p + (PREC - 1)) / PREC := by
  rw [Dec.mul_ofInt _ _ ha hp]
  exact Dec.truncInt_ceil _ (Int.mul_nonneg ha hp)

theorem sellPay_pos (a : Int) (p : Dec) (ha : 0 < a) (hp : 0 < p) :
    0 < Dec.truncInt (Dec.ceil (Dec.mul (Dec.ofInt a) p)) := by
  rw [sellPay a p (Int.le_of_lt ha) (Int.le_of_lt hp)]
  have h : 0 < a * p := Int.mul_pos ha hp
  generalize a * p = x at h
  unfold PREC; omega

theorem sellPay_mono (a a' : Int) (p p' : Dec) (ha : 0 ≤ a) (hp : 0 ≤ p) (haa : a ≤ a') (hpp : p ≤ p') :
    Dec.truncInt (Dec.ceil (Dec.mul (Dec.ofInt a) p)) ≤
      Dec.truncInt (Dec.ceil (Dec.mul (Dec.ofInt a') p')) := by
  have ha' : 0 ≤ a' := Int.le_trans ha haa
  have hp' : 0 ≤ p' := Int.le_trans hp hpp
  rw [sellPay a p ha hp, sellPay a' p' ha' hp']
  have h : a * p ≤ a' * p' := Int.mul_le_mul haa hpp hp ha'
  generalize a * p = x at h
  generalize a' * p' = y at h
  unfold PREC; omega

/-- the reservation of a bid with positive amount and price is positive -/
theorem toPaying_pos (b : Bid) (pd : Denom) (ha : 0 < b.amt) (hp : 0 < b.price) : 0 < b.toPaying pd := by
  unfold Bid.toPaying
  split
  · exact ha
  · exact sellPay_pos _ _ ha hp

end AcceptAux
end Fundraising
