import Fundraising.Proofs.WFBasic
/-
  `placeBid` and `modifyBid` preserve `WF` and `BankNonneg`.
-/
namespace Fundraising.WFInv

theorem BidWF.setRemaining {a : Auction} {al : List Allowed} {b : Bid} (h : BidWF a al b) (r : Int) :
    BidWF { a with remaining := r } al b :=
  ⟨h.auction, h.bidder, h.price, h.amt, h.listed, h.fixed, h.batch, h.minBid⟩

theorem countMatched_append (l : List Bid) (b : Bid) (h : b.matched = false) :
    countMatched (l ++ [b]) = countMatched l := by
  simp [countMatched, List.filter_append, h]

theorem soldOf_append (v : AView) (a' : Auction) (b : Bid) (al : List Allowed) (q : List VQ)
    (ml : Int) (bs : Nat) (hp : a'.payDenom = v.a.payDenom) :
    soldOf { a := a', allowed := al, bids := v.bids ++ [b], vqs := q, matchedLen := ml, bidSeq := bs } =
      soldOf v + b.toSelling v.a.payDenom := by
  simp [soldOf, hp]

/-- the view after a recorded bid -/
theorem placeBid_view {aid : Nat} {v : AView} {r' : Int} {bid : Bid} (V : ViewWF aid v)
    (hst : v.a.status = .started) (hb : BidWF v.a v.allowed bid) (hid : bid.id = v.bidSeq + 1)
    (hm : v.a.type = .batch → bid.matched = false)
    (hr : v.a.type = .fixed → r' = v.a.remaining - bid.toSelling v.a.payDenom ∧ 0 ≤ r') :
    ViewWF aid { v with a := { v.a with remaining := r' }, bids := v.bids ++ [bid],
                        bidSeq := v.bidSeq + 1 } := by
  exact {
    id := V.id
    auction := { V.auction with }
    bids := by
      intro b hbm
      rcases List.mem_append.mp hbm with hbm | hbm
      · exact BidWF.setRemaining (V.bids b hbm) r'
      · simp at hbm; subst hbm; exact BidWF.setRemaining hb r'
    bidIds := by
      show (v.bids ++ [bid]).map (·.id) = (List.range (v.bids ++ [bid]).length).map (· + 1)
      rw [List.map_append, V.bidIds, List.length_append, List.length_singleton, List.range_succ,
        List.map_append]
      simp [hid, V.bidSeq]
    bidSeq := by
      show v.bidSeq + 1 = (v.bids ++ [bid]).length
      rw [List.length_append, List.length_singleton, V.bidSeq]
    caps := V.caps
    allowedSorted := V.allowedSorted
    noBidsBefore := by
      intro (h : v.a.status = .standby ∨ v.a.status = .cancelled)
      rw [hst] at h; simp at h
    matchedLenBatch := by
      intro (ht : v.a.type = .batch)
      show v.matchedLen = countMatched (v.bids ++ [bid])
      rw [countMatched_append _ _ (hm ht)]
      exact V.matchedLenBatch ht
    matchedLenFixed := V.matchedLenFixed
    remaining := by
      intro (ht : v.a.type = .fixed) _
      obtain ⟨h1, h2⟩ := hr ht
      obtain ⟨h3, _⟩ := V.remaining ht (Or.inr hst)
      refine ⟨?_, h2⟩
      have e := soldOf_append v { v.a with remaining := r' } bid v.allowed v.vqs v.matchedLen
        (v.bidSeq + 1) rfl
      have g : r' = v.a.sellAmt - (soldOf v + bid.toSelling v.a.payDenom) := by omega
      exact Eq.trans g (congrArg (fun t => v.a.sellAmt - t) e.symm)
    vqsNone := V.vqsNone
    vqsSome := V.vqsSome
    vqsWF := V.vqsWF
    releasedPrefix := V.releasedPrefix
    vestingOpen := V.vestingOpen
    finishedAll := V.finishedAll }

theorem toSelling_matched (b : Bid) (m : Bool) (pd : Denom) :
    ({ b with matched := m } : Bid).toSelling pd = b.toSelling pd := rfl

theorem placeBid_wf {c c' : Ctx} {bidder : Acc} {aid : Nat} {t : BidType} {price : Dec}
    {denom : Denom} {amt : Int}
    (h : placeBid c bidder aid t price denom amt = .ok c')
    (hacc : validAcc bidder = true) (hprice : 0 < price) (hamt : 0 < amt) (hw : WF c.s) :
    WF c'.s ∧ (BankNonneg c.s → BankNonneg c'.s) := by
  unfold placeBid at h
  simp only [bind_ok] at h
  obtain ⟨v, hv, _, hc1, _, hc2, h⟩ := h
  rw [view_ok_iff] at hv
  rw [check_ok_iff] at hc1 hc2
  have V := hw.views aid v hv
  have hst : v.a.status = .started := by simpa using hc1
  simp only [Bool.or_eq_true, bne_iff_ne, ne_eq, Bool.not_eq_true', decide_eq_false_iff_not] at hc2
  cases hl : lookupAllowed v.allowed bidder with
  | none =>
    simp only [hl, bind_ok, fail_ne_ok, false_and, exists_false] at h
  | some ab =>
    simp only [hl, bind_ok, pure_ok, exists_eq_left'] at h
    obtain ⟨c1, hb1, ⟨c2, a', bid⟩, hm, c3, hh, rfl⟩ := h
    obtain ⟨f1, _, n1⟩ := bankCall_frame hb1
    have hlisted : (lookupAllowed v.allowed bidder).isSome = true := by rw [hl]; rfl
    have hminBid : v.a.type = .batch → v.a.minBid ≤ price := by
      intro ht
      rcases hc2 with h | h
      · exact absurd ht h
      · exact Int.not_lt.mp h
    cases t with
    | fixed =>
      simp only [bind_ok, pure_ok] at hm
      obtain ⟨_, k1, _, k2, _, k3, _, k4, _, k5, coins, hmk, c2', hb2, hm⟩ := hm
      simp only [Prod.mk.injEq] at hm
      obtain ⟨rfl, rfl, rfl⟩ := hm
      dsimp only at hh ⊢
      obtain ⟨f3, _, n3⟩ := hook_frame hh
      rw [check_ok_iff] at k1 k2 k3 k4 k5
      have ht : v.a.type = .fixed := by simpa using k1
      simp only [Bool.or_eq_true, beq_iff_eq, Bool.not_eq_true', decide_eq_false_iff_not] at k2 k3 k4
      obtain ⟨f2, _, n2⟩ := bankCall_frame hb2
      have f := (f1.trans f2).trans f3
      refine ⟨WF.ctx_setView (WF.frame f hw) aid _ ?_,
        fun hn => n3 (n2 (mkCoins_nonneg hmk) (n1 (validCoins_pos hw.params.2) hn))⟩
      refine placeBid_view V hst ?_ rfl ?_ ?_
      · exact {
          auction := V.id.symm
          bidder := hacc
          price := hprice
          amt := hamt
          listed := hlisted
          fixed := fun _ => ⟨rfl, k3, k2⟩
          batch := by intro hb; rw [ht] at hb; cases hb
          minBid := by intro hb; rw [ht] at hb; cases hb }
      · intro hb; rw [ht] at hb; cases hb
      · intro _
        exact ⟨rfl, by omega⟩
    | worth =>
      simp only [bind_ok, pure_ok] at hm
      obtain ⟨_, k1, _, k2, _, k3, coins, hmk, c2', hb2, hm⟩ := hm
      simp only [Prod.mk.injEq] at hm
      obtain ⟨rfl, rfl, rfl⟩ := hm
      dsimp only at hh ⊢
      obtain ⟨f3, _, n3⟩ := hook_frame hh
      rw [check_ok_iff] at k1 k2 k3
      have ht : v.a.type = .batch := by simpa using k1
      simp only [beq_iff_eq] at k2
      obtain ⟨f2, _, n2⟩ := bankCall_frame hb2
      have f := (f1.trans f2).trans f3
      refine ⟨WF.ctx_setView (WF.frame f hw) aid _ ?_,
        fun hn => n3 (n2 (mkCoins_nonneg hmk) (n1 (validCoins_pos hw.params.2) hn))⟩
      refine placeBid_view (r' := v.a.remaining) V hst ?_ rfl (fun _ => rfl) ?_
      · exact {
          auction := V.id.symm
          bidder := hacc
          price := hprice
          amt := hamt
          listed := hlisted
          fixed := by intro hb; rw [ht] at hb; cases hb
          batch := fun _ => Or.inl ⟨rfl, k2⟩
          minBid := hminBid }
      · intro hb; rw [ht] at hb; cases hb
    | many =>
      simp only [bind_ok, pure_ok] at hm
      obtain ⟨_, k1, _, k2, _, k3, coins, hmk, c2', hb2, hm⟩ := hm
      simp only [Prod.mk.injEq] at hm
      obtain ⟨rfl, rfl, rfl⟩ := hm
      dsimp only at hh ⊢
      obtain ⟨f3, _, n3⟩ := hook_frame hh
      rw [check_ok_iff] at k1 k2 k3
      have ht : v.a.type = .batch := by simpa using k1
      simp only [beq_iff_eq] at k2
      obtain ⟨f2, _, n2⟩ := bankCall_frame hb2
      have f := (f1.trans f2).trans f3
      refine ⟨WF.ctx_setView (WF.frame f hw) aid _ ?_,
        fun hn => n3 (n2 (mkCoins_nonneg hmk) (n1 (validCoins_pos hw.params.2) hn))⟩
      refine placeBid_view (r' := v.a.remaining) V hst ?_ rfl (fun _ => rfl) ?_
      · exact {
          auction := V.id.symm
          bidder := hacc
          price := hprice
          amt := hamt
          listed := hlisted
          fixed := by intro hb; rw [ht] at hb; cases hb
          batch := fun _ => Or.inr ⟨rfl, k2⟩
          minBid := hminBid }
      · intro hb; rw [ht] at hb; cases hb

/-! ### ModifyBid -/

theorem bidIds_at {l : List Bid} (h : l.map (·.id) = (List.range l.length).map (· + 1))
    {i : Nat} {b : Bid} (hb : l[i]? = some b) : b.id = i + 1 := by
  have h1 : (l.map (·.id))[i]? = some b.id := by simp [hb]
  rw [h] at h1
  have hi : i < l.length := by
    rcases Nat.lt_or_ge i l.length with h | h
    · exact h
    · rw [List.getElem?_eq_none h] at hb; cases hb
  simp [hi] at h1
  omega

theorem bidIds_inj {l : List Bid} (h : l.map (·.id) = (List.range l.length).map (· + 1))
    {a b : Bid} (ha : a ∈ l) (hb : b ∈ l) (e : a.id = b.id) : a = b := by
  obtain ⟨i, hi⟩ := List.getElem?_of_mem ha
  obtain ⟨j, hj⟩ := List.getElem?_of_mem hb
  have h1 := bidIds_at h hi
  have h2 := bidIds_at h hj
  have : i = j := by omega
  subst this
  rw [hi] at hj
  exact Option.some.inj hj

theorem modifyBid_view {aid : Nat} {v : AView} {bid : Bid} {bidId : Nat} {price : Dec} {amt : Int}
    (V : ViewWF aid v) (hbid : bid ∈ v.bids) (hid : bid.id = bidId) (ht : v.a.type = .batch)
    (hprice : 0 < price) (hamt : 0 < amt) (hmin : v.a.minBid ≤ price) :
    ViewWF aid { v with
      bids := v.bids.map (fun b => if b.id == bidId then { bid with price := price, amt := amt } else b) } := by
  have B := V.bids bid hbid
  have hf_id : ∀ b : Bid, (if b.id == bidId then { bid with price := price, amt := amt } else b).id = b.id := by
    intro b
    by_cases e : b.id = bidId
    · simp [e, hid]
    · simp [e]
  have hf_m : ∀ b ∈ v.bids,
      (if b.id == bidId then { bid with price := price, amt := amt } else b).matched = b.matched := by
    intro b hb
    by_cases e : b.id = bidId
    · have : b = bid := bidIds_inj V.bidIds hb hbid (by rw [e, hid])
      subst this
      simp [e]
    · simp [e]
  exact {
    id := V.id
    auction := V.auction
    bids := by
      intro b' hb'
      obtain ⟨b, hb, rfl⟩ := List.mem_map.mp hb'
      by_cases e : b.id = bidId
      · simp only [e, beq_self_eq_true, if_true]
        exact {
          auction := B.auction
          bidder := B.bidder
          price := hprice
          amt := hamt
          listed := B.listed
          fixed := by intro hb; rw [ht] at hb; cases hb
          batch := B.batch
          minBid := fun _ => hmin }
      · have : (b.id == bidId) = false := by simpa using e
        simp only [this]
        exact V.bids b hb
    bidIds := by
      show (v.bids.map _).map (fun b : Bid => b.id) = (List.range (v.bids.map _).length).map (· + 1)
      rw [List.length_map, ← V.bidIds, List.map_map]
      apply List.map_congr_left
      intro b _
      exact hf_id b
    bidSeq := by
      show v.bidSeq = (v.bids.map _).length
      rw [List.length_map]; exact V.bidSeq
    caps := V.caps
    allowedSorted := V.allowedSorted
    noBidsBefore := by
      intro h
      have := V.noBidsBefore h
      show v.bids.map _ = []
      rw [this]; rfl
    matchedLenBatch := by
      intro h
      show v.matchedLen = countMatched (v.bids.map _)
      rw [V.matchedLenBatch h]
      unfold countMatched
      rw [List.filter_map, List.length_map]
      congr 2
      apply List.filter_congr
      intro b hb
      exact (hf_m b hb).symm
    matchedLenFixed := V.matchedLenFixed
    remaining := by intro (h : v.a.type = .fixed); rw [ht] at h; cases h
    vqsNone := V.vqsNone
    vqsSome := V.vqsSome
    vqsWF := V.vqsWF
    releasedPrefix := V.releasedPrefix
    vestingOpen := V.vestingOpen
    finishedAll := V.finishedAll }

theorem modifyBid_wf {c c' : Ctx} {bidder : Acc} {aid bidId : Nat} {price : Dec}
    {denom : Denom} {amt : Int}
    (h : modifyBid c bidder aid bidId price denom amt = .ok c')
    (hprice : 0 < price) (hamt : 0 < amt) (hw : WF c.s) :
    WF c'.s ∧ (BankNonneg c.s → BankNonneg c'.s) := by
  unfold modifyBid at h
  simp only [bind_ok] at h
  obtain ⟨v, hv, _, hc1, _, hc2, h⟩ := h
  rw [view_ok_iff] at hv
  rw [check_ok_iff] at hc1 hc2
  have V := hw.views aid v hv
  have ht : v.a.type = .batch := by simpa using hc2
  cases hl : v.bids.find? (·.id == bidId) with
  | none =>
    simp only [hl, bind_ok, fail_ne_ok, false_and, exists_false] at h
  | some bid =>
    simp only [hl, bind_ok, pure_ok, exists_eq_left'] at h
    obtain ⟨_, k1, _, k2, _, k3, _, k4, _, k5, c1, hm, c2, hh, rfl⟩ := h
    rw [check_ok_iff] at k1 k2 k3 k4 k5
    simp only [Bool.not_eq_true', decide_eq_false_iff_not] at k2
    have hbid : bid ∈ v.bids := List.mem_of_find?_eq_some hl
    have hid : bid.id = bidId := by simpa using List.find?_some hl
    obtain ⟨f3, _, n3⟩ := hook_frame hh
    have key : Frame c.s c1.s ∧ (BankNonneg c.s → BankNonneg c1.s) := by
      cases hbt : bid.type with
      | worth =>
        simp only [hbt] at hm
        split at hm
        · obtain ⟨f, _, n⟩ := bankCall_frame hm
          exact ⟨f, n (by intro x hx; simp at hx; subst hx; exact Int.le_of_lt (by assumption))⟩
        · rw [pure_ok] at hm; subst hm; exact ⟨Frame.refl _, id⟩
      | many =>
        simp only [hbt] at hm
        split at hm
        · simp only [fail_ne_ok] at hm
        · split at hm
          · obtain ⟨f, _, n⟩ := bankCall_frame hm
            exact ⟨f, n (by intro x hx; simp at hx; subst hx; exact Int.le_of_lt (by assumption))⟩
          · rw [pure_ok] at hm; subst hm; exact ⟨Frame.refl _, id⟩
      | fixed =>
        simp only [hbt] at hm
        rw [pure_ok] at hm; subst hm; exact ⟨Frame.refl _, id⟩
    obtain ⟨f1, n1⟩ := key
    refine ⟨WF.ctx_setView (WF.frame (f1.trans f3) hw) aid _ ?_, fun hn => n3 (n1 hn)⟩
    exact modifyBid_view V hbid hid ht hprice hamt (Int.not_lt.mp k2)

end Fundraising.WFInv
