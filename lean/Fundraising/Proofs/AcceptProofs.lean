import Fundraising.Spec.Accept
import Fundraising.Proofs.ExecLemmas
import Fundraising.Proofs.DecLemmas
import Fundraising.Proofs.AcceptBase
import Fundraising.Proofs.AcceptCreate
import Fundraising.Proofs.AcceptSmall
import Fundraising.Proofs.AcceptPlace
import Fundraising.Proofs.AcceptModify
/-
  C18 (and the acceptance halves of C06, C11, C12): a message is accepted exactly when its
  documented preconditions hold; a rejected message changes nothing.
  STATEMENTS ARE FIXED (cited by Props/C18.lean, C06, C11, C12).
-/
namespace Fundraising

open AcceptAux in
/-- **accepted exactly under the documented preconditions** — in every well-formed state,
    with no injected fault and no vetoing listener -/
theorem deliver_ok_iff (st : State) (m : Msg) (hwf : WF st.core) (hnn : BankNonneg st.core)
    (hf : st.ctl.failhook = none) (hk : st.ctl.fault = none) :
    (step st (.msg m)).1.res = .ok ↔ Accept st.core m := by
  rw [step_msg_ok_iff]
  have hwf' : WF (ctx0 st).s := hwf
  have hnn' : BankNonneg (ctx0 st).s := hnn
  have hf' : (ctx0 st).ctl.failhook = none := hf
  have hk' : (ctx0 st).ctl.fault = none := hk
  cases m with
  | create m =>
    exact ⟨fun ⟨_, h⟩ => create_accept_of_ok h, fun ha => create_ok_of_accept hf' hk' ha⟩
  | cancel signer aid =>
    exact ⟨fun ⟨_, h⟩ => cancel_accept_of_ok h, fun ha => cancel_ok_of_accept hnn' hf' hk' ha⟩
  | place bidder aid t price denom amt =>
    cases t with
    | none => exact ⟨fun ⟨_, h⟩ => place_none_not_ok h, fun ha => ha.elim⟩
    | some t =>
      exact ⟨fun ⟨_, h⟩ => place_accept_of_ok hwf' h, fun ha => place_ok_of_accept hwf' hf' hk' ha⟩
  | modify bidder aid bidId price denom amt =>
    exact ⟨fun ⟨_, h⟩ => modify_accept_of_ok hwf' hnn' h, fun ha => modify_ok_of_accept hwf' hf' hk' ha⟩
  | addAllowed aid ab =>
    exact ⟨fun ⟨_, h⟩ => addAllowed_not_ok hwf.switchOff h, fun ha => ha.elim⟩
  | updateParams signer p =>
    exact ⟨fun ⟨_, h⟩ => params_accept_of_ok h, fun ha => params_ok_of_accept ha⟩

/-- **a rejected message leaves all module state and all balances unchanged** (every
    operation kind that runs atomically, for any reason of failure incl. vetoes and faults) -/
theorem reject_unchanged (st : State) (op : Op)
    (hop : (∃ m, op = .msg m) ∨ (∃ a abs, op = .kadd a abs) ∨ (∃ a u c, op = .kupd a u c))
    (h : (step st op).1.res ≠ .ok) : (step st op).2.core = st.core := by
  have key : ∀ f : Ctx → M Ctx, (runAtomic st true f).1.res ≠ .ok →
      (runAtomic st true f).2.core = st.core := by
    intro f hne
    rcases runAtomic_cases st true f with ⟨c, _, h2⟩ | ⟨e, _, h2, _⟩
    · rw [h2] at hne; exact absurd rfl hne
    · rw [h2]
  rcases hop with ⟨m, rfl⟩ | ⟨a, abs, rfl⟩ | ⟨a, u, c, rfl⟩
  · exact key _ h
  · exact key _ h
  · exact key _ h

open AcceptAux in
/-- what an accepted cancel does (C12) -/
theorem cancel_effect (st : State) (signer : Acc) (aid : Nat) (v : AView)
    (hv : st.core.views[aid]? = some v)
    (h : (step st (.msg (.cancel signer aid))).1.res = .ok) :
    signer = v.a.auctioneer ∧ v.a.status = .standby ∧
    ∃ v', (step st (.msg (.cancel signer aid))).2.core.views[aid]? = some v' ∧
      v'.a.status = .cancelled ∧ (v.a.type = .fixed → v'.a.remaining = 0) ∧
      (step st (.msg (.cancel signer aid))).2.core.bank (.sell aid) v.a.sellDenom = 0 := by
  obtain ⟨c', hdel⟩ := (step_msg_ok_iff _ _).mp h
  rw [step_msg_core st _ hdel]
  obtain ⟨_, v0, hv0, h1, h2, hviews, hbank⟩ := cancel_inv hdel
  have hvv : v0 = v := Option.some.inj (hv0.symm.trans hv)
  subst hvv
  have hlt : aid < st.core.views.length := by
    have := (List.getElem?_eq_some_iff.mp hv).1
    exact this
  rw [hviews]
  refine ⟨h1.symm, h2, _, List.getElem?_set_self hlt, ?_, ?_, hbank⟩
  · rfl
  · intro hty
    simp [hty]

open AcceptAux in
/-- what an accepted modification charges (C11): exactly the increase of the required
    reservation, from the owner to the auction's paying escrow -/
theorem modify_effect (st : State) (bidder : Acc) (aid bidId : Nat) (price : Dec) (denom : Denom)
    (amt : Int) (v : AView) (b : Bid) (hwf : WF st.core)
    (hv : st.core.views[aid]? = some v) (hb : v.bids.find? (·.id == bidId) = some b)
    (h : (step st (.msg (.modify bidder aid bidId price denom amt))).1.res = .ok) :
    let st' := (step st (.msg (.modify bidder aid bidId price denom amt))).2
    let b' : Bid := { b with price := price, amt := amt }
    let diff := b'.toPaying v.a.payDenom - b.toPaying v.a.payDenom
    0 ≤ diff ∧
    st'.core.bank (.pay aid) v.a.payDenom = st.core.bank (.pay aid) v.a.payDenom + diff ∧
    st'.core.bank (.user bidder) v.a.payDenom = st.core.bank (.user bidder) v.a.payDenom - diff ∧
    ∃ v', st'.core.views[aid]? = some v' ∧ v'.bids = v.bids.map (fun x => if x.id == bidId then b' else x) := by
  obtain ⟨c', hdel⟩ := (step_msg_ok_iff _ _).mp h
  intro st' b' diff
  have hst' : st'.core = c'.s := step_msg_core st _ hdel
  have hwf' : WF (ctx0 st).s := hwf
  obtain ⟨_, v0, hv0, _, _, b0, hb0, _, _, _, _, _, _, D, hD, hD0, _, hbank, hviews⟩ := modify_inv hwf' hdel
  have hvv : v0 = v := Option.some.inj (hv0.symm.trans hv)
  subst hvv
  have hbb : b0 = b := Option.some.inj (hb0.symm.trans hb)
  subst hbb
  have hDd : D = diff := hD
  have hlt : aid < st.core.views.length := (List.getElem?_eq_some_iff.mp hv).1
  rw [hst', hbank, hviews, hDd]
  refine ⟨hDd ▸ hD0, ?_, ?_, _, List.getElem?_set_self hlt, rfl⟩
  · simp [move_apply, ctx0]
  · simp [move_apply, ctx0]

end Fundraising
