import Fundraising.Spec.Accept
import Fundraising.Proofs.ExecLemmas
import Fundraising.Proofs.DecLemmas
/-
  C18 (and the acceptance halves of C06, C11, C12): a message is accepted exactly when its
  documented preconditions hold; a rejected message changes nothing.
  STATEMENTS ARE FIXED (cited by Props/C18.lean, C06, C11, C12).
-/
namespace Fundraising

/-- **accepted exactly under the documented preconditions** — in every well-formed state,
    with no injected fault and no vetoing listener -/
theorem deliver_ok_iff (st : State) (m : Msg) (hwf : WF st.core) (hnn : BankNonneg st.core)
    (hf : st.ctl.failhook = none) (hk : st.ctl.fault = none) :
    (step st (.msg m)).1.res = .ok ↔ Accept st.core m := by
  sorry

/-- **a rejected message leaves all module state and all balances unchanged** (every
    operation kind that runs atomically, for any reason of failure incl. vetoes and faults) -/
theorem reject_unchanged (st : State) (op : Op)
    (hop : (∃ m, op = .msg m) ∨ (∃ a abs, op = .kadd a abs) ∨ (∃ a u c, op = .kupd a u c))
    (h : (step st op).1.res ≠ .ok) : (step st op).2.core = st.core := by
  sorry

/-- what an accepted cancel does (C12) -/
theorem cancel_effect (st : State) (signer : Acc) (aid : Nat) (v : AView)
    (hv : st.core.views[aid]? = some v)
    (h : (step st (.msg (.cancel signer aid))).1.res = .ok) :
    signer = v.a.auctioneer ∧ v.a.status = .standby ∧
    ∃ v', (step st (.msg (.cancel signer aid))).2.core.views[aid]? = some v' ∧
      v'.a.status = .cancelled ∧ (v.a.type = .fixed → v'.a.remaining = 0) ∧
      (step st (.msg (.cancel signer aid))).2.core.bank (.sell aid) v.a.sellDenom = 0 := by
  sorry

/-- what an accepted modification charges (C11): exactly the increase of the required
    reservation, from the owner to the auction's paying escrow -/
theorem modify_effect (st : State) (bidder : Acc) (aid bidId : Nat) (price : Dec) (denom : Denom)
    (amt : Int) (v : AView) (b : Bid) (hwf : WF st.core)
    (hv : st.core.views[aid]? = some v) (hb : v.bids.find? (·.id == bidId) = some b)
    (h : (step st (.msg (.modify bidder aid bidId price denom amt))).1.res = .ok) :
    let st' := (step st (.msg (.modify bidder aid bidId price denom amt))).2
    let b' : Bid := { b with price := price, amt := amt }
    let diff := b'.toPaying v.a.payDenom - b.toPaying v.a.payDenom
    0 ≤ diff ∧
    st'.core.bank (.pay aid) v.a.payDenom = st.core.bank (.pay aid) v.a.payDenom + diff ∧
    st'.core.bank (.user bidder) v.a.payDenom = st.core.bank (.user bidder) v.a.payDenom - diff ∧
    ∃ v', st'.core.views[aid]? = some v' ∧ v'.bids = v.bids.map (fun x => if x.id == bidId then b' else x) := by
  sorry

end Fundraising
