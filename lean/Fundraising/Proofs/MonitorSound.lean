import Fundraising.Monitor.Checks
import Fundraising.Spec.Invariants
/-
  The monitors' Bool / list-valued checkers (Monitor/Checks.lean) are tied to the `Prop`s of
  Spec/Invariants.lean and Spec/Clearing.lean: "what is watched on the real code" is "what the
  theorems are about".
-/
namespace Fundraising.Monitor
open Fundraising

/-! ### generic lemmas -/

theorem fld_eq_nil (c : Bool) (n : String) : fld c n = [] ↔ c = true := by
  unfold fld; cases c <;> simp

theorem ite_single_eq_nil {α : Type} (p : Prop) [Decidable p] (x : α) :
    (if p then ([] : List α) else [x]) = [] ↔ p := by
  by_cases h : p <;> simp [h]

theorem not_or_iff_imp (c d : Bool) : ((!c) || d) = true ↔ (c = true → d = true) := by
  cases c <;> cases d <;> simp

theorem imp_iff_bne_or {α : Type} [DecidableEq α] (x y : α) (c : Bool) :
    ((x != y) || c) = true ↔ (x = y → c = true) := by
  by_cases h : x = y <;> simp [h]

/-! ### `strictlyIncreasing` is `Pairwise (· < ·)` -/

theorem strictlyIncreasing_iff (l : List Nat) :
    strictlyIncreasing l = true ↔ l.Pairwise (· < ·) := by
  induction l with
  | nil => simp [strictlyIncreasing]
  | cons x t ih =>
    cases t with
    | nil => simp [strictlyIncreasing]
    | cons y r =>
      rw [strictlyIncreasing, Bool.and_eq_true, decide_eq_true_eq, ih, List.pairwise_cons (a := x)]
      constructor
      · rintro ⟨hxy, hp⟩
        refine ⟨?_, hp⟩
        intro z hz
        rcases List.mem_cons.1 hz with rfl | hz
        · exact hxy
        · exact Nat.lt_trans hxy ((List.pairwise_cons.1 hp).1 z hz)
      · rintro ⟨hall, hp⟩
        exact ⟨hall y (List.mem_cons_self ..), hp⟩

/-! ### `releasedPrefixOk` is the `Pairwise` field -/

theorem pairwise_of_all_false (l : List Bool) (h : ∀ y ∈ l, y = false) :
    l.Pairwise (fun x y => y = true → x = true) := by
  induction l with
  | nil => exact List.Pairwise.nil
  | cons x t ih =>
    refine List.pairwise_cons.2 ⟨?_, ih (fun y hy => h y (List.mem_cons_of_mem _ hy))⟩
    intro y hy hyt
    rw [h y (List.mem_cons_of_mem _ hy)] at hyt
    cases hyt

theorem dropWhile_all_iff (l : List Bool) :
    ((l.dropWhile id).all (!·)) = true ↔ l.Pairwise (fun x y => y = true → x = true) := by
  induction l with
  | nil => simp
  | cons x t ih =>
    cases x with
    | true =>
      rw [List.dropWhile_cons_of_pos (by rfl), ih, List.pairwise_cons]
      constructor
      · intro h; exact ⟨fun _ _ _ => rfl, h⟩
      · intro h; exact h.2
    | false =>
      rw [List.dropWhile_cons_of_neg (by simp), List.pairwise_cons]
      simp only [List.all_cons, Bool.not_false, Bool.true_and, List.all_eq_true,
        Bool.not_eq_true', Bool.false_eq_true, imp_false]
      constructor
      · intro h
        exact ⟨fun y hy => by simp [h y hy], pairwise_of_all_false t h⟩
      · intro h y hy
        have := h.1 y hy
        simpa using this

theorem releasedPrefixOk_iff (vqs : List VQ) :
    releasedPrefixOk vqs = true ↔
      vqs.Pairwise (fun q q' => q'.released = true → q.released = true) := by
  unfold releasedPrefixOk
  rw [dropWhile_all_iff, List.pairwise_map]

/-! ### 1. `AuctionWF` -/

theorem checkAuctionWF_iff (a : Auction) : checkAuctionWF a = [] ↔ AuctionWF a := by
  unfold checkAuctionWF
  simp only [List.append_eq_nil_iff, fld_eq_nil, imp_iff_bne_or, decide_eq_true_eq,
    Bool.and_eq_true, bne_iff_ne, ne_eq, Bool.not_eq_true', List.isEmpty_eq_false_iff,
    beq_iff_eq]
  constructor
  · rintro ⟨⟨⟨⟨⟨⟨⟨⟨⟨⟨⟨⟨h1, h2⟩, h3⟩, h4⟩, h5⟩, h6⟩, h7⟩, h8⟩, h9⟩, h10⟩, h11⟩, h12⟩, h13⟩
    exact ⟨h1, h2, h3, h4, h5, h6, h7, h8, h9, h10, h11, h12, h13⟩
  · rintro ⟨h1, h2, h3, h4, h5, h6, h7, h8, h9, h10, h11, h12, h13⟩
    exact ⟨⟨⟨⟨⟨⟨⟨⟨⟨⟨⟨⟨h1, h2⟩, h3⟩, h4⟩, h5⟩, h6⟩, h7⟩, h8⟩, h9⟩, h10⟩, h11⟩, h12⟩, h13⟩

/-! ### 2. `BidWF` -/

theorem checkBidWF_iff (a : Auction) (allowed : List Allowed) (b : Bid) :
    checkBidWF a allowed b = [] ↔ BidWF a allowed b := by
  unfold checkBidWF
  simp only [List.append_eq_nil_iff, fld_eq_nil, imp_iff_bne_or]
  simp only [decide_eq_true_eq, Bool.and_eq_true, Bool.or_eq_true, beq_iff_eq]
  constructor
  · rintro ⟨⟨⟨⟨⟨⟨⟨h1, h2⟩, h3⟩, h4⟩, h5⟩, h6⟩, h7⟩, h8⟩
    exact ⟨h1, h2, h3, h4, h5, fun h => ⟨(h6 h).1.1, (h6 h).1.2, (h6 h).2⟩, h7, h8⟩
  · rintro ⟨h1, h2, h3, h4, h5, h6, h7, h8⟩
    exact ⟨⟨⟨⟨⟨⟨⟨h1, h2⟩, h3⟩, h4⟩, h5⟩, fun h => ⟨⟨(h6 h).1, (h6 h).2.1⟩, (h6 h).2.2⟩⟩, h7⟩, h8⟩

/-! ### 3. `ViewWF` -/

theorem checkViewWF_iff (i : Nat) (v : AView) : checkViewWF i v = [] ↔ ViewWF i v := by
  unfold checkViewWF
  simp only [List.append_eq_nil_iff, ite_single_eq_nil, List.map_eq_nil_iff,
    List.flatMap_eq_nil_iff, checkAuctionWF_iff, checkBidWF_iff]
  simp only [imp_iff_bne_or, not_or_iff_imp]
  simp only [decide_eq_true_eq, Bool.and_eq_true, Bool.or_eq_true, beq_iff_eq, List.all_eq_true,
    strictlyIncreasing_iff, releasedPrefixOk_iff, List.isEmpty_iff]
  constructor
  · rintro ⟨⟨⟨⟨⟨⟨⟨⟨⟨⟨⟨⟨⟨⟨⟨⟨h1, h2⟩, h3⟩, h4⟩, h5⟩, h6⟩, h7⟩, h8⟩, h9⟩, h10⟩, h11⟩, h12⟩, h13⟩, h14⟩, h15⟩, h16⟩, h17⟩
    refine ⟨h1, h2, h3, h4, h5, h6, h7, h8, h9, h10, fun ht hs => h11 ⟨ht, hs⟩, ?_, h13,
      fun q hq => ⟨(h14 q hq).1.1.1, (h14 q hq).1.1.2, (h14 q hq).1.2, (h14 q hq).2⟩, h15, ?_, h17⟩
    · rintro (hs | hs | hs)
      · exact h12 (Or.inl (Or.inl hs))
      · exact h12 (Or.inl (Or.inr hs))
      · exact h12 (Or.inr hs)
    · intro hs
      have := h16 hs
      cases hl : v.vqs.getLast? with
      | none => rw [hl] at this; cases this
      | some q =>
        rw [hl] at this
        exact ⟨q, rfl, by simpa using this⟩
  · rintro ⟨h1, h2, h3, h4, h5, h6, h7, h8, h9, h10, h11, h12, h13, h14, h15, h16, h17⟩
    refine ⟨⟨⟨⟨⟨⟨⟨⟨⟨⟨⟨⟨⟨⟨⟨⟨h1, h2⟩, h3⟩, h4⟩, h5⟩, h6⟩, h7⟩, h8⟩, h9⟩, h10⟩, fun h => h11 h.1 h.2⟩,
      ?_⟩, h13⟩,
      fun q hq => ⟨⟨⟨(h14 q hq).1, (h14 q hq).2.1⟩, (h14 q hq).2.2.1⟩, (h14 q hq).2.2.2⟩⟩, h15⟩,
      ?_⟩, h17⟩
    · rintro ((hs | hs) | hs)
      · exact h12 (Or.inl hs)
      · exact h12 (Or.inr (Or.inl hs))
      · exact h12 (Or.inr (Or.inr hs))
    · intro hs
      obtain ⟨q, hq, hr⟩ := h16 hs
      rw [hq]
      simp [hr]

/-! ### 4. `EscrowCovered` -/

theorem checkEscrowCovered_iff (s : Core) (i : Nat) (v : AView) :
    checkEscrowCovered s i v = [] ↔ EscrowCovered s i v := by
  unfold checkEscrowCovered
  simp only [List.append_eq_nil_iff, ite_single_eq_nil]
  constructor
  · rintro ⟨⟨h1, h2⟩, h3⟩
    exact ⟨h1, h2, h3⟩
  · rintro ⟨h1, h2, h3⟩
    exact ⟨⟨h1, h2⟩, h3⟩

/-! ### 5. `EscrowExact` -/

/-- what `checkEscrowExact` tests, as a `Prop`: on the denoms 0…5, no escrow holds MORE than it
    owes in its own denom, and nothing in any other denom.  (That it holds no LESS is
    `checkEscrowCovered`.) -/
structure EscrowNoExcess (s : Core) (i : Nat) (v : AView) : Prop where
  sell : ∀ d ∈ universeDenoms,
    (d = v.a.sellDenom → s.bank (.sell i) d ≤ owedSell v) ∧ (d ≠ v.a.sellDenom → s.bank (.sell i) d = 0)
  pay : ∀ d ∈ universeDenoms,
    (d = v.a.payDenom → s.bank (.pay i) d ≤ owedPay v) ∧ (d ≠ v.a.payDenom → s.bank (.pay i) d = 0)
  vest : ∀ d ∈ universeDenoms,
    (d = v.a.payDenom → s.bank (.vest i) d ≤ owedVest v) ∧ (d ≠ v.a.payDenom → s.bank (.vest i) d = 0)

theorem exact_piece_iff {α : Type} (d own : Denom) (bal owed : Int) (x y : α) :
    (if d = own then (if bal > owed then [x] else [])
      else if bal ≠ 0 then [y] else ([] : List α)) = [] ↔
      (d = own → bal ≤ owed) ∧ (d ≠ own → bal = 0) := by
  by_cases h : d = own
  · by_cases h' : bal > owed
    · simp [h, h'] <;> omega
    · simp [h, h'] <;> omega
  · by_cases h' : bal = 0 <;> simp [h, h']

theorem checkEscrowExact_iff_noExcess (s : Core) (i : Nat) (v : AView) :
    checkEscrowExact s i v = [] ↔ EscrowNoExcess s i v := by
  unfold checkEscrowExact
  simp only [List.append_eq_nil_iff, List.flatMap_eq_nil_iff, exact_piece_iff]
  constructor
  · rintro ⟨⟨h1, h2⟩, h3⟩
    exact ⟨h1, h2, h3⟩
  · rintro ⟨h1, h2, h3⟩
    exact ⟨⟨h1, h2⟩, h3⟩

/-- the three equations of `EscrowExact`, at the denoms of `D` only -/
structure EscrowExactOn (D : List Denom) (s : Core) (i : Nat) (v : AView) : Prop where
  sell : ∀ d ∈ D, s.bank (.sell i) d = if d = v.a.sellDenom then owedSell v else 0
  pay : ∀ d ∈ D, s.bank (.pay i) d = if d = v.a.payDenom then owedPay v else 0
  vest : ∀ d ∈ D, s.bank (.vest i) d = if d = v.a.payDenom then owedVest v else 0

theorem escrowExactOn_of_exact (D : List Denom) {s : Core} {i : Nat} {v : AView} (h : EscrowExact s i v) :
    EscrowExactOn D s i v :=
  ⟨fun d _ => h.sell d, fun d _ => h.pay d, fun d _ => h.vest d⟩

theorem le_and_zero_of_eq_ite {d own : Denom} {bal owed : Int}
    (h : bal = if d = own then owed else 0) : (d = own → bal ≤ owed) ∧ (d ≠ own → bal = 0) := by
  by_cases hd : d = own
  · rw [if_pos hd] at h
    exact ⟨fun _ => by omega, fun hn => absurd hd hn⟩
  · rw [if_neg hd] at h
    exact ⟨fun hn => absurd hn hd, fun _ => h⟩

/-- the checker accepts whenever the equations hold on the universe denoms … -/
theorem checkEscrowExact_of_on (s : Core) (i : Nat) (v : AView)
    (h : EscrowExactOn universeDenoms s i v) : checkEscrowExact s i v = [] :=
  (checkEscrowExact_iff_noExcess s i v).2
    ⟨fun d hd => le_and_zero_of_eq_ite (h.sell d hd), fun d hd => le_and_zero_of_eq_ite (h.pay d hd),
     fun d hd => le_and_zero_of_eq_ite (h.vest d hd)⟩

/-- … in particular whenever `EscrowExact` holds -/
theorem checkEscrowExact_of (s : Core) (i : Nat) (v : AView) (h : EscrowExact s i v) :
    checkEscrowExact s i v = [] :=
  checkEscrowExact_of_on s i v (escrowExactOn_of_exact universeDenoms h)

theorem eq_ite_of_le {d own : Denom} {bal owed : Int}
    (hc : d = own → owed ≤ bal) (h : (d = own → bal ≤ owed) ∧ (d ≠ own → bal = 0)) :
    bal = if d = own then owed else 0 := by
  by_cases hd : d = own
  · rw [if_pos hd]
    have := hc hd
    have := h.1 hd
    omega
  · rw [if_neg hd]
    exact h.2 hd

/-- the converse, on the universe denoms.  `checkEscrowExact` alone only excludes an EXCESS
    (see `checkEscrowExact_alone_not_exact`); the lower bound is `checkEscrowCovered`, which the
    monitor S4 evaluates on the same state just before. -/
theorem escrowExactOn_of_checks (s : Core) (i : Nat) (v : AView)
    (hc : checkEscrowCovered s i v = []) (he : checkEscrowExact s i v = []) :
    EscrowExactOn universeDenoms s i v := by
  have hc := (checkEscrowCovered_iff s i v).1 hc
  have he := (checkEscrowExact_iff_noExcess s i v).1 he
  exact
    ⟨fun d hd => eq_ite_of_le (fun h => h ▸ hc.sell) (he.sell d hd),
     fun d hd => eq_ite_of_le (fun h => h ▸ hc.pay) (he.pay d hd),
     fun d hd => eq_ite_of_le (fun h => h ▸ hc.vest) (he.vest d hd)⟩

/-- the task's item 5, second half, with the (necessary) extra hypothesis spelled out -/
theorem checkEscrowExact_converse (s : Core) (i : Nat) (v : AView)
    (hc : checkEscrowCovered s i v = []) (he : checkEscrowExact s i v = []) :
    ∀ d ∈ universeDenoms,
      (s.bank (.sell i) d = if d = v.a.sellDenom then owedSell v else 0) ∧
      (s.bank (.pay i) d = if d = v.a.payDenom then owedPay v else 0) ∧
      (s.bank (.vest i) d = if d = v.a.payDenom then owedVest v else 0) := by
  have h := escrowExactOn_of_checks s i v hc he
  exact fun d hd => ⟨h.sell d hd, h.pay d hd, h.vest d hd⟩

/-- when the auction's own denoms are among 0…5 (true for every auction the harness creates),
    the two escrow checkers together are EXACTLY `EscrowExact` restricted to 0…5 -/
theorem escrow_checks_iff (s : Core) (i : Nat) (v : AView)
    (hs : v.a.sellDenom ∈ universeDenoms) (hp : v.a.payDenom ∈ universeDenoms) :
    (checkEscrowCovered s i v = [] ∧ checkEscrowExact s i v = []) ↔
      EscrowExactOn universeDenoms s i v := by
  constructor
  · rintro ⟨hc, he⟩
    exact escrowExactOn_of_checks s i v hc he
  · intro h
    refine ⟨(checkEscrowCovered_iff s i v).2 ⟨?_, ?_, ?_⟩, checkEscrowExact_of_on s i v h⟩
    · have := h.sell _ hs
      rw [if_pos rfl] at this
      omega
    · have := h.pay _ hp
      rw [if_pos rfl] at this
      omega
    · have := h.vest _ hp
      rw [if_pos rfl] at this
      omega

/-- GAP (checker weaker than the Prop, by design): `checkEscrowExact` on its own accepts an
    escrow that holds LESS than it owes.  A standby auction selling 5 of denom 0 with an empty
    bank: the checker returns `[]`, the `sell` equation of `EscrowExact` fails at denom 0. -/
theorem checkEscrowExact_alone_not_exact :
    ∃ (s : Core) (i : Nat) (v : AView),
      checkEscrowExact s i v = [] ∧ 0 ∈ universeDenoms ∧
      ¬ (s.bank (.sell i) 0 = if 0 = v.a.sellDenom then owedSell v else 0) := by
  refine ⟨{}, 0,
    { a := { id := 0, type := .fixed, auctioneer := 0, sellDenom := 0, sellAmt := 5, payDenom := 1,
             startPrice := 1, startTime := 0, endTimes := [1], schedules := [], status := .standby } },
    ?_, by decide, ?_⟩
  · rw [checkEscrowExact_iff_noExcess]
    refine ⟨fun d _ => ⟨fun _ => ?_, fun _ => rfl⟩, fun d _ => ⟨fun _ => ?_, fun _ => rfl⟩,
      fun d _ => ⟨fun _ => ?_, fun _ => rfl⟩⟩
    · show (0 : Int) ≤ owedSell _
      simp [owedSell]
    · show (0 : Int) ≤ owedPay _
      simp [owedPay]
    · show (0 : Int) ≤ owedVest _
      simp [owedVest]
  · simp [owedSell]

/-! ### 6. clearing price -/

theorem isClearingPriceB_iff (bids : List Bid) (allowed : List Allowed) (S : Int) (p : Dec) :
    isClearingPriceB bids allowed S p = true ↔ IsClearingPrice bids allowed S p := by
  unfold isClearingPriceB IsClearingPrice
  simp only [Bool.and_eq_true, List.any_eq_true, List.all_eq_true, not_or_iff_imp,
    decide_eq_true_eq, beq_iff_eq]
  constructor
  · rintro ⟨⟨h1, h2⟩, h3⟩
    exact ⟨h1, h2, h3⟩
  · rintro ⟨h1, h2, h3⟩
    exact ⟨⟨h1, h2⟩, h3⟩

theorem noPriceFitsB_iff (bids : List Bid) (allowed : List Allowed) (S : Int) :
    noPriceFitsB bids allowed S = true ↔ NoPriceFits bids allowed S := by
  unfold noPriceFitsB NoPriceFits
  simp only [List.all_eq_true, Bool.not_eq_true', decide_eq_false_iff_not]

/-- the fold of `minPrice` from a running minimum `m` -/
theorem minPrice_fold (f : Option Dec → Dec → Option Dec)
    (hf : ∀ q p, f (some q) p = some (if p < q then p else q)) (l : List Dec) (m : Dec) :
    ∃ r : Dec, l.foldl f (some m) = some r ∧ (r = m ∨ r ∈ l) ∧ r ≤ m ∧ ∀ q ∈ l, r ≤ q := by
  induction l generalizing m with
  | nil => exact ⟨m, rfl, Or.inl rfl, Int.le_refl _, fun _ h => by cases h⟩
  | cons x t ih =>
    obtain ⟨r, hr, hmem, hle, hall⟩ := ih (if x < m then x else m)
    refine ⟨r, by rw [List.foldl_cons, hf]; exact hr, ?_, ?_, ?_⟩
    · rcases hmem with h | h
      · by_cases hx : x < m
        · rw [if_pos hx] at h
          exact Or.inr (h ▸ List.mem_cons_self ..)
        · rw [if_neg hx] at h
          exact Or.inl h
      · exact Or.inr (List.mem_cons_of_mem _ h)
    · by_cases hx : x < m
      · rw [if_pos hx] at hle
        exact Int.le_trans hle (Int.le_of_lt hx)
      · rw [if_neg hx] at hle
        exact hle
    · intro q hq
      rcases List.mem_cons.1 hq with rfl | hq
      · by_cases hx : q < m
        · rw [if_pos hx] at hle
          exact hle
        · rw [if_neg hx] at hle
          exact Int.le_trans hle (Int.not_lt.1 hx)
      · exact hall q hq

theorem minPrice_nil : minPrice [] = none := rfl

theorem minPrice_cons (x : Dec) (t : List Dec) :
    ∃ r : Dec, minPrice (x :: t) = some r ∧ (r = x ∨ r ∈ t) ∧ r ≤ x ∧ ∀ q ∈ t, r ≤ q := by
  unfold minPrice
  rw [List.foldl_cons]
  exact minPrice_fold _ (fun _ _ => rfl) t x

theorem minPrice_eq_none (l : List Dec) : minPrice l = none ↔ l = [] := by
  cases l with
  | nil => simp [minPrice]
  | cons x t =>
    obtain ⟨r, hr, -⟩ := minPrice_cons x t
    rw [hr]
    simp

theorem minPrice_eq_some (l : List Dec) (p : Dec) (h : minPrice l = some p) :
    p ∈ l ∧ ∀ q ∈ l, p ≤ q := by
  cases l with
  | nil => cases h
  | cons x t =>
    obtain ⟨r, hr, hmem, hle, hall⟩ := minPrice_cons x t
    rw [hr] at h
    cases h
    refine ⟨?_, ?_⟩
    · rcases hmem with h | h
      · exact h ▸ List.mem_cons_self ..
      · exact List.mem_cons_of_mem _ h
    · intro q hq
      rcases List.mem_cons.1 hq with rfl | hq
      · exact hle
      · exact hall q hq

theorem clearingPrice?_some (bids : List Bid) (allowed : List Allowed) (S : Int) (p : Dec)
    (h : clearingPrice? bids allowed S = some p) : IsClearingPrice bids allowed S p := by
  unfold clearingPrice? at h
  obtain ⟨hmem, hmin⟩ := minPrice_eq_some _ _ h
  rw [List.mem_filter, decide_eq_true_eq, List.mem_map] at hmem
  refine ⟨?_, hmem.2, ?_⟩
  · obtain ⟨b, hb, hp⟩ := hmem.1
    exact ⟨b, hb, hp⟩
  · intro b hb hfit
    apply hmin
    rw [List.mem_filter, decide_eq_true_eq, List.mem_map]
    exact ⟨⟨b, hb, rfl⟩, hfit⟩

theorem clearingPrice?_none (bids : List Bid) (allowed : List Allowed) (S : Int)
    (h : clearingPrice? bids allowed S = none) : NoPriceFits bids allowed S := by
  unfold clearingPrice? at h
  rw [minPrice_eq_none, List.filter_eq_nil_iff] at h
  intro b hb
  have := h b.price (List.mem_map.2 ⟨b, hb, rfl⟩)
  simpa using this

/-- the clearing price is unique -/
theorem IsClearingPrice_unique {bids : List Bid} {allowed : List Allowed} {S : Int} {p q : Dec}
    (hp : IsClearingPrice bids allowed S p) (hq : IsClearingPrice bids allowed S q) : p = q := by
  obtain ⟨⟨b, hb, hbp⟩, hpf, hpm⟩ := hp
  obtain ⟨⟨c, hc, hcq⟩, hqf, hqm⟩ := hq
  have h1 : p ≤ q := by
    have := hpm c hc (by rw [hcq]; exact hqf)
    rwa [hcq] at this
  have h2 : q ≤ p := by
    have := hqm b hb (by rw [hbp]; exact hpf)
    rwa [hbp] at this
  exact Int.le_antisymm h1 h2

/-- a clearing price and `NoPriceFits` exclude each other -/
theorem IsClearingPrice_not_noPriceFits {bids : List Bid} {allowed : List Allowed} {S : Int} {p : Dec}
    (hp : IsClearingPrice bids allowed S p) : ¬ NoPriceFits bids allowed S := by
  obtain ⟨⟨b, hb, hbp⟩, hpf, -⟩ := hp
  intro hn
  exact hn b hb (by rw [hbp]; exact hpf)

theorem clearingPrice?_spec (bids : List Bid) (allowed : List Allowed) (S : Int) :
    (∀ p, clearingPrice? bids allowed S = some p → IsClearingPrice bids allowed S p) ∧
    (clearingPrice? bids allowed S = none → NoPriceFits bids allowed S) :=
  ⟨clearingPrice?_some bids allowed S, clearingPrice?_none bids allowed S⟩

theorem clearingPrice?_eq_some_iff (bids : List Bid) (allowed : List Allowed) (S : Int) (p : Dec) :
    clearingPrice? bids allowed S = some p ↔ IsClearingPrice bids allowed S p := by
  constructor
  · exact clearingPrice?_some bids allowed S p
  · intro hp
    cases h : clearingPrice? bids allowed S with
    | none => exact absurd (clearingPrice?_none bids allowed S h) (IsClearingPrice_not_noPriceFits hp)
    | some q => rw [IsClearingPrice_unique (clearingPrice?_some bids allowed S q h) hp]

theorem clearingPrice?_eq_none_iff (bids : List Bid) (allowed : List Allowed) (S : Int) :
    clearingPrice? bids allowed S = none ↔ NoPriceFits bids allowed S := by
  constructor
  · exact clearingPrice?_none bids allowed S
  · intro hn
    cases h : clearingPrice? bids allowed S with
    | none => rfl
    | some q => exact absurd hn (IsClearingPrice_not_noPriceFits (clearingPrice?_some bids allowed S q h))

/-- so: a clearing price exists, or no price fits -/
theorem clearing_dichotomy (bids : List Bid) (allowed : List Allowed) (S : Int) :
    (∃ p, IsClearingPrice bids allowed S p) ∨ NoPriceFits bids allowed S := by
  cases h : clearingPrice? bids allowed S with
  | none => exact Or.inr (clearingPrice?_none bids allowed S h)
  | some q => exact Or.inl ⟨q, clearingPrice?_some bids allowed S q h⟩

/-! ### bonus: `bookOk` is `BookWF` minus the `ids` field -/

theorem bookOk_iff (a : Auction) (bids : List Bid) (allowed : List Allowed) :
    (bookOk a bids allowed = true ∧ (bids.map (·.id)).Nodup) ↔ BookWF a bids allowed := by
  unfold bookOk
  simp only [Bool.and_eq_true, Bool.or_eq_true, List.all_eq_true, decide_eq_true_eq, beq_iff_eq,
    bne_iff_ne, ne_eq]
  constructor
  · rintro ⟨⟨⟨hb, hc⟩, hs⟩, hid⟩
    refine ⟨?_, ?_, fun b h => (hb b h).1.1.2, fun b h => (hb b h).1.2, fun b h => (hb b h).2,
      hc, hs, hid⟩
    · intro b h
      rcases (hb b h).1.1.1 with ⟨ht, -⟩ | ⟨ht, -⟩
      · exact Or.inl ht
      · exact Or.inr ht
    · intro b h
      rcases (hb b h).1.1.1 with ⟨ht, hd⟩ | ⟨ht, hd⟩
      · exact ⟨fun _ => hd, fun h' => (by rw [ht] at h'; cases h')⟩
      · exact ⟨fun h' => (by rw [ht] at h'; cases h'), fun _ => hd⟩
  · rintro ⟨ht, hd, hp, ha, hl, hc, hs, hid⟩
    refine ⟨⟨⟨fun b h => ⟨⟨⟨?_, hp b h⟩, ha b h⟩, hl b h⟩, hc⟩, hs⟩, hid⟩
    rcases ht b h with h' | h'
    · exact Or.inl ⟨h', (hd b h).1 h'⟩
    · exact Or.inr ⟨h', (hd b h).2 h'⟩

end Fundraising.Monitor
