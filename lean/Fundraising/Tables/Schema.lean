/-
  Schema of the tables that /verif/extract re-generates from /repo's source on every run
  (Fundraising/Generated/*.lean), and the decidable predicates the property theorems
  decide over them.  Core-only.
-/
namespace Fundraising.Tables

/-! ### C17: hook dispatchers (`types/hooks.go`), keeper wrappers (`keeper/hooks.go`),
    the interface (`types/expected_keepers.go`) and the call sites in the keeper -/

/-- one method of `types.FundraisingHooks` -/
structure HookSig where
  name : String
  params : List String          -- parameter names after ctx, in order
  deriving DecidableEq, Repr

/-- one method of `MultiFundraisingHooks` (dispatcher) or of `Keeper` (wrapper), as
    recognised by the extractor; a body that does not match the expected shape gets
    `recognised := false` -/
structure Forwarder where
  name : String
  params : List String          -- parameter names after ctx, in order
  recognised : Bool             -- body has the expected shape at all
  loopsAll : Bool               -- dispatcher: `for i := range h { … }` over every listener; wrapper: `if k.hooks != nil { … }`
  callee : String               -- the method invoked on the listener / on k.hooks
  args : List String            -- the arguments passed after ctx, in order
  errChecked : Bool             -- the call is `if err := …; err != nil { return err }`
  fallthroughNil : Bool         -- the function ends with `return nil`
  deriving DecidableEq, Repr

def Forwarder.uniform (f : Forwarder) : Bool :=
  f.recognised && f.loopsAll && f.callee == f.name && f.args == f.params && f.errChecked && f.fallthroughNil

/-- one call `k.<Hook>(ctx, …)` in keeper/auction.go or keeper/bid.go -/
structure HookSite where
  func : String                 -- enclosing function
  hook : String
  errReturned : Bool            -- `if err := k.Hook(…); err != nil { return …, err }`
  /-- position (statement index in the function body, top level) of the hook call, and of
      the first later top-level statement that contains the collection `Set` the hook
      announces (`none` if there is none after it) -/
  stmtIndex : Nat
  nextSetIndex : Option Nat
  /-- index of the last top-level statement before the call that contains a `.Set(` on the
      announced collection (`none` if none) — for `After…` hooks -/
  prevSetIndex : Option Nat
  deriving DecidableEq, Repr

/-! ### C10: writes to the allow-list switch -/

inductive RhsKind where
  | litTrue | litFalse | strFalse | strTrue | parseOfLdflagVar | other
  deriving DecidableEq, Repr

/-- one assignment (or initialiser) of `EnableAddAllowedBidder` / `enableAddAllowedBidder`
    anywhere in the packages linked into `./cmd/fundraisingd` (non-test files) -/
structure SwitchWrite where
  pkg : String
  file : String
  context : String              -- "var-init", "init", or the enclosing function name
  target : String               -- "EnableAddAllowedBidder" or "enableAddAllowedBidder"
  rhs : RhsKind
  deriving DecidableEq, Repr

/-- the value of the switch when `main` starts, given the writes and whether the default
    build passes `-X …enableAddAllowedBidder=…` ; `none` = cannot be determined -/
def switchAtStartup (ws : List SwitchWrite) (defaultBuildSetsLdflag : Bool) : Option Bool :=
  if defaultBuildSetsLdflag then none
  else
    -- the ldflag string variable: every write to it must be the literal "false"
    let strWrites := ws.filter (·.target == "enableAddAllowedBidder")
    let boolWrites := ws.filter (·.target == "EnableAddAllowedBidder")
    if !(strWrites.all (fun w => w.context == "var-init" && w.rhs == .strFalse)) then none
    else if !(boolWrites.all (fun w =>
        (w.context == "var-init" && w.rhs == .litFalse) ||
        (w.context == "init" && w.rhs == .parseOfLdflagVar && w.pkg.endsWith "x/fundraising/keeper"))) then none
    else some false

/-! ### C14: `range` over maps -/

inductive RangeClass where
  /-- body only appends the key to a slice that is sorted (sort.Strings / sort.Slice with
      a strict order on the distinct keys) before any other use -/
  | collectThenSort
  /-- body only assigns `m[key] = …` in other maps, indexed by the range key -/
  | pointwiseMapWrite
  /-- anything else (calls, appends without sort, writes to shared variables, …) -/
  | other
  deriving DecidableEq, Repr

structure MapRange where
  file : String
  func : String
  expr : String                 -- the ranged expression, as source text
  cls : RangeClass
  deriving DecidableEq, Repr

/-! ### accessors of the record types (what the translator's field / mutator tables assume) -/

structure Accessor where
  recv : String
  name : String
  reads : List String          -- fields of the receiver the method reads
  writes : List String         -- fields of the receiver the method assigns
  fromParam : Bool             -- the value assigned is the parameter (possibly converted)
  plain : Bool                 -- no loop, no call other than a conversion
  deriving DecidableEq, Repr

/-- the field an accessor is named after (`GetX` / `SetX`; `SetMatched` sets `IsMatched`) -/
def Accessor.field (a : Accessor) : String :=
  if a.name == "SetMatched" then "IsMatched" else (a.name.drop 3).toString

/-- a getter reads its own field and nothing else and writes nothing; a setter writes its own
    field, from its parameter, and nothing else -/
def Accessor.faithful (a : Accessor) : Bool :=
  a.plain &&
  (if a.name.startsWith "Get" then a.reads == [a.field] && a.writes == []
   else a.writes == [a.field] && a.reads == [] && a.fromParam)

/-- a Keeper method `IterateX(ctx, cb)`: `walksAll` = its body is `k.coll.Walk(ctx, nil, cb)` and the
    return of that call's error, nothing else -/
structure Iterator where
  name : String
  coll : String
  walksAll : Bool
  deriving DecidableEq, Repr

/-! ### C15: genesis coverage -/

structure CollectionRow where
  name : String                 -- keeper field: Params, MatchedBidsLen, AllowedBidder, …
  keyFields : List String       -- fields of the stored record that make up the key ([] for Item/Sequence/uint64-keyed counters)
  exported : Bool               -- walked / read by ExportGenesis
  imported : Bool               -- written by InitGenesis
  dupKeyFields : List String    -- record fields used by GenesisState.Validate's duplicate check ([] if no check)
  deriving DecidableEq, Repr

/-! ### C20: AutoCLI bindings against the protobuf descriptors -/

structure CliCmd where
  service : String              -- "Query" or "Msg"
  rpc : String
  use : String
  skip : Bool
  positional : List String      -- ProtoField of each positional arg, in order
  varargs : List Bool           -- per positional arg
  optional : List Bool
  conditional : Bool            -- appended only under `if keeper.EnableAddAllowedBidder`
  flagFields : List String := []    -- proto fields configured through `FlagOptions`
  flagDefaults : List String := []  -- … of which those given a `DefaultValue` (sent although nothing was typed)
  otherKeys : List String := []     -- `RpcCommandOptions` keys not known to be cosmetic
  deriving DecidableEq, Repr

structure RpcDesc where
  service : String
  rpc : String
  request : String              -- request message name
  fields : List String          -- proto field names of the request message
  repeated : List String        -- those of them declared `repeated`
  deriving DecidableEq, Repr

/-- number of `[placeholders]` in a cobra `Use` string -/
def usePlaceholders (use : String) : Nat := (use.toList.filter (· == '[')).length

/-- the `[placeholder]` names of a `Use` string in order, as character lists written like
    proto field names (`[auction-id]` ↦ `auction_id`); structural recursion over the characters
    so that the kernel can evaluate it -/
def placeholderChars : List Char → Option (List Char) → List (List Char)
  | [], _ => []
  | c :: cs, none => if c == '[' then placeholderChars cs (some []) else placeholderChars cs none
  | c :: cs, some acc =>
    if c == ']' then acc.reverse :: placeholderChars cs none
    else placeholderChars cs (some ((if c == '-' then '_' else c) :: acc))

def usePlaceholderNames (use : String) : List (List Char) := placeholderChars use.toList none

def lastOnly (flags : List Bool) : Bool :=
  match flags.reverse with
  | [] => true
  | _ :: rest => rest.all (· == false)

/-- positional arguments, flagged varargs or not -/
def CliCmd.args (c : CliCmd) : List (String × Bool) := c.positional.zip c.varargs

/-- one command resolves: its rpc exists, every positional field exists in the request
    message, placeholders match, varargs/optional only in last position and not both; a
    `repeated` field is bound positionally only as varargs (autocli gives a positional
    non-varargs argument exactly ONE value, so any other number of elements could not be
    sent; unbound repeated fields become repeatable flags); and the placeholder names of the
    usage line, in order, are the bound fields (`[auction-id] [bid-id]` bound to `bid_id`,
    `auction_id` would send the two ids swapped) -/
def CliCmd.resolves (c : CliCmd) (rpcs : List RpcDesc) : Bool :=
  match rpcs.find? (fun r => r.service == c.service && r.rpc == c.rpc) with
  | none => false
  | some r =>
    c.skip ||
    (c.positional.all (fun f => r.fields.contains f)
     && usePlaceholders c.use == c.positional.length
     && c.varargs.length == c.positional.length && c.optional.length == c.positional.length
     && lastOnly c.varargs && lastOnly c.optional
     && !((c.varargs.getLast?.getD false) && (c.optional.getLast?.getD false))
     && c.positional.eraseDups.length == c.positional.length
     && c.args.all (fun a => a.2 || !r.repeated.contains a.1)
     -- what the usage line tells the user to type, in order, is what each argument is bound to
     && usePlaceholderNames c.use == c.positional.map String.toList)

/-- the flags of a command send only what the user types: every configured flag names a field
    of the request, none has a default value of its own, and the command uses no option whose
    effect on the request this table does not capture -/
def CliCmd.flagsFaithful (c : CliCmd) (rpcs : List RpcDesc) : Bool :=
  match rpcs.find? (fun r => r.service == c.service && r.rpc == c.rpc) with
  | none => false
  | some r => c.flagFields.all (fun f => r.fields.contains f) && c.flagDefaults.isEmpty && c.otherKeys.isEmpty

end Fundraising.Tables
