import Fundraising.Model.Keeper
/-
  Prelude of the GENERATED code (`Generated/Code.lean`, produced from /repo's Go source by the
  GoLite translator `extract/golite.go`): the few helpers the translation refers to that are
  not already definitions of the model.  Everything here is core-only and executable.
-/
namespace Fundraising

/-- a unit the translator could not translate (a construct outside the GoLite subset, an
    unknown field/method, a renamed parameter).  The tie theorems of `Proofs/CodeTie.lean`
    do not type-check against a value of this type, so the obligation breaks. -/
structure Untranslated where
  reason : String

/-- result of a translated `for … range` loop: the function returned inside the loop, or the
    loop ended (normally or by `break`) with the loop-carried variables -/
inductive Loop (ρ σ : Type) where
  | ret (r : ρ)
  | done (s : σ)

/-- the request messages as the Go code sees them (`types.MsgPlaceBid`, …) -/
structure PlaceMsg where
  bidder : Acc
  aid : Nat
  bidType : Option BidType
  price : Dec
  denom : Denom
  amt : Int
  deriving Repr, Inhabited

structure ModifyMsg where
  bidder : Acc
  aid : Nat
  bidId : Nat
  price : Dec
  denom : Denom
  amt : Int
  deriving Repr, Inhabited

structure CancelMsg where
  signer : Acc
  aid : Nat
  deriving Repr, Inhabited

/-- `types.GenesisState` (allowed bidders as complete records, as exported) -/
structure GenesisG where
  params : Params
  auctions : List Auction
  allowed : List AllowedArg
  bids : List Bid
  vqs : List VQ
  deriving Repr, Inhabited

structure UpdateParamsMsg where
  signer : Acc
  params : Params
  deriving Repr, Inhabited

structure AddAllowedMsg where
  aid : Nat
  ab : AllowedArg
  deriving Repr, Inhabited

/-- `types.BidderMatchResult` -/
structure BidderRes where
  pay : Int := 0
  matched : Int := 0
  deriving Repr, Inhabited, DecidableEq

/-- the part of `types.MatchResult` + the local maps of `types.Match` that the per-bid step
    reads and writes -/
structure MatchState where
  price : Dec
  total : Int
  matched : List Bid
  byBidder : Acc → Option BidderRes

/-- `types.MsgPlaceBid` as the keeper sees it (after `ValidateBasic`: the bid type is one of
    the three defined ones) -/
abbrev SdkCtx := Unit

structure PlaceMsgK where
  bidder : Acc
  aid : Nat
  bidType : BidType
  price : Dec
  denom : Denom
  amt : Int
  deriving Repr, Inhabited

/-- `banktypes.Input` / `banktypes.Output` with a one-coin set -/
structure BankIn where
  addr : Addr
  coins : Coin
  deriving Repr, Inhabited

structure BankOut where
  addr : Acc
  coins : Coin
  deriving Repr, Inhabited

/-- values recorded in the effect list of a translated keeper function -/
inductive GVal where
  | int (i : Int) | nat (n : Nat) | bool (b : Bool) | coin (c : Coin) | bid (b : Bid)
  | addr (a : Addr) | status (s : Status) | auction (a : Auction) | vq (q : VQ) | ints (l : List Int)
  | bidType (t : BidType) | sched (l : List VS) | allowed (l : List AllowedArg) | allowed1 (a : AllowedArg)
  | minfo (m : MInfo) | params (p : Params) | bankIn (i : BankIn) | bankOuts (l : List BankOut) | amap (m : Acc → Option Int)
  | coins (l : List Coin)

/-- the calls a translated keeper function can record: store writes, bank / distribution
    calls, hooks, calls of other keeper functions -/
inductive GName where
  | payPlaceBidFee | payCreationFee | reservePayingCoin | reserveSellingCoin | nextBidId
  | auctionSet | bidSet | allowedSet | vqSet | sendCoins
  | beforeBidPlaced | beforeBidModified | beforeAuctionCanceled | beforeAllowedBiddersAdded
  | beforeAllowedBidderUpdated | beforeFixedCreated | afterFixedCreated | beforeBatchCreated | afterBatchCreated
  | execStandBy | execStarted | execVesting | closeFixed | closeBatch | extendRound
  | allocateSellingCoin | refundRemainingSellingCoin | refundPayingCoin | applyVestingSchedules
  | calcBatch | paramsSet | matchedLenSet | beforeSellingCoinsAllocated | inputOutputCoins
  | fundPool
  deriving DecidableEq, Repr

/-- one recorded call of a translated keeper function -/
structure GEff where
  name : GName
  args : List GVal

namespace Go

def bidCoin (b : Bid) : Coin := ⟨b.denom, b.amt⟩
def sellingCoin (a : Auction) : Coin := ⟨a.sellDenom, a.sellAmt⟩
def remainingCoin (a : Auction) : Coin := ⟨a.sellDenom, a.remaining⟩
def vqCoin (q : VQ) : Coin := ⟨q.denom, q.amt⟩

@[simp, grind =] theorem bidCoin_denom (b : Bid) : (bidCoin b).denom = b.denom := rfl
@[simp, grind =] theorem bidCoin_amt (b : Bid) : (bidCoin b).amt = b.amt := rfl
@[simp, grind =] theorem sellingCoin_denom (a : Auction) : (sellingCoin a).denom = a.sellDenom := rfl
@[simp, grind =] theorem sellingCoin_amt (a : Auction) : (sellingCoin a).amt = a.sellAmt := rfl
@[simp, grind =] theorem remainingCoin_denom (a : Auction) : (remainingCoin a).denom = a.sellDenom := rfl
@[simp, grind =] theorem remainingCoin_amt (a : Auction) : (remainingCoin a).amt = a.remaining := rfl
@[simp, grind =] theorem vqCoin_denom (q : VQ) : (vqCoin q).denom = q.denom := rfl
@[simp, grind =] theorem vqCoin_amt (q : VQ) : (vqCoin q).amt = q.amt := rfl

/-- `types.NewBaseAuction(…)`.  In the model the three reserve addresses are FUNCTIONS of the
    auction id and are not stored; an auction record whose stored reserve addresses are not the
    ones derived from its own id (`types.SellingReserveAddress(id)` …) has no counterpart in the
    model: it is mapped to the default record, and the tie of the creating handler fails -/
def newBaseAuction (id : Int) (ty : AType) (auctioneer : Acc) (sell pay : Addr) (startPrice : Dec)
    (sellingCoin : Coin) (payDenom : Denom) (vest : Addr) (schedules : List VS) (startTime : Int)
    (endTimes : List Int) (status : Status) : Auction :=
  if sell = Addr.sell id.toNat ∧ pay = Addr.pay id.toNat ∧ vest = Addr.vest id.toNat then
    { id := id.toNat, type := ty, auctioneer := auctioneer, sellDenom := sellingCoin.denom, sellAmt := sellingCoin.amt,
      payDenom := payDenom, startPrice := startPrice, startTime := startTime, endTimes := endTimes,
      schedules := schedules, status := status }
  else default

/-- `types.NewFixedPriceAuction(base, remainingSellingCoin)` -/
def newFixedPriceAuction (ba : Auction) (remaining : Coin) : Auction := { ba with remaining := remaining.amt }

/-- `types.NewBatchAuction(base, minBidPrice, matchedPrice, maxExtendedRound, extendedRoundRate)` -/
def newBatchAuction (ba : Auction) (minBid matched : Dec) (maxExt : Int) (rate : Dec) : Auction :=
  { ba with minBid := minBid, matchedPrice := matched, maxExt := maxExt.toNat, rate := rate }

/-- `fmt.Sprint(x)` as a component of a map key built by string concatenation -/
class KeyPart (α : Type) where
  part : α → List Int
instance : KeyPart Int := ⟨fun i => [i]⟩
instance : KeyPart Nat := ⟨fun n => [(n : Int)]⟩
def keyPart {α : Type} [KeyPart α] (x : α) : List Int := KeyPart.part x

/-- `xs[i]` on a slice; Go panics out of range — callers state the range as a hypothesis -/
def index {α : Type} [Inhabited α] (xs : List α) (i : Int) : α := xs.getD i.toNat default

/-- `t.AddDate(y, m, d)` in UTC for `y = m = 0` (the only use): whole days -/
def addDate (t : Int) (y m d : Int) : Int := if y = 0 ∧ m = 0 then t + 86400 * d else t

/-- `MustParseRFC3339`: the only literal in the translated code is the zero time -/
def parseTime (s : String) : Int := if s = "0001-01-01T00:00:00Z" then TIME_ZERO else 0

/-- `m[k] = v` on a Go map -/
def mapSet {κ ν : Type} [DecidableEq κ] (m : κ → Option ν) (k : κ) (v : ν) : κ → Option ν :=
  fun k' => if k' = k then some v else m k'

end Go
end Fundraising
