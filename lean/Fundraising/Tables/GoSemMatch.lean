import Fundraising.Tables.GoSem
/-
  Prelude of `Generated/Code/Match.lean`: the Go-shaped records of the matching code
  (`types.MatchResult`, `types.BidderMatchResult`, `keeper.MatchingInfo`), with Go maps keyed by
  the bidder address as functions `Acc → Option _`.
-/
namespace Fundraising

/-- `types.BidderMatchResult` -/
structure BRes where
  pay : Int := 0
  matched : Int := 0
  deriving Repr, Inhabited, DecidableEq

/-- `types.MatchResult` -/
structure MState where
  price : Dec := 0
  total : Int := 0
  matched : List Bid := []
  byBidder : Acc → Option BRes := fun _ => none
  deriving Inhabited

/-- `keeper.MatchingInfo` -/
structure MInfoG where
  matchedLen : Int := 0
  price : Dec := 0
  total : Int := 0
  alloc : Acc → Option Int := fun _ => none
  reservedMatched : Acc → Option Int := fun _ => none
  refund : Acc → Option Int := fun _ => none
  deriving Inhabited

end Fundraising
