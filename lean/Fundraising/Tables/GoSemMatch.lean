import Fundraising.Tables.GoSem
/-
  Prelude of `Generated/Code/Match.lean`: the Go-shaped records of the matching code
  (`types.MatchResult`, `types.BidderMatchResult`, `keeper.MatchingInfo`), with Go maps keyed by
  the bidder address as functions `Acc → Option _`.
-/
namespace Fundraising

/-- `types.BidderMatchResult` -/
structure BRes where
  pay : Int := 0
  matched : Int := 0
  deriving Repr, Inhabited, DecidableEq

/-- `types.MatchResult` -/
structure MState where
  price : Dec := 0
  total : Int := 0
  matched : List Bid := []
  byBidder : Acc → Option BRes := fun _ => none
  deriving Inhabited

/-- `keeper.MatchingInfo` -/
structure MInfoG where
  matchedLen : Int := 0
  price : Dec := 0
  total : Int := 0
  alloc : Acc → Option Int := fun _ => none
  reservedMatched : Acc → Option Int := fun _ => none
  refund : Acc → Option Int := fun _ => none
  deriving Inhabited

/-- the local `inOutCoins` record of `AllocateSellingCoin` / `RefundPayingCoin` -/
structure IOC where
  bidder : Acc := 0
  input : BankIn := default
  outputs : List BankOut := []
  deriving Repr, Inhabited

namespace Go

/-- `sort.Strings` on bidder addresses (accounts are numbered in bech32-string order) -/
def sortAcc (l : List Acc) : List Acc := l.mergeSort (fun a b => decide (a ≤ b))

/-- `xs[i] = v` on a slice (an index out of range panics in Go: here it changes nothing) -/
def listSet {α : Type} (l : List α) (i : Int) (v : α) : List α := if 0 ≤ i then l.set i.toNat v else l

/-- insertion of `x` before the first element it is `less` than -/
def insertBy {α : Type} (less : α → α → Bool) (x : α) : List α → List α
  | [] => [x]
  | y :: ys => if less x y then x :: y :: ys else y :: insertBy less x ys

/-- `sort.Slice(xs, less)` for a comparator that reads only the two elements: an insertion sort.
    For a `less` that is a strict weak order EVERY correct sorting algorithm returns a list sorted
    by it (and for a strict total order on distinct elements, this very list); for a comparator that
    is not, the result depends on Go's algorithm and the call has to stay an oracle (`SortBids`). -/
def sortSlice {α : Type} (less : α → α → Bool) (l : List α) : List α := l.foldr (insertBy less) []

/-- the loop of Go's `sort.Search`: `i, j := 0, n; for i < j { h := int(uint(i+j) >> 1); if !f(h) { i = h + 1 } else { j = h } }`,
    with the state the closure `f` carries threaded through; `fuel` bounds the iterations (`n` is enough) -/
def sortSearchLoop {σ : Type} (f : Int → σ → Bool × σ) : Nat → Int → Int → σ → Int × σ
  | 0, i, _, s => (i, s)
  | fuel + 1, i, j, s =>
    if i < j then
      let h := (i + j) / 2
      let r := f h s
      if !r.1 then sortSearchLoop f fuel (h + 1) j r.2 else sortSearchLoop f fuel i h r.2
    else (i, s)

/-- `sort.Search(n, f)` -/
def sortSearch {σ : Type} (n : Int) (f : Int → σ → Bool × σ) (s : σ) : Int × σ :=
  sortSearchLoop f n.toNat 0 n s

end Go

end Fundraising
