import Fundraising.Tables.GoSem
import Fundraising.Model.Block
/-
  The interpreter of the effect lists produced by the TRANSLATED keeper functions
  (`Generated/Code/*.lean`): what each recorded call does in the model's execution monad.

  A translated handler is a pure function from the message and the values it reads from the
  store (its oracle parameters) to `(error?, [recorded calls])`.  `runPlan` executes such a
  plan: bank / distribution calls and hooks act on the context one after the other (each can
  fail and abort the operation, exactly as in `Model/Exec.lean`); writes to the collections of
  the auction concerned are collected in a working copy of its view and stored when the
  handler returns.  (No handler reads back a record it has written, so deferring the writes to
  the end of the handler is not observable; it is also how the hand-written model is laid
  out.)  `Proofs/Tie/*.lean` prove `handler c … = runPlan c … (Gen.Handler …)` for the
  hand-written handlers of `Model/Keeper.lean` / `Model/Block.lean`.
-/
namespace Fundraising
namespace Go

/-- `Bid.Set(Join(aid, id), b)` inside one auction's prefix: replace the record with that id,
    or append it (ids are assigned in increasing order, so a new id is the largest key) -/
def setBid (l : List Bid) (b : Bid) : List Bid :=
  if l.any (·.id == b.id) then l.map (fun x => if x.id == b.id then b else x) else l ++ [b]

/-- `AllowedBidder.Set(Join(aid, bidder), ab)` inside one auction's prefix -/
def setAllowedArg (l : List Allowed) (ab : AllowedArg) : List Allowed :=
  setAllowed l { bidder := ab.bidder, cap := ab.cap }

/-- the destination of a `SendCoins`: an account (`.nat u`) or a module address -/
def dstOf : GVal → Option Addr
  | .nat u => some (.user u)
  | .addr a => some a
  | _ => none

/-! ### keyed store reads: the oracle FUNCTIONS of a translated handler, in state `s`.
    A translated `k.Auction.Get(ctx, key)` is `auctionGet__ key`: the value depends on the key
    the CODE passes, so a handler that reads under another key reads another record (or
    nothing), and its tie theorem no longer holds. -/

/-- the view filed under auction id `k` (`Auction`, `Bid`, `AllowedBidder`, `VestingQueue`,
    `MatchedBidsLen` and `BidSeq` are all keyed by, or prefixed with, the auction id) -/
def viewAt (s : Core) (k : Int) : Option AView := if 0 ≤ k then s.views[k.toNat]? else none

@[simp] theorem viewAt_nat (s : Core) (aid : Nat) : viewAt s (aid : Int) = s.views[aid]? := by
  simp [viewAt]

/-- `k.Auction.Get(ctx, id)` -/
def rdAuction (s : Core) (k : Int) : Auction × Bool :=
  match viewAt s k with
  | some v => (v.a, false)
  | none => (default, true)

/-- `k.AllowedBidder.Get(ctx, Join(id, bidder))` -/
def rdAllowed (s : Core) (k : Int) (u : Acc) : Allowed × Bool :=
  match viewAt s k with
  | some v => ((lookupAllowed v.allowed u).getD default, (lookupAllowed v.allowed u).isNone)
  | none => (default, true)

/-- `k.Bid.Get(ctx, Join(id, bidId))` -/
def rdBid (s : Core) (k i : Int) : Bid × Bool :=
  match viewAt s k with
  | some v => ((v.bids.find? (fun b => decide ((b.id : Int) = i))).getD default,
               (v.bids.find? (fun b => decide ((b.id : Int) = i))).isNone)
  | none => (default, true)

/-- `k.GetBidsByBidder(ctx, bidder)`: the bidder's bids of ALL auctions, in store order -/
def rdBidsByBidder (s : Core) (u : Acc) : List Bid :=
  (s.views.flatMap (·.bids)).filter (·.bidder == u)

/-- `k.GetNextBidIdWithUpdate(ctx, id)`: the value returned (the write is the recorded effect) -/
def rdNextBidId (s : Core) (k : Int) : Int :=
  match viewAt s k with
  | some v => ((v.bidSeq + 1 : Nat) : Int)
  | none => 1

/-- `k.GetLastMatchedBidsLen(ctx, id)` -/
def rdMatchedLen (s : Core) (k : Int) : Int :=
  match viewAt s k with
  | some v => (v.matchedLen : Int)
  | none => 0

/-- `k.GetVestingQueuesByAuctionId(ctx, id)` -/
def rdVqs (s : Core) (k : Int) : List VQ := ((viewAt s k).map (·.vqs)).getD []

/-- `k.GetBidsByAuctionId(ctx, id)` -/
def rdBids (s : Core) (k : Int) : List Bid := ((viewAt s k).map (·.bids)).getD []

/-- `k.GetAllowedBiddersByAuction(ctx, id)` -/
def rdAllowedList (s : Core) (k : Int) : List Allowed := ((viewAt s k).map (·.allowed)).getD []

/-- one recorded call of a MESSAGE handler / keeper-API function, on the context and the
    working copy of the view of the auction the operation concerns -/
def applyEff (e : GEff) (c : Ctx) (v : AView) : M (Ctx × AView) :=
  match e.name, e.args with
  | .payPlaceBidFee, [.nat u] => do
    let c ← c.bankCall .pool (.user u) .pool c.s.params.bidFee
    pure (c, v)
  | .payCreationFee, [.nat u] => do
    let c ← c.bankCall .pool (.user u) .pool c.s.params.creationFee
    pure (c, v)
  | .reservePayingCoin, [.int a, .nat u, .coin cn] => do
    let coins ← mkCoins c cn.denom cn.amt
    let c ← c.bankCall .send (.user u) (.pay a.toNat) coins
    pure (c, v)
  | .reserveSellingCoin, [.int a, .nat u, .coin cn] => do
    let coins ← mkCoins c cn.denom cn.amt
    let c ← c.bankCall .send (.user u) (.sell a.toNat) coins
    pure (c, v)
  | .sendCoins, [.addr src, dst, .coin cn] =>
    match dstOf dst with
    | none => c.fail .panic
    | some d => do
      let coins ← mkCoins c cn.denom cn.amt
      let c ← c.bankCall .send src d coins
      pure (c, v)
  -- the same from an ACCOUNT (`ReserveSellingCoin` / `ReservePayingCoin`)
  | .sendCoins, [.nat u, dst, .coin cn] =>
    match dstOf dst with
    | none => c.fail .panic
    | some d => do
      let coins ← mkCoins c cn.denom cn.amt
      let c ← c.bankCall .send (.user u) d coins
      pure (c, v)
  -- `distrKeeper.FundCommunityPool(ctx, coins, from)`
  | .fundPool, [.coins l, .nat u] => do
    let c ← c.bankCall .pool (.user u) .pool l
    pure (c, v)
  -- store writes: the KEY the code passes must be the key the model files the record under —
  -- the auction this operation concerns, and the record's own id / bidder / release time.
  -- A write under any other key has no counterpart in the model: the plan does not run.
  | .nextBidId, [.int k] =>
    if k = (v.a.id : Int) then pure (c, { v with bidSeq := v.bidSeq + 1 }) else c.fail .panic
  | .auctionSet, [.int k, .auction a] =>
    if k = (v.a.id : Int) ∧ a.id = v.a.id then pure (c, { v with a := a }) else c.fail .panic
  | .bidSet, [.int k, .int i, .bid b] =>
    if k = (v.a.id : Int) ∧ i = (b.id : Int) then pure (c, { v with bids := setBid v.bids b }) else c.fail .panic
  | .allowedSet, [.int k, .nat u, .allowed1 ab] =>
    if k = (v.a.id : Int) ∧ u = ab.bidder then pure (c, { v with allowed := setAllowedArg v.allowed ab }) else c.fail .panic
  | .vqSet, [.int k, .int r, .vq q] =>
    if k = (v.a.id : Int) ∧ r = q.release then pure (c, { v with vqs := setVQ v.vqs q }) else c.fail .panic
  | .beforeBidPlaced, [.int a, .int i, .nat u, .bidType t, .int p, .coin cn] => do
    let c ← c.hook "BeforeBidPlaced" [rNat a.toNat, rNat i.toNat, rAcc u, rBidType t, rInt p, rNat cn.denom, rInt cn.amt]
    pure (c, v)
  | .beforeBidModified, [.int a, .int i, .nat u, .bidType t, .int p, .coin cn] => do
    let c ← c.hook "BeforeBidModified" [rNat a.toNat, rNat i.toNat, rAcc u, rBidType t, rInt p, rNat cn.denom, rInt cn.amt]
    pure (c, v)
  | .beforeAuctionCanceled, [.int a, .nat u] => do
    let c ← c.hook "BeforeAuctionCanceled" [rNat a.toNat, rAcc u]
    pure (c, v)
  | .beforeAllowedBiddersAdded, [.allowed l] => do
    let c ← c.hook "BeforeAllowedBiddersAdded" (rAllowedArgs l)
    pure (c, v)
  | .beforeAllowedBidderUpdated, [.int a, .nat u, .int cap] => do
    let c ← c.hook "BeforeAllowedBidderUpdated" [rNat a.toNat, rAcc u, rInt cap]
    pure (c, v)
  | .beforeFixedCreated, [.nat u, .int sp, .coin sc, .nat pd, .sched vs, .int st, .int en] => do
    let c ← c.hook "BeforeFixedPriceAuctionCreated"
      ([rAcc u, rInt sp, rNat sc.denom, rInt sc.amt, rNat pd] ++ rSchedules vs ++ [rInt st, rInt en])
    pure (c, v)
  | .afterFixedCreated, [.int id, .nat u, .int sp, .coin sc, .nat pd, .sched vs, .int st, .int en] => do
    let c ← c.hook "AfterFixedPriceAuctionCreated"
      ([rNat id.toNat, rAcc u, rInt sp, rNat sc.denom, rInt sc.amt, rNat pd] ++ rSchedules vs ++ [rInt st, rInt en])
    pure (c, v)
  | .beforeBatchCreated, [.nat u, .int sp, .int mb, .coin sc, .nat pd, .sched vs, .int mx, .int rt, .int st, .int en] => do
    let c ← c.hook "BeforeBatchAuctionCreated"
      ([rAcc u, rInt sp, rInt mb, rNat sc.denom, rInt sc.amt, rNat pd] ++ rSchedules vs ++ [rNat mx.toNat, rInt rt, rInt st, rInt en])
    pure (c, v)
  | .afterBatchCreated, [.int id, .nat u, .int sp, .int mb, .coin sc, .nat pd, .sched vs, .int mx, .int rt, .int st, .int en] => do
    let c ← c.hook "AfterBatchAuctionCreated"
      ([rNat id.toNat, rAcc u, rInt sp, rInt mb, rNat sc.denom, rInt sc.amt, rNat pd] ++ rSchedules vs ++ [rNat mx.toNat, rInt rt, rInt st, rInt en])
    pure (c, v)
  | _, _ => c.fail .panic

def runEffs : List GEff → Ctx → AView → M (Ctx × AView)
  | [], c, v => pure (c, v)
  | e :: es, c, v => do
    let (c, v) ← applyEff e c v
    runEffs es c v

/-- execute the plan of a translated handler on auction `aid`, whose view is `v` -/
def runPlan (c : Ctx) (aid : Nat) (v : AView) (plan : Bool × List GEff) : M Ctx := do
  let (c, v) ← runEffs plan.2 c v
  if plan.1 then c.fail else pure (c.setView aid v)

/-- … against the store: the working view is the one filed under `aid`; a plan that is
    accepted although no auction is filed under `aid` has no counterpart in the model -/
def runPlanAt (c : Ctx) (aid : Nat) (plan : Bool × List GEff) : M Ctx :=
  match c.s.views[aid]? with
  | some v => runPlan c aid v plan
  | none => if plan.1 then c.fail else c.fail .panic

/-- the same for an operation that CREATES the auction: the working view is appended -/
def runPlanNew (c : Ctx) (v : AView) (plan : Bool × List GEff) : M Ctx := do
  -- the working view is the one filed under the next free auction id: a write of the new
  -- record under any other key is rejected by `applyEff`
  let (c, v) ← runEffs plan.2 c { v with a := { v.a with id := c.s.views.length } }
  if plan.1 then c.fail else pure { c with s := { c.s with views := c.s.views ++ [v] } }

/-! ### settlement: the functions `BeginBlocker` reaches call each other; a recorded call of
    another keeper function is interpreted by the MODEL's function of that name (each of which
    has its own tie theorem), store writes go to the view in the context at once -/

def applySettle (aid : Nat) (e : GEff) (c : Ctx) : M Ctx :=
  match e.name, e.args with
  | .auctionSet, [.int k, .auction a] =>
    if k = (aid : Int) ∧ a.id = aid then do
      let v ← c.view aid
      pure (c.setView aid { v with a := a })
    else c.fail .panic
  | .vqSet, [.int k, .int r, .vq q] =>
    if k = (aid : Int) ∧ r = q.release then do
      let v ← c.view aid
      pure (c.setView aid { v with vqs := setVQ v.vqs q })
    else c.fail .panic
  | .sendCoins, [.addr src, dst, .coin cn] =>
    match dstOf dst with
    | none => c.fail .panic
    | some d => do
      let coins ← mkCoins c cn.denom cn.amt
      c.bankCall .send src d coins
  | .calcBatch, [.auction _] => do
    -- the store writes of `CalculateBatchAllocation`: matched flags and `MatchedBidsLen`
    let v ← c.view aid
    match calcBatch v.a v.bids v.allowed with
    | none => c.fail .panic
    | some mi =>
      pure (c.setView aid { v with bids := v.bids.map (fun b => { b with matched := mi.matchedIds.contains b.id }),
                                   matchedLen := mi.matchedLen })
  | .closeFixed, [.auction _] => closeFixed c aid
  | .closeBatch, [.auction _] => closeBatch c aid
  | .extendRound, [.auction _] => extendRound c aid
  | .allocateSellingCoin, [.auction a, .minfo mi] => allocateSellingCoin c a mi
  | .refundRemainingSellingCoin, [.auction a] => refundRemainingSellingCoin c a
  | .refundPayingCoin, [.auction a, .minfo mi] => refundPayingCoin c a mi
  | .applyVestingSchedules, [.auction a] => do
    -- the auction object carries the fields the caller changed in memory (matched price)
    let v ← c.view aid
    applyVestingSchedules (c.setView aid { v with a := a }) aid
  | _, _ => c.fail .panic

def runSettle (aid : Nat) : List GEff → Ctx → M Ctx
  | [], c => pure c
  | e :: es, c => do
    let c ← applySettle aid e c
    runSettle aid es c

def runSettlePlan (c : Ctx) (aid : Nat) (plan : Bool × List GEff) : M Ctx := do
  let c ← runSettle aid plan.2 c
  if plan.1 then c.fail else pure c

@[simp] theorem runSettle_nil (aid : Nat) (c : Ctx) : runSettle aid [] c = pure c := rfl
@[simp] theorem runSettle_cons (aid : Nat) (e : GEff) (es : List GEff) (c : Ctx) :
    runSettle aid (e :: es) c = (applySettle aid e c >>= fun c => runSettle aid es c) := rfl

@[simp] theorem runEffs_nil (c : Ctx) (v : AView) : runEffs [] c v = pure (c, v) := rfl
@[simp] theorem runEffs_cons (e : GEff) (es : List GEff) (c : Ctx) (v : AView) :
    runEffs (e :: es) c v = (applyEff e c v >>= fun p => runEffs es p.1 p.2) := rfl

/-- the working view stays the view of the same auction: `applyEff` accepts an `auctionSet`
    only for a record carrying the id of the view it is applied to -/
theorem applyEff_id (e : GEff) (c : Ctx) (v : AView) (c' : Ctx) (v' : AView)
    (h : applyEff e c v = .ok (c', v')) : v'.a.id = v.a.id := by
  unfold applyEff at h
  split at h <;> (try split at h) <;>
    simp_all [bind, Except.bind, pure, Except.pure, Ctx.fail] <;>
    (try (repeat' (split at h <;> simp_all))) <;> grind

theorem runEffs_id (es : List GEff) (c : Ctx) (v : AView) (c' : Ctx) (v' : AView)
    (h : runEffs es c v = .ok (c', v')) : v'.a.id = v.a.id := by
  induction es generalizing c v with
  | nil => simp [runEffs, pure, Except.pure] at h; rw [h.2]
  | cons e es ih =>
    simp only [runEffs_cons, bind, Except.bind] at h
    cases he : applyEff e c v with
    | error x => simp [he] at h
    | ok p =>
      simp only [he] at h
      rw [ih p.1 p.2 h]
      exact applyEff_id e c v p.1 p.2 (by simpa using he)

end Go
end Fundraising
