import Fundraising.Tables.GoSem
import Fundraising.Model.Block
/-
  The interpreter of the effect lists produced by the TRANSLATED keeper functions
  (`Generated/Code/*.lean`): what each recorded call does in the model's execution monad.

  A translated handler is a pure function from the message and the values it reads from the
  store (its oracle parameters) to `(error?, [recorded calls])`.  `runPlan` executes such a
  plan: bank / distribution calls and hooks act on the context one after the other (each can
  fail and abort the operation, exactly as in `Model/Exec.lean`); writes to the collections of
  the auction concerned are collected in a working copy of its view and stored when the
  handler returns.  (No handler reads back a record it has written, so deferring the writes to
  the end of the handler is not observable; it is also how the hand-written model is laid
  out.)  `Proofs/Tie/*.lean` prove `handler c … = runPlan c … (Gen.Handler …)` for the
  hand-written handlers of `Model/Keeper.lean` / `Model/Block.lean`.
-/
namespace Fundraising
namespace Go

/-- `Bid.Set(Join(aid, id), b)` inside one auction's prefix: replace the record with that id,
    or append it (ids are assigned in increasing order, so a new id is the largest key) -/
def setBid (l : List Bid) (b : Bid) : List Bid :=
  if l.any (·.id == b.id) then l.map (fun x => if x.id == b.id then b else x) else l ++ [b]

/-- `AllowedBidder.Set(Join(aid, bidder), ab)` inside one auction's prefix -/
def setAllowedArg (l : List Allowed) (ab : AllowedArg) : List Allowed :=
  setAllowed l { bidder := ab.bidder, cap := ab.cap }

/-- the destination of a `SendCoins`: an account (`.nat u`) or a module address -/
def dstOf : GVal → Option Addr
  | .nat u => some (.user u)
  | .addr a => some a
  | _ => none

/-- one recorded call of a MESSAGE handler / keeper-API function, on the context and the
    working copy of the view of the auction the operation concerns -/
def applyEff (e : GEff) (c : Ctx) (v : AView) : M (Ctx × AView) :=
  match e.name, e.args with
  | .payPlaceBidFee, [.nat u] => do
    let c ← c.bankCall .pool (.user u) .pool c.s.params.bidFee
    pure (c, v)
  | .payCreationFee, [.nat u] => do
    let c ← c.bankCall .pool (.user u) .pool c.s.params.creationFee
    pure (c, v)
  | .reservePayingCoin, [.int a, .nat u, .coin cn] => do
    let coins ← mkCoins c cn.denom cn.amt
    let c ← c.bankCall .send (.user u) (.pay a.toNat) coins
    pure (c, v)
  | .reserveSellingCoin, [.int a, .nat u, .coin cn] => do
    let coins ← mkCoins c cn.denom cn.amt
    let c ← c.bankCall .send (.user u) (.sell a.toNat) coins
    pure (c, v)
  | .sendCoins, [.addr src, dst, .coin cn] =>
    match dstOf dst with
    | none => c.fail .panic
    | some d => do
      let coins ← mkCoins c cn.denom cn.amt
      let c ← c.bankCall .send src d coins
      pure (c, v)
  | .nextBidId, [.int _] => pure (c, { v with bidSeq := v.bidSeq + 1 })
  | .auctionSet, [.int _, .auction a] => pure (c, { v with a := a })
  | .bidSet, [.int _, .int _, .bid b] => pure (c, { v with bids := setBid v.bids b })
  | .allowedSet, [.int _, .nat _, .allowed1 ab] => pure (c, { v with allowed := setAllowedArg v.allowed ab })
  | .vqSet, [.int _, .int _, .vq q] => pure (c, { v with vqs := setVQ v.vqs q })
  | .beforeBidPlaced, [.int a, .int i, .nat u, .bidType t, .int p, .coin cn] => do
    let c ← c.hook "BeforeBidPlaced" [rNat a.toNat, rNat i.toNat, rAcc u, rBidType t, rInt p, rNat cn.denom, rInt cn.amt]
    pure (c, v)
  | .beforeBidModified, [.int a, .int i, .nat u, .bidType t, .int p, .coin cn] => do
    let c ← c.hook "BeforeBidModified" [rNat a.toNat, rNat i.toNat, rAcc u, rBidType t, rInt p, rNat cn.denom, rInt cn.amt]
    pure (c, v)
  | .beforeAuctionCanceled, [.int a, .nat u] => do
    let c ← c.hook "BeforeAuctionCanceled" [rNat a.toNat, rAcc u]
    pure (c, v)
  | .beforeAllowedBiddersAdded, [.allowed l] => do
    let c ← c.hook "BeforeAllowedBiddersAdded" (rAllowedArgs l)
    pure (c, v)
  | .beforeAllowedBidderUpdated, [.int a, .nat u, .int cap] => do
    let c ← c.hook "BeforeAllowedBidderUpdated" [rNat a.toNat, rAcc u, rInt cap]
    pure (c, v)
  | .beforeFixedCreated, [.nat u, .int sp, .coin sc, .nat pd, .sched vs, .int st, .int en] => do
    let c ← c.hook "BeforeFixedPriceAuctionCreated"
      ([rAcc u, rInt sp, rNat sc.denom, rInt sc.amt, rNat pd] ++ rSchedules vs ++ [rInt st, rInt en])
    pure (c, v)
  | .afterFixedCreated, [.int id, .nat u, .int sp, .coin sc, .nat pd, .sched vs, .int st, .int en] => do
    let c ← c.hook "AfterFixedPriceAuctionCreated"
      ([rNat id.toNat, rAcc u, rInt sp, rNat sc.denom, rInt sc.amt, rNat pd] ++ rSchedules vs ++ [rInt st, rInt en])
    pure (c, v)
  | .beforeBatchCreated, [.nat u, .int sp, .int mb, .coin sc, .nat pd, .sched vs, .int mx, .int rt, .int st, .int en] => do
    let c ← c.hook "BeforeBatchAuctionCreated"
      ([rAcc u, rInt sp, rInt mb, rNat sc.denom, rInt sc.amt, rNat pd] ++ rSchedules vs ++ [rNat mx.toNat, rInt rt, rInt st, rInt en])
    pure (c, v)
  | .afterBatchCreated, [.int id, .nat u, .int sp, .int mb, .coin sc, .nat pd, .sched vs, .int mx, .int rt, .int st, .int en] => do
    let c ← c.hook "AfterBatchAuctionCreated"
      ([rNat id.toNat, rAcc u, rInt sp, rInt mb, rNat sc.denom, rInt sc.amt, rNat pd] ++ rSchedules vs ++ [rNat mx.toNat, rInt rt, rInt st, rInt en])
    pure (c, v)
  | _, _ => c.fail .panic

def runEffs : List GEff → Ctx → AView → M (Ctx × AView)
  | [], c, v => pure (c, v)
  | e :: es, c, v => do
    let (c, v) ← applyEff e c v
    runEffs es c v

/-- execute the plan of a translated handler on auction `aid`, whose view is `v` -/
def runPlan (c : Ctx) (aid : Nat) (v : AView) (plan : Bool × List GEff) : M Ctx := do
  let (c, v) ← runEffs plan.2 c v
  if plan.1 then c.fail else pure (c.setView aid v)

/-- the same for an operation that CREATES the auction: the working view is appended -/
def runPlanNew (c : Ctx) (v : AView) (plan : Bool × List GEff) : M Ctx := do
  let (c, v) ← runEffs plan.2 c v
  if plan.1 then c.fail else pure { c with s := { c.s with views := c.s.views ++ [v] } }

/-! ### settlement: the functions `BeginBlocker` reaches call each other; a recorded call of
    another keeper function is interpreted by the MODEL's function of that name (each of which
    has its own tie theorem), store writes go to the view in the context at once -/

def applySettle (aid : Nat) (e : GEff) (c : Ctx) : M Ctx :=
  match e.name, e.args with
  | .auctionSet, [.int _, .auction a] => do
    let v ← c.view aid
    pure (c.setView aid { v with a := a })
  | .vqSet, [.int _, .int _, .vq q] => do
    let v ← c.view aid
    pure (c.setView aid { v with vqs := setVQ v.vqs q })
  | .sendCoins, [.addr src, dst, .coin cn] =>
    match dstOf dst with
    | none => c.fail .panic
    | some d => do
      let coins ← mkCoins c cn.denom cn.amt
      c.bankCall .send src d coins
  | .calcBatch, [.auction _] => do
    -- the store writes of `CalculateBatchAllocation`: matched flags and `MatchedBidsLen`
    let v ← c.view aid
    match calcBatch v.a v.bids v.allowed with
    | none => c.fail .panic
    | some mi =>
      pure (c.setView aid { v with bids := v.bids.map (fun b => { b with matched := mi.matchedIds.contains b.id }),
                                   matchedLen := mi.matchedLen })
  | .closeFixed, [.auction _] => closeFixed c aid
  | .closeBatch, [.auction _] => closeBatch c aid
  | .extendRound, [.auction _] => extendRound c aid
  | .allocateSellingCoin, [.auction a, .minfo mi] => allocateSellingCoin c a mi
  | .refundRemainingSellingCoin, [.auction a] => refundRemainingSellingCoin c a
  | .refundPayingCoin, [.auction a, .minfo mi] => refundPayingCoin c a mi
  | .applyVestingSchedules, [.auction a] => do
    -- the auction object carries the fields the caller changed in memory (matched price)
    let v ← c.view aid
    applyVestingSchedules (c.setView aid { v with a := a }) aid
  | _, _ => c.fail .panic

def runSettle (aid : Nat) : List GEff → Ctx → M Ctx
  | [], c => pure c
  | e :: es, c => do
    let c ← applySettle aid e c
    runSettle aid es c

def runSettlePlan (c : Ctx) (aid : Nat) (plan : Bool × List GEff) : M Ctx := do
  let c ← runSettle aid plan.2 c
  if plan.1 then c.fail else pure c

@[simp] theorem runSettle_nil (aid : Nat) (c : Ctx) : runSettle aid [] c = pure c := rfl
@[simp] theorem runSettle_cons (aid : Nat) (e : GEff) (es : List GEff) (c : Ctx) :
    runSettle aid (e :: es) c = (applySettle aid e c >>= fun c => runSettle aid es c) := rfl

@[simp] theorem runEffs_nil (c : Ctx) (v : AView) : runEffs [] c v = pure (c, v) := rfl
@[simp] theorem runEffs_cons (e : GEff) (es : List GEff) (c : Ctx) (v : AView) :
    runEffs (e :: es) c v = (applyEff e c v >>= fun p => runEffs es p.1 p.2) := rfl

end Go
end Fundraising
