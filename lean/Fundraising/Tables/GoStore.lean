import Fundraising.Tables.GoRun
/-
  The module's store as the STORE-THREADED translated functions see it (`InitGenesis`): the
  collections API (`Get` / `Set` / `Sequence.Next`) as functions on an explicit store value that
  the translation threads through the function — reads see earlier writes of the same function,
  which the oracle/plan form of the other keeper functions cannot express.

  The store is laid out like the model's state (one `AView` per auction id: the collections keyed by
  `(auctionId, x)` under the prefix of their auction), plus the auction sequence as its own counter
  (`AuctionSeq`; the model identifies it with the number of auctions — that they agree after an
  import is part of the tie theorem).  A write under an auction id for which no auction record
  exists is outside this layout and is dropped (Go stores such orphans; no exported genesis of a
  reachable state contains one — `ViewWF`).
-/
namespace Fundraising

structure GStore where
  params : Params := Params.default
  seq : Nat := 0
  views : List AView := []
  deriving Inhabited

namespace GStore

def modify (s : GStore) (aid : Int) (f : AView → AView) : GStore :=
  match s.views[aid.toNat]? with
  | some v => { s with views := s.views.set aid.toNat (f v) }
  | none => s

/-- `AuctionSeq.Next` -/
def seqNext (s : GStore) : Int × GStore := ((s.seq : Int), { s with seq := s.seq + 1 })

/-- `Auction.Get(id)` (second component: not found) -/
def auctionGet (s : GStore) (id : Int) : Auction × Bool :=
  match s.views[id.toNat]? with
  | some v => (v.a, false)
  | none => (default, true)

/-- `Auction.Set(id, a)` -/
def auctionSet (s : GStore) (id : Int) (a : Auction) : GStore :=
  if id.toNat < s.views.length then s.modify id (fun v => { v with a := a })
  else if id.toNat = s.views.length then { s with views := s.views ++ [({ a := a } : AView)] }
  else s

/-- `AllowedBidder.Set(Join(aid, bidder), ab)` -/
def allowedSet (s : GStore) (aid : Int) (bidder : Acc) (ab : AllowedArg) : GStore :=
  s.modify aid (fun v => { v with allowed := setAllowed v.allowed { bidder := bidder, cap := ab.cap } })

/-- `GetNextBidIdWithUpdate(aid)` -/
def nextBidId (s : GStore) (aid : Int) : Int × GStore :=
  match s.views[aid.toNat]? with
  | some v => (((v.bidSeq + 1 : Nat) : Int), s.modify aid (fun v => { v with bidSeq := v.bidSeq + 1 }))
  | none => (1, s)

/-- `Bid.Set(Join(aid, id), b)` -/
def bidSet (s : GStore) (aid : Int) (_id : Int) (b : Bid) : GStore :=
  s.modify aid (fun v => { v with bids := Go.setBid v.bids b })

/-- `SetMatchedBidsLen(aid, n)` -/
def matchedLenSet (s : GStore) (aid : Int) (n : Int) : GStore :=
  s.modify aid (fun v => { v with matchedLen := n })

/-- `VestingQueue.Set(Join(aid, release), q)` -/
def vqSet (s : GStore) (aid : Int) (_release : Int) (q : VQ) : GStore :=
  s.modify aid (fun v => { v with vqs := setVQ v.vqs q })

/-- `Params.Set(p)` -/
def paramsSet (s : GStore) (p : Params) : GStore := { s with params := p }

/-- `Params.Get` -/
def paramsGet (s : GStore) : Params × Bool := (s.params, false)

/-- the records a `Walk` over a whole collection visits, in key order (auction id first) -/
def allAllowed (s : GStore) : List AllowedArg :=
  s.views.flatMap (fun v => v.allowed.map (fun x => ⟨v.a.id, x.bidder, x.cap⟩))
def allVqs (s : GStore) : List VQ := s.views.flatMap (·.vqs)
def allBids (s : GStore) : List Bid := s.views.flatMap (·.bids)
def allAuctions (s : GStore) : List Auction := s.views.map (·.a)

/-! ### what the keeper's keyed getters use -/

/-- the view filed under auction id `aid` -/
def viewAt (s : GStore) (aid : Int) : Option AView := if 0 ≤ aid then s.views[aid.toNat]? else none

/-- a `Walk` over the pairs with first component `aid` (`NewPrefixedPairRange(aid)`), key order -/
def bidsOf (s : GStore) (aid : Int) : List Bid := ((s.viewAt aid).map (·.bids)).getD []
def vqsOf (s : GStore) (aid : Int) : List VQ := ((s.viewAt aid).map (·.vqs)).getD []
def allowedOf (s : GStore) (aid : Int) : List Allowed := ((s.viewAt aid).map (·.allowed)).getD []
/-- a `Walk` over the whole `AllowedBidder` collection, as records -/
def allAllowedRec (s : GStore) : List Allowed := s.views.flatMap (·.allowed)

/-- `BidSeq.Get(aid)`: absent (not found) until the first bid of the auction -/
def bidSeqGet (s : GStore) (aid : Int) : Int × Bool :=
  match s.viewAt aid with
  | some v => ((v.bidSeq : Int), decide (v.bidSeq = 0))
  | none => (0, true)

/-- `BidSeq.Set(aid, n)` -/
def bidSeqSet (s : GStore) (aid : Int) (n : Int) : GStore :=
  if 0 ≤ aid then s.modify aid (fun v => { v with bidSeq := n.toNat }) else s

/-- `MatchedBidsLen.Get(aid)`: absent until the first batch calculation; the model keeps 0 then -/
def matchedLenGet (s : GStore) (aid : Int) : Int × Bool :=
  match s.viewAt aid with
  | some v => (v.matchedLen, decide (v.matchedLen = 0))
  | none => (0, true)

/-- `Bid.Get(Join(aid, id))` -/
def bidGet (s : GStore) (aid id : Int) : Bid × Bool :=
  match s.viewAt aid with
  | some v => ((v.bids.find? (fun b => decide ((b.id : Int) = id))).getD default,
               (v.bids.find? (fun b => decide ((b.id : Int) = id))).isNone)
  | none => (default, true)

/-- `AllowedBidder.Get(Join(aid, bidder))`, as the stored record (with its auction id) -/
def allowedGet (s : GStore) (aid : Int) (u : Acc) : AllowedArg × Bool :=
  match s.viewAt aid with
  | some v => (((lookupAllowed v.allowed u).map (fun x => (⟨v.a.id, x.bidder, x.cap⟩ : AllowedArg))).getD default,
               (lookupAllowed v.allowed u).isNone)
  | none => (default, true)

/-- the `AllowedBidder` records under the prefix `aid` -/
def allowedArgsOf (s : GStore) (aid : Int) : List AllowedArg :=
  ((s.viewAt aid).map (fun v => v.allowed.map (fun x => (⟨v.a.id, x.bidder, x.cap⟩ : AllowedArg)))).getD []

end GStore

/-! ### gRPC query requests and responses (keeper/query_*.go)

  A request's string fields are modelled by what they denote: `""` is `none`; a bech32 string is
  the account it names (`validAcc` false: not an address); `is_matched`, `status`, `type` are the
  value they spell or `junk`. -/

inductive BoolStr where
  | is (b : Bool)
  | junk
  deriving DecidableEq, Repr, Inhabited

inductive ATypeStr where
  | is (t : AType)
  | junk
  deriving DecidableEq, Repr, Inhabited

inductive StatusStr where
  | is (s : Status)
  | junk
  deriving DecidableEq, Repr, Inhabited

structure ListBidReq where
  aid : Int
  bidder : Option Acc
  isMatched : Option BoolStr

structure GetBidReq where
  aid : Int
  bidId : Int

structure ListAuctionReq where
  status : Option StatusStr
  type : Option ATypeStr

structure GetAuctionReq where
  aid : Int

structure ListAllowedReq where
  aid : Int

structure GetAllowedReq where
  aid : Int
  bidder : Acc

structure ListVqReq where
  aid : Int

structure ListBidResp where
  bid : List Bid
  deriving DecidableEq, Repr

structure GetBidResp where
  bid : Bid
  deriving DecidableEq, Repr

structure ListAuctionResp where
  auction : List Auction
  deriving DecidableEq, Repr

structure GetAuctionResp where
  auction : Auction
  deriving DecidableEq, Repr

structure ListAllowedResp where
  allowed : List AllowedArg
  deriving Repr

structure GetAllowedResp where
  allowed : AllowedArg
  deriving Repr

structure ListVqResp where
  vqs : List VQ
  deriving DecidableEq, Repr

namespace Go

/-- all pages of `query.Collection(Filtered)Paginate` together: the records, in key order, that
    satisfy the predicate, transformed; an error of either closure aborts the listing -/
def paginate {α β : Type} (l : List α) (pred : α → Bool × Bool) (tr : α → β × Bool) : List β × Unit × Bool :=
  let kept := l.filter (fun x => (pred x).1)
  (kept.map (fun x => (tr x).1), (), l.any (fun x => (pred x).2) || kept.any (fun x => (tr x).2))

/-- `strconv.ParseBool` of a request string -/
def parseBoolStr : Option BoolStr → Bool × Bool
  | some (.is b) => (b, false)
  | _ => (false, true)

/-- `sdk.AccAddressFromBech32` of an optional request string -/
def optAccParse : Option Acc → Acc × Bool
  | some u => (u, !validAcc u)
  | none => (default, true)

end Go

/-- the model's state as a store -/
def storeOf (s : Core) : GStore := { params := s.params, seq := s.views.length, views := s.views }

namespace Go
/-- `types.DefaultGenesis()` -/
def defaultGenesis : GenesisG := { params := Params.default, auctions := [], allowed := [], bids := [], vqs := [] }
end Go
end Fundraising
