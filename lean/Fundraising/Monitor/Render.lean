import Fundraising.Model.Step
/-
  Rendering of observation blocks (/verif/PROTOCOL.md).  The section between the two
  markers is a verbatim copy of the `printing` section of /verif/lean/Main.lean (the
  model driver): `lineAuction`, `lineAllowed`, `lineBid`, `lineVQ`, `dumpState`, `lineEff`,
  `lineRes`, `queryLines`; wrapped in the namespace `Fundraising.Monitor`.
-/
namespace Fundraising.Monitor
open Fundraising

-- BEGIN verbatim copy of Main.lean (printing)
def join (ts : List String) : String := " ".intercalate ts

def lineAuction (a : Auction) : String :=
  join (["A", rNat a.id, (if a.type = .fixed then "F" else "B"), rNat a.status.code, rAcc a.auctioneer,
         rNat a.sellDenom, rInt a.sellAmt, rNat a.payDenom, rInt a.startPrice, rInt a.startTime,
         rNat a.endTimes.length] ++ a.endTimes.map rInt ++ rSchedules a.schedules
        ++ [s!"S{a.id}", s!"P{a.id}", s!"V{a.id}"]
        ++ (if a.type = .fixed then ["F", rInt a.remaining]
            else ["B", rInt a.minBid, rInt a.matchedPrice, rNat a.maxExt, rInt a.rate]))

def lineAllowed (aid : Nat) (x : Allowed) : String :=
  join ["W", rNat aid, rAcc x.bidder, rNat aid, rAcc x.bidder, rInt x.cap]

def lineBid (aid : Nat) (b : Bid) : String :=
  join ["B", rNat aid, rNat b.id, rNat b.auction, rNat b.id, rAcc b.bidder, rBidType b.type,
        rInt b.price, rNat b.denom, rInt b.amt, rBool b.matched]

def lineVQ (aid : Nat) (q : VQ) : String :=
  join ["Q", rNat aid, rInt q.release, rNat q.auction, rInt q.release, rAcc q.auctioneer,
        rNat q.denom, rInt q.amt, rBool q.released]

def NUSERS : Nat := 12
def NDENOMS : Nat := 6

def dumpState (s : Core) : List String :=
  let n := s.views.length
  let addrs : List Addr :=
    (List.range NUSERS).map Addr.user
    ++ (List.range n).flatMap (fun a => [Addr.sell a, Addr.pay a, Addr.vest a]) ++ [Addr.pool]
  [join (["P"] ++ rCoins s.params.creationFee ++ rCoins s.params.bidFee ++ [rNat s.params.period]),
   join ["N", rNat n]]
  ++ s.views.map (fun v => lineAuction v.a)
  ++ s.views.flatMap (fun v => v.allowed.map (lineAllowed v.a.id))
  ++ s.views.flatMap (fun v => v.bids.map (lineBid v.a.id))
  ++ s.views.flatMap (fun v => v.vqs.map (lineVQ v.a.id))
  ++ s.views.filterMap (fun v => if v.matchedLen = 0 then none else some (join ["L", rNat v.a.id, rInt v.matchedLen]))
  ++ s.views.filterMap (fun v => if v.bidSeq = 0 then none else some (join ["S", rNat v.a.id, rNat v.bidSeq]))
  ++ addrs.flatMap (fun a => (List.range NDENOMS).filterMap (fun d =>
      let b := s.bank a d
      if b = 0 then none else some (join ["C", rAddr a, rNat d, rInt b])))
  ++ [join ["I", rBool (sellingInvBroken s), rBool (payingInvBroken s), rBool (vestingInvBroken s),
            rBool (allInvariantsBroken s)]]

def lineEff : Eff → String
  | .hook i name args => join (["H", rNat i, name] ++ args)
  | .xfer t =>
    match t.kind with
    | .send => join (["T", "send", rAddr t.src, rAddr t.dst] ++ rCoins t.coins)
    | .io => join (["T", "io", rAddr t.src, rAddr t.dst] ++ rCoins t.coins)
    | .pool => join (["T", "pool", rAddr t.src] ++ rCoins t.coins)

def lineRes : Res → String
  | .ok => "res ok" | .err => "res err" | .panic => "res panic"
  | .errWith w => s!"res err {w}"

def queryLines (s : Core) : Query → Option (List String)
  | .bids aid u m => some ((queryBids s aid u m).map (fun b => "R " ++ lineBid b.auction b))
  | .allowed _ => some ((queryAllowedAll s).map (fun p => "R " ++ lineAllowed p.1 p.2))
  | .vestings _ => some ((queryVestingsAll s).map (fun q => "R " ++ lineVQ q.auction q))
  | .auctions st ty => some ((queryAuctions s st ty).map (fun a => "R " ++ lineAuction a))
  | .auction aid => (queryAuction s aid).map (fun a => ["R " ++ lineAuction a])
  | .bid aid b => (queryBid s aid b).map (fun x => ["R " ++ lineBid aid x])
  | .allowedOne aid u => (queryAllowedOne s aid u).map (fun x => ["R " ++ lineAllowed aid x])
-- END verbatim copy of Main.lean (printing)

end Fundraising.Monitor
