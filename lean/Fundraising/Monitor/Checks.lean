import Fundraising.Monitor.Parse
import Fundraising.Spec.Clearing
import Fundraising.Spec.Invariants
/-
  The monitors: the decidable predicates the theorems are about, evaluated on states and
  effects reported by the implementation (see /verif/PROTOCOL.md for the stream format).

  * `check…WF`, `checkEscrow…` are Bool versions of the `Prop` structures of
    Spec/Invariants.lean; they return the names of the fields that fail.
  * `stateChecks` (S1–S5) look at one state, `transChecks` (T1–T12) at two consecutive
    states plus the op and its effect lines.
  * everything is a pure function into the writer `CM` (violations + evaluation counts).
-/
namespace Fundraising.Monitor
open Fundraising

/-! ### output -/

structure Viol where
  c : String
  sig : String
  msg : String
  deriving Repr, Inhabited

structure Out where
  viols : Array Viol := #[]
  counts : List ((String × String) × Nat) := []
  deriving Inhabited

abbrev CM := StateM Out

def viol (c sig msg : String) : CM Unit :=
  modify fun o => { o with viols := o.viols.push ⟨c, sig, msg⟩ }

def bumpCount (k : String × String) (n : Nat) :
    List ((String × String) × Nat) → List ((String × String) × Nat)
  | [] => [(k, n)]
  | (k', m) :: rest => if k' == k then (k', m + n) :: rest else (k', m) :: bumpCount k n rest

/-- one more non-trivial evaluation of monitor `name` (property `c`) -/
def count (c name : String) (n : Nat := 1) : CM Unit :=
  modify fun o => { o with counts := bumpCount (c, name) n o.counts }

/-- a monitor could not be evaluated (data missing / unparsable) -/
def skip : CM Unit := count "C00" "parse-skip"

/-! ### per-history context -/

structure HCtx where
  /-- a third-party transfer into an escrow account happened in this history -/
  gift : Bool := false
  /-- gifts to escrows of auctions that did not exist (not reported until N grows) -/
  hidden : List (Nat × Denom × Int) := []
  /-- the same gifts with the exact escrow address (used by the one-step predictor) -/
  hiddenAt : List (Addr × Denom × Int) := []
  fault : Option Nat := none
  failhooks : List (String × Nat) := []
  listeners : Nat := 0
  /-- block time -/
  now : Int := 1700000000
  deriving Inhabited

/-- a block together with the model state its dump describes -/
structure Obs where
  b : Block
  s : Core
  deriving Inhabited

def Obs.ofBlock (b : Block) : Obs := { b := b, s := b.dump.core }

def moduleOpKinds : List String :=
  ["createF", "createB", "cancel", "place", "modify", "addmsg", "params", "kadd", "kupd", "block"]

def Block.isModuleOp (b : Block) : Bool := !b.isBadOp && moduleOpKinds.contains b.kind

def Block.armed (h : HCtx) (b : Block) : Bool :=
  h.fault.isSome || !h.failhooks.isEmpty
  || b.comments.any (fun c => c.startsWith "# fault fired" || c.startsWith "# failhook fired")

/-- the context after the op of block `b` -/
def ctxAfter (h : HCtx) (b : Block) : HCtx :=
  if b.isBadOp then h else
  let h : HCtx :=
    match b.op with
    | some (.gift _ dst d amt) =>
      if b.isOk then
        match addrAuction dst with
        | some a =>
          let n := b.dump.n.getD b.dump.numAuctions
          { h with gift := true,
                   hidden := if a ≥ n then h.hidden ++ [(a, d, amt)] else h.hidden,
                   hiddenAt := if a ≥ n then h.hiddenAt ++ [(dst, d, amt)] else h.hiddenAt }
        | none => h
      else h
    | some (.fault k) => if b.isOk then { h with fault := some k } else h
    | some (.failhook name i) =>
      if b.isOk then { h with failhooks := (name, i) :: h.failhooks.filter (· != (name, i)) } else h
    | some (.listeners n) => if b.isOk then { h with listeners := n } else h
    | some (.block t) => { h with now := t }
    | _ => h
  if b.isModuleOp then { h with fault := none, failhooks := [] } else h

/-! ### Bool versions of the invariants (Spec/Invariants.lean) -/

def fld (ok : Bool) (name : String) : List String := if ok then [] else [name]

/-- `AuctionWF` -/
def checkAuctionWF (a : Auction) : List String :=
  fld (validAcc a.auctioneer) "auctioneer"
  ++ fld (decide (0 < a.sellAmt)) "sellPos"
  ++ fld (decide (0 < a.startPrice)) "pricePos"
  ++ fld (a.sellDenom != a.payDenom) "denomNe"
  ++ fld (validDenom a.sellDenom) "sellDenomOk"
  ++ fld (validDenom a.payDenom) "payDenomOk"
  ++ fld (!a.endTimes.isEmpty) "endNonempty"
  ++ fld (decide (a.endTimes.length ≤ a.maxExt + 1)) "endLen"
  ++ fld (decide (a.maxExt ≤ 30)) "maxExt"
  ++ fld (validSchedules a.schedules (a.endTimes.headD 0)) "sched"
  ++ fld (decide (a.schedules.length ≤ 100)) "schedLen"
  ++ fld (a.type != .batch || (decide (0 < a.minBid) && decide (0 < a.rate))) "batch"
  ++ fld (a.type != .fixed || a.maxExt == 0) "fixed"

/-- `BidWF` -/
def checkBidWF (a : Auction) (allowed : List Allowed) (b : Bid) : List String :=
  fld (b.auction == a.id) "auction"
  ++ fld (validAcc b.bidder) "bidder"
  ++ fld (decide (0 < b.price)) "price"
  ++ fld (decide (0 < b.amt)) "amt"
  ++ fld (lookupAllowed allowed b.bidder).isSome "listed"
  ++ fld (a.type != .fixed ||
          (b.type == .fixed && b.price == a.startPrice
           && (b.denom == a.payDenom || b.denom == a.sellDenom))) "fixed"
  ++ fld (a.type != .batch ||
          ((b.type == .worth && b.denom == a.payDenom)
           || (b.type == .many && b.denom == a.sellDenom))) "batch"
  ++ fld (a.type != .batch || decide (a.minBid ≤ b.price)) "minBid"

def strictlyIncreasing : List Nat → Bool
  | [] => true
  | [_] => true
  | x :: y :: rest => decide (x < y) && strictlyIncreasing (y :: rest)

/-- the released flags form a prefix -/
def releasedPrefixOk (vqs : List VQ) : Bool :=
  ((vqs.map (·.released)).dropWhile id).all (!·)

/-- `ViewWF`: (failing field, detail) -/
def checkViewWF (i : Nat) (v : AView) : List (String × String) :=
  let a := v.a
  let st := a.status
  let f (ok : Bool) (name detail : String) : List (String × String) :=
    if ok then [] else [(name, detail)]
  f (a.id == i) "id" s!"record id {a.id} at position {i}"
  ++ (checkAuctionWF a).map (fun n => ("auction." ++ n, s!"auction {i}"))
  ++ v.bids.flatMap (fun b =>
      (checkBidWF a v.allowed b).map (fun n => ("bid." ++ n, s!"auction {i} bid {b.id} bidder u{b.bidder}")))
  ++ f (v.bids.map (·.id) == (List.range v.bids.length).map (· + 1)) "bidIds"
       s!"auction {i} bid ids {v.bids.map (·.id)}"
  ++ f (v.bidSeq == v.bids.length) "bidSeq" s!"auction {i} BidSeq={v.bidSeq} bids={v.bids.length}"
  ++ f (v.allowed.all (fun x => validAcc x.bidder && decide (0 < x.cap))) "caps" s!"auction {i}"
  ++ f (strictlyIncreasing (v.allowed.map (·.bidder))) "allowedSorted" s!"auction {i}"
  ++ f (!(st == .standby || st == .cancelled) || v.bids.isEmpty) "noBidsBefore"
       s!"auction {i} status {st.code} has {v.bids.length} bids"
  ++ f (a.type != .batch || v.matchedLen == countMatched v.bids) "matchedLenBatch"
       s!"auction {i} MatchedBidsLen={v.matchedLen} flagged={countMatched v.bids}"
  ++ f (a.type != .fixed || v.matchedLen == 0) "matchedLenFixed"
       s!"auction {i} MatchedBidsLen={v.matchedLen}"
  ++ f (!(a.type == .fixed && (st == .standby || st == .started))
        || (a.remaining == a.sellAmt - soldOf v && decide (0 ≤ a.remaining))) "remaining"
       s!"auction {i} remaining={a.remaining} sellAmt={a.sellAmt} sold={soldOf v}"
  ++ f (!(st == .standby || st == .started || st == .cancelled) || v.vqs.isEmpty) "vqsNone"
       s!"auction {i} status {st.code} has {v.vqs.length} vesting queues"
  ++ f (!(st == .vesting || st == .finished)
        || v.vqs.map (·.release) == a.schedules.map (·.release)) "vqsSome"
       s!"auction {i} queue releases {v.vqs.map (·.release)} schedule {a.schedules.map (·.release)}"
  ++ f (v.vqs.all (fun q => decide (0 ≤ q.amt) && q.denom == a.payDenom
                            && q.auctioneer == a.auctioneer && q.auction == i)) "vqsWF" s!"auction {i}"
  ++ f (releasedPrefixOk v.vqs) "releasedPrefix" s!"auction {i} flags {v.vqs.map (·.released)}"
  ++ f (st != .vesting || (match v.vqs.getLast? with
                           | some q => !q.released
                           | none => false)) "vestingOpen" s!"auction {i}"
  ++ f (st != .finished || v.vqs.all (·.released)) "finishedAll" s!"auction {i}"

/-- `EscrowCovered`: which of sell / pay / vest is short, with (owed, balance) -/
def checkEscrowCovered (s : Core) (i : Nat) (v : AView) : List (String × Int × Int) :=
  let g (name : String) (owed bal : Int) : List (String × Int × Int) :=
    if owed ≤ bal then [] else [(name, owed, bal)]
  g "sell" (owedSell v) (s.bank (.sell i) v.a.sellDenom)
  ++ g "pay" (owedPay v) (s.bank (.pay i) v.a.payDenom)
  ++ g "vest" (owedVest v) (s.bank (.vest i) v.a.payDenom)

def universeDenoms : List Denom := List.range 6

/-- `EscrowExact` on the denoms 0…5, beyond `EscrowCovered`: (sig suffix, detail) -/
def checkEscrowExact (s : Core) (i : Nat) (v : AView) : List (String × String) :=
  let g (name : String) (addr : Addr) (own : Denom) (owed : Int) : List (String × String) :=
    universeDenoms.flatMap (fun d =>
      let bal := s.bank addr d
      if d = own then
        if bal > owed then [(name ++ "-excess", s!"{rAddr addr} denom {d} balance {bal} owed {owed}")] else []
      else if bal ≠ 0 then [("foreign-denom", s!"{rAddr addr} denom {d} balance {bal}")] else [])
  g "sell" (.sell i) v.a.sellDenom (owedSell v)
  ++ g "pay" (.pay i) v.a.payDenom (owedPay v)
  ++ g "vest" (.vest i) v.a.payDenom (owedVest v)

/-! ### S1–S5: state monitors -/

/-- property and sig for a failing `ViewWF` field -/
def wfSig (field : String) : String × String :=
  if field == "id" then ("C19", "key-record-mismatch:A-id")
  else if field == "auction.endLen" then ("C13", "endtimes-len")
  else if field == "bid.listed" then ("C10", "bid-not-allowlisted")
  else if field == "bid.auction" then ("C15", "key-record-mismatch:B-auction")
  else if field == "bidIds" || field == "bidSeq" then ("C19", "bidseq")
  else if field == "caps" then ("C10", "wf:caps")
  else if field == "noBidsBefore" then ("C08", "wf:noBidsBefore")
  else if field == "matchedLenBatch" || field == "matchedLenFixed" then ("C16", "matchedlen-flags")
  else if field == "remaining" then ("C06", "remainder")
  else if field.startsWith "vq" || field == "releasedPrefix" || field == "vestingOpen"
          || field == "finishedAll" then ("C09", "vq-shape:" ++ field)
  else if field.startsWith "auction." || field.startsWith "bid." then ("C18", "wf:" ++ field)
  else ("C19", "wf:" ++ field)

def stateChecks (h : HCtx) (o : Obs) : CM Unit := do
  let d := o.b.dump
  let s := o.s
  if d.bad > 0 then count "C00" "parse-skip" d.bad
  if o.b.bad > 0 then count "C00" "parse-skip" o.b.bad
  let nA := d.numAuctions
  -- S1: key / record consistency
  match d.n with
  | some n =>
    count "C19" "key-record"
    if n ≠ nA then viol "C19" "key-record-mismatch:N" s!"N={n} but {nA} auction records"
  | none => skip
  for r in d.as do
    count "C19" "key-record"
    if r.sellRes != s!"S{r.a.id}" || r.payRes != s!"P{r.a.id}" || r.vestRes != s!"V{r.a.id}" then
      viol "C19" "key-record-mismatch:A-reserve"
        s!"auction {r.a.id} reserve addresses {r.sellRes} {r.payRes} {r.vestRes}"
    if r.remX then
      viol "C19" "key-record-mismatch:A-remaining-denom" s!"auction {r.a.id} remaining coin not in selling denom"
  for w in d.ws do
    count "C15" "key-record"
    if w.kAuction ≠ w.rAuction then
      viol "C15" "key-record-mismatch:W-auction" s!"allowed bidder key ({w.kAuction},{w.kBidder}) record auction {w.rAuction}"
    if w.kBidder ≠ w.rBidder then
      viol "C15" "key-record-mismatch:W-bidder" s!"allowed bidder key ({w.kAuction},{w.kBidder}) record bidder {w.rBidder}"
    if w.kAuction ≥ nA then
      viol "C19" "key-record-mismatch:orphan-W" s!"allowed bidder key ({w.kAuction},{w.kBidder}) but {nA} auctions"
  for b in d.bs do
    count "C15" "key-record"
    if b.kAuction ≠ b.bid.auction || b.kId ≠ b.bid.id then
      viol "C15" "key-record-mismatch:B" s!"bid key ({b.kAuction},{b.kId}) record ({b.bid.auction},{b.bid.id})"
    if b.kAuction ≥ nA then
      viol "C19" "key-record-mismatch:orphan-B" s!"bid key ({b.kAuction},{b.kId}) but {nA} auctions"
  for q in d.qs do
    count "C15" "key-record"
    if q.kAuction ≠ q.vq.auction || q.kRelease ≠ q.vq.release then
      viol "C15" "key-record-mismatch:Q" s!"vesting queue key ({q.kAuction},{q.kRelease}) record ({q.vq.auction},{q.vq.release})"
    if q.kAuction ≥ nA then
      viol "C19" "key-record-mismatch:orphan-Q" s!"vesting queue key ({q.kAuction},{q.kRelease}) but {nA} auctions"
  for p in d.ls do
    if p.1 ≥ nA then viol "C19" "key-record-mismatch:orphan-L" s!"MatchedBidsLen key {p.1} but {nA} auctions"
  for p in d.ss do
    if p.1 ≥ nA then viol "C19" "key-record-mismatch:orphan-S" s!"BidSeq key {p.1} but {nA} auctions"
  -- S2, S3, S5 and the rest of ViewWF
  for (v, i) in s.views.zipIdx do
    count "C19" "view-wf"
    count "C10" "bid-allowlisted" v.bids.length
    count "C19" "bidseq"
    count "C13" "endtimes-len"
    if v.a.type == .batch then count "C16" "matchedlen-flags"
    if v.a.type == .fixed && (v.a.status == .standby || v.a.status == .started) then count "C06" "remainder"
    -- C16 (Props/C16.C16_fixed_flag): a fixed-price bid is flagged exactly when it buys at least
    -- one coin — which is what it receives at settlement (C06_close_allocates_accepted_bids)
    if v.a.type == .fixed then
      count "C16" "flags:fixed" v.bids.length
      for b in v.bids do
        if b.matched != decide (b.toSelling v.a.payDenom > 0) then
          viol "C16" "flags:fixed" s!"auction {i} bid {b.id}: flagged {b.matched} but it buys {b.toSelling v.a.payDenom} coins"
    if v.a.status == .vesting || v.a.status == .finished || !v.vqs.isEmpty then count "C09" "vq-shape"
    for (field, detail) in checkViewWF i v do
      let (c, sig) := wfSig field
      -- a bid filed under a foreign auction key is reported once, by S1
      if field != "bid.auction" then viol c sig s!"{field}: {detail}"
    -- S4: escrows
    count "C01" "escrow-covered"
    for (name, owed, bal) in checkEscrowCovered s i v do
      viol "C01" s!"escrow-{name}-short" s!"auction {i} status {v.a.status.code}: owes {owed}, escrow holds {bal}"
    if !h.gift then
      count "C01" "escrow-exact"
      for (name, detail) in checkEscrowExact s i v do
        viol "C01" s!"escrow-{name}" s!"auction {i} status {v.a.status.code}: {detail}"
  -- S5: the module's OWN invariants (keeper/invariants.go), run by the harness on the real keeper:
  -- none may be broken (Props/C01.C01_module_invariants_hold), and each flag must be what the
  -- model's function — proved equal to the translated Go function, Proofs/Tie/Invariants — gives
  -- on the reported state
  match d.inv with
  | none => skip
  | some fl =>
    count "C01" "module-invariants"
    let names := ["selling-pool-reserve-amount", "paying-pool-reserve-amount", "vesting-pool-reserve-amount", "all"]
    let want := [sellingInvBroken s, payingInvBroken s, vestingInvBroken s, allInvariantsBroken s]
    for (name, got, w) in names.zip (fl.zip want) do
      match got with
      | none => viol "C01" s!"module-invariant-panics:{name}" s!"the module's invariant {name} panicked"
      | some true => viol "C01" s!"module-invariant-broken:{name}" s!"the module's invariant {name} reports broken"
      | some false =>
        if w && !d.unknownSeen then
          viol "C01" s!"module-invariant-silent:{name}" s!"the module's invariant {name} reports ok on a state that breaks it"

/-! ### helpers for the transition monitors -/

def opAuction? : Op → Option Nat
  | .msg (.cancel _ a) => some a
  | .msg (.place _ a _ _ _ _) => some a
  | .msg (.modify _ a _ _ _ _) => some a
  | .msg (.addAllowed a _) => some a
  | .kadd a _ => some a
  | .kupd a _ _ => some a
  | _ => none

def coinsAmt (cs : List Coin) (d : Denom) : Int := ((cs.filter (·.denom == d)).map (·.amt)).sum

def oneCoin (d : Denom) (amt : Int) : List Coin := if amt = 0 then [] else [⟨d, amt⟩]

/-- reported supply of denom `k`, including gifts parked on escrows that are not reported yet -/
def totalOf (d : Dump) (hidden : List (Nat × Denom × Int)) (k : Denom) : Int :=
  let n := d.n.getD d.numAuctions
  ((d.cs.filter (·.2.1 == k)).map (·.2.2)).sum
  + ((hidden.filter (fun x => x.2.1 == k && x.1 ≥ n)).map (·.2.2)).sum

def edgeOk (a b : Nat) : Bool :=
  a == b || (a, b) == (1, 2) || (a, b) == (2, 3) || (a, b) == (2, 4) || (a, b) == (3, 4) || (a, b) == (1, 5)

def minPrice (ps : List Dec) : Option Dec :=
  ps.foldl (fun m p => match m with
    | none => some p
    | some q => some (if p < q then p else q)) none

/-- Bool version of `∃ p, IsClearingPrice bids allowed S p`: the lowest recorded price
    whose capped demand fits the supply (`none` ⇔ `NoPriceFits`) -/
def clearingPrice? (bids : List Bid) (allowed : List Allowed) (S : Int) : Option Dec :=
  minPrice ((bids.map (·.price)).filter (fun p => decide (demand bids allowed p ≤ S)))

def isClearingPriceB (bids : List Bid) (allowed : List Allowed) (S : Int) (p : Dec) : Bool :=
  bids.any (·.price == p) && decide (demand bids allowed p ≤ S)
  && bids.all (fun b => !decide (demand bids allowed b.price ≤ S) || decide (p ≤ b.price))

def noPriceFitsB (bids : List Bid) (allowed : List Allowed) (S : Int) : Bool :=
  bids.all (fun b => !decide (demand bids allowed b.price ≤ S))

/-- `BookWF` as a Bool -/
def bookOk (a : Auction) (bids : List Bid) (allowed : List Allowed) : Bool :=
  bids.all (fun b =>
    ((b.type == .worth && b.denom == a.payDenom) || (b.type == .many && b.denom != a.payDenom))
    && decide (0 < b.price) && decide (0 < b.amt) && (lookupAllowed allowed b.bidder).isSome)
  && allowed.all (fun x => decide (0 < x.cap))
  && decide (0 < a.sellAmt)

/-! ### T1: supply -/

def checkSupply (h h' : HCtx) (p c : Obs) : CM Unit := do
  let b := c.b
  let k := b.kind
  if k == "fund" || k == "reset" then return
  let unreported : Bool :=
    match b.op with
    | some (.gift src (.user u) _ _) => decide (u > 11) || decide (src > 11)
    | some (.gift src _ _ _) => decide (src > 11)
    | _ => false
  if b.tUnknown || p.b.dump.unknownSeen || b.dump.unknownSeen || unreported then
    skip
    return
  count "C02" "supply"
  for dn in universeDenoms do
    let before := totalOf p.b.dump h.hidden dn
    let after := totalOf b.dump h'.hidden dn
    if before ≠ after then
      viol "C02" s!"supply:{dn}" s!"total reported supply of denom {dn} went from {before} to {after} in `{b.opLine}`"

/-! ### T2: lifecycle -/

def checkLifecycle (h : HCtx) (p c : Obs) : CM Unit := do
  let b := c.b
  for (pv, i) in p.s.views.zipIdx do
    match c.s.views[i]? with
    | none => viol "C19" "frame:auction-removed" s!"auction {i} disappeared in `{b.opLine}`"
    | some cv =>
      let x := pv.a.status.code
      let y := cv.a.status.code
      if x ≠ y then
        count "C08" "status-edge"
        if !edgeOk x y then
          viol "C08" s!"status-edge:{x}->{y}" s!"auction {i} status {x} -> {y} in `{b.opLine}`"
        else if y ≠ 5 && b.kind != "block" then
          viol "C08" s!"status-edge-op:{x}->{y}" s!"auction {i} status {x} -> {y} outside a block, in `{b.opLine}`"
  -- bids only while open
  if b.isOk then
    match b.op with
    | some (.msg (.place _ a _ _ _ _)) | some (.msg (.modify _ a _ _ _ _)) =>
      match p.s.views[a]? with
      | some pv =>
        count "C08" "bid-when-open"
        if pv.a.status != .started then
          viol "C08" "bid-when-not-open" s!"`{b.opLine}` accepted while auction {a} had status {pv.a.status.code}"
      | none => viol "C08" "bid-when-not-open" s!"`{b.opLine}` accepted but auction {a} did not exist"
    | some (.block t) =>
      for (pv, i) in p.s.views.zipIdx do
        match c.s.views[i]? with
        | none => pure ()
        | some cv =>
          match pv.a.status with
          | .standby =>
            count "C08" "block-timing"
            if pv.a.startTime ≤ t then
              if cv.a.status == .standby then
                viol "C08" "not-opened" s!"auction {i} start {pv.a.startTime} <= block time {t} but still standby"
            else if cv.a.status != .standby then
              viol "C08" "early:open" s!"auction {i} start {pv.a.startTime} > block time {t} but status {cv.a.status.code}"
          | .started =>
            match pv.a.endTimes.getLast? with
            | none => skip
            | some e =>
              count "C08" "block-timing"
              if e ≤ t then
                if cv.a.status == .started && cv.a.endTimes.length == pv.a.endTimes.length then
                  viol "C08" "not-settled" s!"auction {i} end {e} <= block time {t} but neither settled nor extended"
              else if cv.a.status != .started || cv.a.endTimes != pv.a.endTimes then
                viol "C08" "early:settle" s!"auction {i} end {e} > block time {t} but status {cv.a.status.code} end times {cv.a.endTimes}"
          | .vesting =>
            for q in pv.vqs do
              match cv.vqs.find? (·.release == q.release) with
              | none => pure ()
              | some q' =>
                count "C08" "block-timing"
                if q.release ≤ t then
                  if !q'.released then
                    viol "C08" "not-released" s!"auction {i} instalment {q.release} <= block time {t} not released"
                else if q'.released && !q.released then
                  viol "C08" "early:release" s!"auction {i} instalment {q.release} > block time {t} released"
          | _ => pure ()
    | some (.msg (.create m)) =>
      match c.s.views[p.s.views.length]? with
      | none => pure ()   -- reported by the frame monitor (N)
      | some cv =>
        count "C08" "create-status"
        let expected : Status := if m.startTime ≤ h.now then .started else .standby
        if cv.a.status != expected then
          viol "C08" "create-status" s!"auction {cv.a.id} created at block time {h.now} with start {m.startTime}: status {cv.a.status.code}, expected {expected.code}"
        let a := cv.a
        if !(a.auctioneer == m.auctioneer && a.type == m.type && a.sellDenom == m.sellDenom
             && a.sellAmt == m.sellAmt && a.payDenom == m.payDenom && a.startPrice == m.startPrice
             && a.startTime == m.startTime && a.endTimes == [m.endTime] && a.schedules == m.schedules
             && (m.type != .batch || (a.minBid == m.minBid && a.maxExt == m.maxExt && a.rate == m.rate))) then
          viol "C19" "terms:create-mismatch" s!"auction {a.id} was not recorded with the terms of `{b.opLine}`"
    | _ => pure ()

/-! ### T3: bids -/

def checkBids (p c : Obs) : CM Unit := do
  let b := c.b
  for (pv, i) in p.s.views.zipIdx do
    match c.s.views[i]? with
    | none => pure ()
    | some cv =>
      -- C05: a fixed-price bid that has just been accepted keeps its bidder's total, over ALL their
      -- bids in this auction, within the allowance as it stands at that moment (what is accepted is
      -- what is allocated at settlement)
      if pv.a.type == .fixed then
        for nb in cv.bids.filter (fun x => !(pv.bids.any (·.id == x.id))) do
          count "C05" "accepted-within-cap"
          let tot := sumOver cv.bids nb.bidder (·.toSelling pv.a.payDenom)
          if tot > capOf pv.allowed nb.bidder then
            viol "C05" "over-cap:accepted" s!"auction {i}: `{b.opLine}` accepted although u{nb.bidder}'s bids then buy {tot}, allowance {capOf pv.allowed nb.bidder}"
      for pb in pv.bids do
        count "C11" "bid-monotone"
        match cv.bids.find? (·.id == pb.id) with
        | none => viol "C11" "bid-removed" s!"auction {i} bid {pb.id} no longer recorded after `{b.opLine}`"
        | some cb =>
          if !(cb.auction == pb.auction && cb.id == pb.id && cb.bidder == pb.bidder
               && cb.type == pb.type && cb.denom == pb.denom) then
            viol "C11" "bid-identity" s!"auction {i} bid {pb.id}: identity changed (now id {cb.id} bidder u{cb.bidder} denom {cb.denom}) in `{b.opLine}`"
          else
            if cb.price < pb.price || cb.amt < pb.amt then
              viol "C11" "bid-lowered" s!"auction {i} bid {pb.id}: price {pb.price}->{cb.price} amount {pb.amt}->{cb.amt} in `{b.opLine}`"
            if cb.price ≠ pb.price || cb.amt ≠ pb.amt then
              let okBy : Bool :=
                match b.op with
                | some (.msg (.modify signer a bidId price _ amt)) =>
                  b.isOk && a == i && bidId == pb.id && signer == pb.bidder
                  && price == cb.price && amt == cb.amt
                | _ => false
              if !okBy then
                viol "C11" "bid-changed-by-other" s!"auction {i} bid {pb.id} of u{pb.bidder} changed (price {pb.price}->{cb.price} amount {pb.amt}->{cb.amt}) by `{b.opLine}`"
  -- modify: the extra charge
  match b.op with
  | some (.msg (.modify signer a bidId _ _ _)) =>
    if b.isOk then
      match p.s.views[a]?, c.s.views[a]? with
      | some pv, some cv =>
        match pv.bids.find? (·.id == bidId), cv.bids.find? (·.id == bidId) with
        | some ob, some nb =>
          count "C11" "modify-charge"
          let pd := pv.a.payDenom
          let delta := nb.toPaying pd - ob.toPaying pd
          let escrowUp := c.s.bank (.pay a) pd - p.s.bank (.pay a) pd
          let fee := ((b.xfers.filter (fun t => t.kind == .pool && t.src == .user signer)).map
                        (coinsAmt ·.coins pd)).sum
          let userDown := p.s.bank (.user signer) pd - c.s.bank (.user signer) pd
          if escrowUp ≠ delta || userDown ≠ delta + fee then
            viol "C11" "modify-charge" s!"auction {a} bid {bidId}: reservation {ob.toPaying pd}->{nb.toPaying pd} (delta {delta}), escrow P{a} changed by {escrowUp}, bidder u{signer} paid {userDown} (fee {fee})"
        | _, _ => viol "C11" "modify-unknown-bid" s!"`{b.opLine}` accepted but bid {bidId} of auction {a} is not recorded"
      | _, _ => skip
  | _ => pure ()

/-! ### T4: cancel -/

def checkCancel (p c : Obs) : CM Unit := do
  let b := c.b
  let cancelOf : Option (Acc × Nat) :=
    match b.op with
    | some (.msg (.cancel signer a)) => if b.isOk then some (signer, a) else none
    | _ => none
  for (pv, i) in p.s.views.zipIdx do
    match c.s.views[i]? with
    | none => pure ()
    | some cv =>
      if pv.a.status != .cancelled && cv.a.status == .cancelled then
        if (cancelOf.map (·.2)) != some i then
          viol "C12" "cancel-by-other-op" s!"auction {i} became cancelled in `{b.opLine}`"
  match cancelOf with
  | none => pure ()
  | some (signer, a) =>
    match p.s.views[a]?, c.s.views[a]? with
    | some pv, some cv =>
      count "C12" "cancel"
      let sd := pv.a.sellDenom
      if signer ≠ pv.a.auctioneer then
        viol "C12" "cancel-unauthorised" s!"auction {a} of u{pv.a.auctioneer} cancelled by u{signer}"
      if pv.a.status != .standby then
        viol "C12" "cancel-late" s!"auction {a} cancelled from status {pv.a.status.code}"
      -- the last block was at or after the start time: the auction ought to be open by now (C08),
      -- so this cancel comes after the opening the users were promised
      if pv.a.status == .standby && decide (pv.a.startTime ≤ p.s.now) then
        viol "C12" "cancel-after-start" s!"auction {a} cancelled at block time {p.s.now}, start time {pv.a.startTime}"
      if cv.a.status != .cancelled then
        viol "C12" "cancel-status" s!"auction {a} has status {cv.a.status.code} after a successful cancel"
      if c.s.bank (.sell a) sd ≠ 0 then
        viol "C12" "cancel-escrow-left" s!"auction {a}: S{a} still holds {c.s.bank (.sell a) sd} of denom {sd}"
      let got := c.s.bank (.user pv.a.auctioneer) sd - p.s.bank (.user pv.a.auctioneer) sd
      if got ≠ p.s.bank (.sell a) sd then
        viol "C12" "cancel-refund" s!"auction {a}: auctioneer u{pv.a.auctioneer} received {got}, escrow held {p.s.bank (.sell a) sd}"
      if cv.a.type == .fixed && cv.a.remaining ≠ 0 then
        viol "C12" "cancel-remaining" s!"auction {a}: remaining {cv.a.remaining} after cancel"
    | _, _ => viol "C12" "cancel-unknown-auction" s!"`{b.opLine}` accepted but auction {a} is not recorded"

/-! ### T5: extension rounds -/

def checkExtend (p c : Obs) : CM Unit := do
  let b := c.b
  let period : Int := (p.s.params.period : Int)
  for (pv, i) in p.s.views.zipIdx do
    match c.s.views[i]? with
    | none => pure ()
    | some cv =>
      let pe := pv.a.endTimes
      let ce := cv.a.endTimes
      if pe ≠ ce then
        count "C13" "extend-shape"
        let next := pv.a.lastEnd + 86400 * period
        if ce ≠ pe ++ [next] then
          viol "C13" "extend-shape" s!"auction {i} end times {pe} -> {ce}, expected one more: {next}"
        if !(pe.length < pv.a.maxExt + 1) then
          viol "C13" "extend-over-max" s!"auction {i} extended with {pe.length} end times and maxExtRound {pv.a.maxExt}"
        if b.kind != "block" then
          viol "C13" "extend-op" s!"auction {i} end times changed by `{b.opLine}`"
        if pv.a.type != .batch || pv.a.status != .started then
          viol "C13" "extend-state" s!"auction {i} (status {pv.a.status.code}) got a new end time"
      -- the decision
      match b.op with
      | some (.block t) =>
        if b.isOk && pv.a.type == .batch && pv.a.status == .started && !pe.isEmpty
           && pv.a.lastEnd ≤ t && pv.bids.length ≤ 12 then
          match calcBatch pv.a pv.bids pv.allowed with
          | none => skip
          | some mi =>
            let last := pv.matchedLen
            let extend : Bool :=
              if pv.a.maxExt + 1 = pe.length then false
              else if last = 0 then true
              else shouldExtend mi.matchedLen last pv.a.rate
            let extended := cv.a.status == .started && ce.length == pe.length + 1
            let settled := cv.a.status == .vesting || cv.a.status == .finished
            if extended || settled then
              count "C13" "extend-decision"
              if extend != extended then
                viol "C13" "extend-decision" s!"auction {i}: matched now {mi.matchedLen}, last {last}, rate {pv.a.rate}, rounds {pe.length}/{pv.a.maxExt + 1}: expected {if extend then "extend" else "settle"}, observed {if extended then "extend" else "settle"}"
              -- the flags and the counter written by the matching (C16); on an extension
              -- only (a settlement is examined by `checkSettlement`)
              if cv.matchedLen ≠ mi.matchedLen then
                viol "C16" "flags:matchedlen" s!"auction {i}: MatchedBidsLen {cv.matchedLen}, matching gives {mi.matchedLen}"
              if extended then
                count "C16" "flags"
                for cb in cv.bids do
                  if cb.matched != mi.matchedIds.contains cb.id then
                    viol "C16" "flags" s!"auction {i} bid {cb.id}: flagged {cb.matched}, matching says {mi.matchedIds.contains cb.id}"
      | _ => pure ()

/-! ### T6: terms, frame, rejected ops -/

def termsDiff (x y : Auction) : List String :=
  fld (x.auctioneer == y.auctioneer) "auctioneer"
  ++ fld (x.sellDenom == y.sellDenom) "sellDenom"
  ++ fld (x.sellAmt == y.sellAmt) "sellAmt"
  ++ fld (x.payDenom == y.payDenom) "payDenom"
  ++ fld (x.startPrice == y.startPrice) "startPrice"
  ++ fld (x.startTime == y.startTime) "startTime"
  ++ fld (x.endTimes.head? == y.endTimes.head?) "endTime"
  ++ fld (x.schedules == y.schedules) "schedules"
  ++ fld (x.type == y.type) "type"
  ++ fld (x.minBid == y.minBid) "minBid"
  ++ fld (x.maxExt == y.maxExt) "maxExt"
  ++ fld (x.rate == y.rate) "rate"
  ++ fld (x.id == y.id) "id"

def checkFrame (p c : Obs) : CM Unit := do
  let b := c.b
  let pd := p.b.dump
  let cd := b.dump
  -- terms
  for (pv, i) in p.s.views.zipIdx do
    match c.s.views[i]? with
    | none => pure ()
    | some cv =>
      count "C19" "terms"
      for f in termsDiff pv.a cv.a do
        viol "C19" s!"terms:{f}" s!"auction {i}: {f} changed in `{b.opLine}`"
  -- rejected ops change nothing (C18)
  if b.failed then
    count "C18" "reject-changed-state"
    if pd.lines ≠ cd.lines then
      let changed := (cd.lines.filter (fun l => !pd.lines.contains l)).headD ""
      viol "C18" "reject-changed-state" s!"`{b.opLine}` failed but the state changed, e.g. `{changed}`"
    return
  let nMax := max pd.numAuctions cd.numAuctions
  let unchanged (i : Nat) (withBalances : Bool) : Bool :=
    pd.linesOfAuction i withBalances == cd.linesOfAuction i withBalances
  let k := b.kind
  if b.isBadOp then return
  match b.op with
  | none => pure ()
  | some op =>
    match opAuction? op with
    | some a =>
      count "C19" "frame"
      for i in List.range nMax do
        if i ≠ a && !unchanged i true then
          viol "C19" "frame:other-auction-changed" s!"`{b.opLine}` changed auction {i}"
      if pd.n ≠ cd.n then viol "C19" "frame:seq" s!"`{b.opLine}` changed the auction sequence {pd.n} -> {cd.n}"
      if pd.params ≠ cd.params then viol "C19" "frame:params" s!"`{b.opLine}` changed the parameters"
    | none =>
      if k == "createF" || k == "createB" then
        count "C19" "frame"
        for i in List.range pd.numAuctions do
          if !unchanged i true then
            viol "C19" "frame:create-touched-existing" s!"`{b.opLine}` changed auction {i}"
        match pd.n, cd.n with
        | some n, some n' =>
          if n' ≠ n + 1 then viol "C19" "frame:create-seq" s!"`{b.opLine}` ok: N {n} -> {n'}"
        | _, _ => skip
        if cd.numAuctions ≠ pd.numAuctions + 1 then
          viol "C19" "frame:create-seq" s!"`{b.opLine}` ok: {pd.numAuctions} -> {cd.numAuctions} auction records"
        if pd.params ≠ cd.params then viol "C19" "frame:params" s!"`{b.opLine}` changed the parameters"
      else if k == "block" then
        if pd.n ≠ cd.n then viol "C19" "frame:seq" s!"`{b.opLine}` changed the auction sequence {pd.n} -> {cd.n}"
        if pd.params ≠ cd.params then viol "C19" "frame:params" s!"`{b.opLine}` changed the parameters"
      else if k == "params" then
        count "C19" "frame"
        for i in List.range nMax do
          if !unchanged i true then viol "C19" "frame:params-touched-auction" s!"`{b.opLine}` changed auction {i}"
        if pd.n ≠ cd.n then viol "C19" "frame:seq" s!"`{b.opLine}` changed the auction sequence {pd.n} -> {cd.n}"
      else if k == "fund" || k == "gift" then
        count "C19" "frame"
        if pd.moduleLines ≠ cd.moduleLines then
          viol "C19" "frame:bank-op-changed-module-state" s!"`{b.opLine}` changed the module state"
      else if k == "genesis" || k == "reset" then pure ()
      else
        -- listeners, failhook, fault, queries
        count "C19" "frame"
        if pd.lines ≠ cd.lines then
          viol "C19" "frame:control-op-changed-state" s!"`{b.opLine}` changed the state"

/-! ### T7: settlement -/

def checkSettlement (h : HCtx) (p c : Obs) : CM Unit := do
  let b := c.b
  for (pv, i) in p.s.views.zipIdx do
    match c.s.views[i]? with
    | none => pure ()
    | some cv =>
      if pv.a.status == .started && (cv.a.status == .vesting || cv.a.status == .finished)
         && b.kind == "block" then
        if b.tUnknown then skip
        else
          let a := pv.a
          let sd := a.sellDenom
          let pd := a.payDenom
          let xs := b.xfers
          let ioS := xs.filter (fun t => t.kind == .io && t.src == .sell i)
          let ioP := xs.filter (fun t => t.kind == .io && t.src == .pay i)
          let allocTo (u : Acc) : Int := ((ioS.filter (·.dst == .user u)).map (coinsAmt ·.coins sd)).sum
          let refundTo (u : Acc) : Int := ((ioP.filter (·.dst == .user u)).map (coinsAmt ·.coins pd)).sum
          let totalAlloc : Int := (ioS.map (coinsAmt ·.coins sd)).sum
          let totalRefund : Int := (ioP.map (coinsAmt ·.coins pd)).sum
          let bidders := biddersOf pv.bids
          if (bidders.map allocTo).sum ≠ totalAlloc then
            viol "C05" "alloc-to-nonbidder" s!"auction {i}: {totalAlloc} allocated in total but only {(bidders.map allocTo).sum} to bidders"
          if (bidders.map refundTo).sum ≠ totalRefund then
            viol "C04" "refund-to-nonbidder" s!"auction {i}: {totalRefund} refunded in total but only {(bidders.map refundTo).sum} to bidders"
          count "C05" "over-supply"
          if totalAlloc > a.sellAmt then
            viol "C05" "over-supply" s!"auction {i}: allocated {totalAlloc} of {a.sellAmt} offered"
          match a.type with
          | .fixed =>
            count "C06" "fixed-alloc"
            for u in bidders do
              let expected := sumOver pv.bids u (·.toSelling pd)
              if allocTo u ≠ expected then
                viol "C06" "fixed-alloc" s!"auction {i}: u{u} received {allocTo u}, accepted bids total {expected}"
              -- (no allowance check here: for fixed-price bids the allowance counts as of the
              --  moment each bid was accepted, `kupd` may have lowered it since)
              if refundTo u ≠ 0 then
                viol "C04" "fixed-refund" s!"auction {i}: u{u} was refunded {refundTo u} in a fixed-price auction"
              -- C04, fixed price: what the bidder paid (the reservations of the accepted bids) is at
              -- least price × received and exceeds it by less than one selling coin's worth per
              -- paying-denominated bid, one paying unit per selling-denominated bid
              count "C04" "fixed-price-bounds"
              let mine := pv.bids.filter (·.bidder == u)
              let paid : Int := (mine.map (·.toPaying pd)).sum
              let slack : Int := (mine.map (fun b => if b.denom == pd then a.startPrice else PREC)).sum
              if a.startPrice * allocTo u > PREC * paid then
                viol "C04" "fixed-price-bounds:underpaid" s!"auction {i}: u{u} received {allocTo u} at {a.startPrice}, paid {paid}"
              if !(PREC * paid < a.startPrice * allocTo u + slack) && !mine.isEmpty then
                viol "C04" "fixed-price-bounds:overpaid" s!"auction {i}: u{u} received {allocTo u} at {a.startPrice}, paid {paid} with {mine.length} bids"
          | .batch =>
            if !bookOk a pv.bids pv.allowed then skip
            else
              count "C03" "clearing"
              let pstar := clearingPrice? pv.bids pv.allowed a.sellAmt
              let small := pv.bids.length ≤ 12
              match pstar with
              | some x =>
                for u in bidders do
                  let expected := cappedDemand pv.bids pv.allowed u x
                  if allocTo u ≠ expected then
                    viol "C03" "clearing-alloc" s!"auction {i}: clearing price {x}; u{u} received {allocTo u}, capped demand {expected}"
              | none =>
                if totalAlloc ≠ 0 then
                  viol "C03" "clearing-nofit-alloc" s!"auction {i}: no bid price fits the supply {a.sellAmt} but {totalAlloc} was allocated"
              count "C16" "matched-price"
              let expPrice : Dec := match pstar with
                | some x => if totalAlloc > 0 then x else 0
                | none => 0
              if cv.a.matchedPrice ≠ expPrice then
                viol "C16" "matched-price" s!"auction {i}: published matched price {cv.a.matchedPrice}, clearing price {expPrice} (allocated {totalAlloc})"
              for u in bidders do
                count "C04" "price-bounds"
                let alloc := allocTo u
                let reserved := reservedOf pv.bids pd u
                let refund := refundTo u
                let pay := reserved - refund
                if alloc > capOf pv.allowed u then
                  viol "C05" "over-cap" s!"auction {i}: u{u} received {alloc}, allowance {capOf pv.allowed u}"
                if pay > reserved || pay < 0 then
                  viol "C04" "price-bounds:reserve" s!"auction {i}: u{u} reserved {reserved}, refunded {refund}"
                if alloc = 0 then
                  if refund ≠ reserved then
                    viol "C04" "price-bounds:loser-refund" s!"auction {i}: u{u} won nothing, reserved {reserved}, refunded {refund}"
                    -- C03's last sentence: "if no bid price qualifies, or the qualifying demand is
                    -- zero, nothing is sold and EVERYTHING IS REFUNDED"
                    let nothingSold : Bool := match pstar with
                      | none => true
                      | some x => bidders.all (fun w => cappedDemand pv.bids pv.allowed w x == 0)
                    if nothingSold then
                      viol "C03" "clearing-none-refund" s!"auction {i}: nothing qualifies (clearing price {pstar}), u{u} reserved {reserved} and was refunded {refund}"
                else
                  match pstar with
                  | none => pure ()
                  | some x =>
                    if x * alloc > PREC * pay then
                      viol "C04" "price-bounds:underpaid" s!"auction {i}: u{u} received {alloc} at {x}, paid {pay}"
                    let nb : Int :=
                      if small then ((cv.bids.filter (fun cb => cb.bidder == u && cb.matched)).length : Int)
                      else ((pv.bids.filter (fun pb => pb.bidder == u && decide (x ≤ pb.price))).length : Int)
                    if !(PREC * pay < x * alloc + PREC * nb) then
                      viol "C04" "price-bounds:overpaid" s!"auction {i}: u{u} received {alloc} at {x}, paid {pay}, {nb} matched bids"
              -- flags
              if small then
                match calcBatch a pv.bids pv.allowed with
                | none => skip
                | some mi =>
                  count "C16" "flags"
                  for cb in cv.bids do
                    if cb.matched != mi.matchedIds.contains cb.id then
                      viol "C16" "flags" s!"auction {i} bid {cb.id}: flagged {cb.matched}, matching says {mi.matchedIds.contains cb.id}"
                  -- a flagged bidder received coins and vice versa
                  for u in bidders do
                    let flagged := cv.bids.any (fun cb => cb.bidder == u && cb.matched)
                    if flagged != decide (allocTo u > 0) then
                      viol "C16" "flags:alloc" s!"auction {i}: u{u} flagged {flagged} but received {allocTo u}"
          -- proceeds and vesting
          count "C09" "split"
          let proceeds := p.s.bank (.pay i) pd - totalRefund
          let coins := oneCoin pd proceeds
          if a.schedules.isEmpty then
            if !xs.any (fun t => t.kind == .send && t.src == .pay i && t.dst == .user a.auctioneer && t.coins == coins) then
              viol "C09" "split-direct" s!"auction {i}: no transfer of the proceeds {proceeds} from P{i} to u{a.auctioneer}"
            if cv.a.status != .finished then
              viol "C09" "split-status" s!"auction {i} without schedule settled into status {cv.a.status.code}"
          else
            if cv.a.status != .vesting then
              viol "C09" "split-status" s!"auction {i} with schedule settled into status {cv.a.status.code}"
            if !xs.any (fun t => t.kind == .send && t.src == .pay i && t.dst == .vest i && t.coins == coins) then
              viol "C09" "split-transfer" s!"auction {i}: no transfer of the proceeds {proceeds} from P{i} to V{i}"
            let amts := cv.vqs.map (·.amt)
            if amts.sum ≠ proceeds then
              viol "C09" "split-sum" s!"auction {i}: instalments {amts} sum to {amts.sum}, proceeds {proceeds}"
            match splitLoop proceeds a.schedules proceeds with
            | none => skip
            | some parts =>
              if cv.vqs.map (fun q => (q.release, q.amt)) ≠ parts then
                viol "C09" "split-amounts" s!"auction {i}: instalments {cv.vqs.map (fun q => (q.release, q.amt))}, expected {parts}"
            if cv.vqs.any (·.released) then
              viol "C09" "split-released" s!"auction {i}: an instalment is flagged released at settlement"
          if !h.gift then
            count "C02" "escrows-empty"
            if c.s.bank (.sell i) sd ≠ 0 || c.s.bank (.pay i) pd ≠ 0 then
              viol "C02" "escrows-empty" s!"auction {i} settled: S{i} holds {c.s.bank (.sell i) sd}, P{i} holds {c.s.bank (.pay i) pd}"

/-! ### T8: vesting releases -/

def checkRelease (p c : Obs) : CM Unit := do
  let b := c.b
  for (pv, i) in p.s.views.zipIdx do
    match c.s.views[i]? with
    | none => pure ()
    | some cv =>
      let mut flipped : List VQ := []
      for q in pv.vqs do
        match cv.vqs.find? (·.release == q.release) with
        | none => viol "C09" "release-q-removed" s!"auction {i} instalment {q.release} disappeared in `{b.opLine}`"
        | some q' =>
          if q'.amt ≠ q.amt || q'.denom ≠ q.denom then
            viol "C09" "release-amount-changed" s!"auction {i} instalment {q.release}: {q.amt} -> {q'.amt} in `{b.opLine}`"
          if q.released && !q'.released then
            viol "C16" "release-unflipped" s!"auction {i} instalment {q.release} no longer released after `{b.opLine}`"
          if !q.released && q'.released then flipped := flipped ++ [q']
      if cv.vqs.length > pv.vqs.length
         && !(pv.a.status == .started && cv.a.status == .vesting && pv.vqs.isEmpty) then
        viol "C09" "release-q-added" s!"auction {i}: vesting queues {pv.vqs.length} -> {cv.vqs.length} in `{b.opLine}`"
      if !flipped.isEmpty then
        count "C09" "release" flipped.length
        match b.op with
        | some (.block t) =>
          for q in flipped do
            if q.release > t then
              viol "C09" "release-early" s!"auction {i} instalment {q.release} released at block time {t}"
          if b.tUnknown then skip
          else
            let sends := b.xfers.filter (fun x => x.src == .vest i)
            let expected : List Transfer :=
              flipped.map (fun q => ⟨.send, .vest i, .user pv.a.auctioneer, oneCoin q.denom q.amt⟩)
            if sends ≠ expected then
              viol "C09" "release-transfer" s!"auction {i}: released {flipped.map (·.amt)} to u{pv.a.auctioneer}, transfers from V{i}: {sends.map (fun x => (rAddr x.dst, rCoins x.coins))}"
        | _ => viol "C09" "release-op" s!"auction {i} instalments {flipped.map (·.release)} released by `{b.opLine}`"

/-! ### T9–T11 -/

def checkBlockTotal (h : HCtx) (c : Obs) : CM Unit := do
  let b := c.b
  if b.kind == "block" && !b.isBadOp then
    count "C07" "block"
    match b.res with
    | some .ok => if h.fault.isSome then count "C07" "fault-not-fired"
    | some r =>
      if !b.armed h then
        let what := match r with
          | .panic => "panic"
          | _ => "err"
        viol "C07" s!"block-failed:{what}" s!"`{b.opLine}` failed ({what}) with no fault or failing listener armed"
    | none => skip

def checkAllowlist (p c : Obs) : CM Unit := do
  let b := c.b
  if b.kind == "addmsg" && !b.isBadOp then
    count "C10" "addmsg"
    if b.isOk then viol "C10" "addmsg-accepted" s!"`{b.opLine}` was accepted"
  count "C10" "allowlist-changed-by-msg"
  if p.b.dump.wLines ≠ b.dump.wLines && !(["kadd", "kupd", "genesis"].contains b.kind) then
    viol "C10" "allowlist-changed-by-msg" s!"`{b.opLine}` changed the allow-list"

def checkGenesis (p c : Obs) : CM Unit := do
  let b := c.b
  if b.kind == "genesis" && !b.isBadOp then
    count "C15" "genesis"
    match b.res with
    | some .ok => pure ()
    | some (.errWith w) => viol "C15" s!"genesis-failed:{w}" s!"genesis round trip failed at stage {w}"
    | some _ => viol "C15" "genesis-failed" "genesis round trip failed"
    | none => skip
    if p.b.dump.lines ≠ b.dump.lines then
      let changed := (b.dump.lines.filter (fun l => !p.b.dump.lines.contains l)).headD ""
      let lost := (p.b.dump.lines.filter (fun l => !b.dump.lines.contains l)).headD ""
      viol "C15" "genesis-changed-state" s!"state differs after the genesis round trip: now `{changed}`, before `{lost}`"

/-! ### T12: hooks -/

abbrev HCall := Nat × String × List String

/-- `hs` is a sequence of complete dispatches to listeners 0…n-1 -/
partial def groupsOk (n : Nat) (hs : List HCall) : Option (String × String) :=
  match hs with
  | [] => none
  | (_, name, args) :: _ =>
    if n = 0 then some ("hook-unregistered-called", s!"{name} called with no active listener")
    else
      let g := hs.take n
      if g.length ≠ n || g.any (fun x => x.2.1 != name) then
        some ("hook-count", s!"{name}: {(g.takeWhile (fun x => x.2.1 == name)).length} calls for {n} listeners")
      else if g.map (·.1) ≠ List.range n then
        some ("hook-order", s!"{name}: listener order {g.map (·.1)}")
      else if g.any (fun x => x.2.2 != args) then
        some ("hook-args", s!"{name}: listeners saw different arguments")
      else groupsOk n (hs.drop n)

/-- "before the change it announces is committed": `BeforeSellingCoinsAllocated aid …` announces the
    allocation AND the refund of auction `aid`; no coin may have left that auction's selling or
    paying reserve in the same operation before the first listener is called -/
def hookAfterPayout (effs : List Eff) : Option (Nat × Nat) :=
  let rec go (pre : List Eff) : List Eff → Option (Nat × Nat)
    | [] => none
    | e :: rest =>
      match e with
      | .hook 0 "BeforeSellingCoinsAllocated" (a :: _) =>
        match a.toNat? with
        | some aid =>
          let n := (pre.filter (fun x => match x with
            | .xfer t => t.src == Addr.sell aid || t.src == Addr.pay aid
            | _ => false)).length
          if n > 0 then some (aid, n) else go (pre ++ [e]) rest
        | none => go (pre ++ [e]) rest
      | _ => go (pre ++ [e]) rest
  go [] effs

def checkHooks (h : HCtx) (c : Obs) : CM Unit := do
  let b := c.b
  let hs := b.hooks
  if hs.isEmpty then return
  count "C17" "hook"
  match hookAfterPayout b.effs with
  | some (aid, n) =>
    viol "C17" "hook-after-commit" s!"`{b.opLine}`: BeforeSellingCoinsAllocated of auction {aid} was called after {n} transfers out of its reserves"
  | none => pure ()
  let n := h.listeners
  let fired := h.failhooks.filter (fun f => f.2 < n && hs.any (fun x => x.1 == f.2 && x.2.1 == f.1))
  match fired with
  | [] =>
    match groupsOk n hs with
    | some (sig, msg) => viol "C17" sig s!"`{b.opLine}`: {msg}"
    | none => pure ()
  | (name, j) :: _ =>
    count "C17" "hook-veto"
    if b.isOk then
      viol "C17" "hook-error-swallowed" s!"`{b.opLine}` succeeded although listener {j} failed {name}"
    let k := (hs.takeWhile (fun x => !(x.1 == j && x.2.1 == name))).length
    if k + 1 ≠ hs.length then
      viol "C17" "hook-called-after-failure" s!"`{b.opLine}`: {hs.length - k - 1} hook calls after listener {j} failed {name}"
    if k < j then
      viol "C17" "hook-order" s!"`{b.opLine}`: listener {j} of {name} called after only {k} calls"
    else
      let pre := hs.take (k - j)
      let last := (hs.drop (k - j)).take (j + 1)
      match groupsOk n pre with
      | some (sig, msg) => viol "C17" sig s!"`{b.opLine}`: {msg}"
      | none => pure ()
      let args := (last.head?.map (·.2.2)).getD []
      if last.map (·.1) ≠ List.range (j + 1) || last.any (fun x => x.2.1 != name) then
        viol "C17" "hook-order" s!"`{b.opLine}`: calls before the failing listener {j} of {name}: {last.map (·.1)}"
      else if last.any (fun x => x.2.2 != args) then
        viol "C17" "hook-args" s!"`{b.opLine}`: {name}: listeners saw different arguments"

/-! ### C02: what leaves / reaches a user's account -/

/-- the change of user `u`'s balance of denom `d` the op is entitled to cause (`none` = the
    data needed to say is missing) -/
def expectedUserDelta (p c : Obs) (op : Op) (u : Acc) (d : Denom) : Option Int :=
  let pp := p.s.params
  match op with
  | .msg (.create m) =>
    some (if u = m.auctioneer then
            - coinsAmt pp.creationFee d - (if d = m.sellDenom then m.sellAmt else 0)
          else 0)
  | .msg (.place bidder a _ _ _ _) =>
    if u ≠ bidder then some 0
    else match p.s.views[a]?, (c.s.views[a]?).bind (·.bids.getLast?) with
      | some pv, some nb =>
        some (- coinsAmt pp.bidFee d - (if d = pv.a.payDenom then nb.toPaying pv.a.payDenom else 0))
      | _, _ => none
  | .msg (.modify signer a bidId _ _ _) =>
    if u ≠ signer then some 0
    else match p.s.views[a]?, c.s.views[a]? with
      | some pv, some cv =>
        match pv.bids.find? (·.id == bidId), cv.bids.find? (·.id == bidId) with
        | some ob, some nb =>
          let pd := pv.a.payDenom
          some (if d = pd then - (nb.toPaying pd - ob.toPaying pd) else 0)
        | _, _ => none
      | _, _ => none
  | .msg (.cancel signer a) =>
    if u ≠ signer then some 0
    else match p.s.views[a]? with
      | some pv => some (if d = pv.a.sellDenom then p.s.bank (.sell a) d else 0)
      | none => none
  | .gift src dst d' amt =>
    some ((if u = src ∧ d = d' then - amt else 0) + (if dst = .user u ∧ d = d' then amt else 0))
  | .fund v d' amt => some (if u = v ∧ d = d' ∧ 0 < amt then amt else 0)
  | _ => some 0

def checkUserDebit (p c : Obs) : CM Unit := do
  let b := c.b
  if !b.isOk || b.isBadOp then return
  let k := b.kind
  if k == "block" || k == "reset" then return
  match b.op with
  | none => pure ()
  | some op =>
    if b.tUnknown || p.b.dump.unknownSeen || b.dump.unknownSeen then
      skip
      return
    if ["createF", "createB", "place", "modify", "cancel", "gift", "fund"].contains k then
      count "C02" "user-debit"
    for u in List.range 12 do
      for d in universeDenoms do
        match expectedUserDelta p c op u d with
        | none => skip
        | some e =>
          let delta := c.s.bank (.user u) d - p.s.bank (.user u) d
          if delta ≠ e then
            viol "C02" s!"user-debit:{k}" s!"`{b.opLine}`: balance of u{u} in denom {d} changed by {delta}, the op accounts for {e}"

/-! ### all transition monitors -/

/-- `h` = context before the op, `h'` = after it -/
def transChecks (h h' : HCtx) (p c : Obs) : CM Unit := do
  checkSupply h h' p c
  checkUserDebit p c
  checkLifecycle h p c
  checkBids p c
  checkCancel p c
  checkExtend p c
  checkFrame p c
  checkSettlement h' p c
  checkRelease p c
  checkAllowlist p c
  checkGenesis p c

/-- monitors that need the op and its effects but no previous state -/
def opChecks (h : HCtx) (c : Obs) : CM Unit := do
  checkBlockTotal h c
  checkHooks h c

/-- the (property, monitor) pairs always listed in the COUNT summary -/
def knownCounts : List (String × String) :=
  [("C00", "parse-skip"),
   ("C01", "escrow-covered"), ("C01", "escrow-exact"), ("C01", "module-invariants"),
   ("C02", "supply"), ("C02", "user-debit"), ("C02", "escrows-empty"),
   ("C03", "clearing"),
   ("C04", "price-bounds"), ("C04", "fixed-price-bounds"),
   ("C05", "over-supply"),
   ("C06", "remainder"), ("C06", "fixed-alloc"),
   ("C07", "block"), ("C07", "fault-not-fired"),
   ("C08", "status-edge"), ("C08", "bid-when-open"), ("C08", "block-timing"), ("C08", "create-status"),
   ("C09", "vq-shape"), ("C09", "split"), ("C09", "release"),
   ("C10", "bid-allowlisted"), ("C10", "addmsg"), ("C10", "allowlist-changed-by-msg"),
   ("C11", "bid-monotone"), ("C11", "modify-charge"),
   ("C12", "cancel"),
   ("C13", "endtimes-len"), ("C13", "extend-shape"), ("C13", "extend-decision"),
   ("C15", "key-record"), ("C15", "genesis"),
   ("C16", "matchedlen-flags"), ("C16", "flags"), ("C16", "flags:fixed"), ("C16", "matched-price"),
   ("C17", "hook"), ("C17", "hook-veto"),
   ("C18", "reject-changed-state"),
   ("C19", "key-record"), ("C19", "view-wf"), ("C19", "bidseq"), ("C19", "terms"), ("C19", "frame")]

end Fundraising.Monitor
