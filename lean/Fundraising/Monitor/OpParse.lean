import Fundraising.Model.Step
/-
  Op-line parser of the line protocol (/verif/PROTOCOL.md).  The section between the two
  markers is a verbatim copy of the `parsing` section of /verif/lean/Main.lean (the model
  driver), wrapped in the namespace `Fundraising.Monitor` so that both can be linked.
-/
namespace Fundraising.Monitor
open Fundraising

-- BEGIN verbatim copy of Main.lean (parsing)
abbrev P := StateT (List String) Option

def tok : P String := do
  match (← get) with
  | [] => failure
  | t :: ts => set ts; pure t

def pInt : P Int := do
  let t ← tok
  match t.toInt? with
  | some i => pure i
  | none => failure

def pNat : P Nat := do
  let t ← tok
  match t.toNat? with
  | some i => pure i
  | none => failure

def pEnd : P Unit := do
  match (← get) with
  | [] => pure ()
  | _ => failure

def pMany {α : Type} (n : Nat) (p : P α) : P (List α) :=
  match n with
  | 0 => pure []
  | n + 1 => do
    let x ← p
    let xs ← pMany n p
    pure (x :: xs)

def pCoins : P (List Coin) := do
  let n ← pNat
  pMany n (do let d ← pNat; let a ← pInt; pure ⟨d, a⟩)

def pSchedules : P (List VS) := do
  let n ← pNat
  pMany n (do let r ← pInt; let w ← pInt; pure ⟨r, w⟩)

def pAddr : P Addr := do
  let t ← tok
  if t == "pool" then pure .pool
  else
    let rest := (t.drop 1).toString
    match rest.toNat? with
    | none => failure
    | some n =>
      match t.front with
      | 'u' => pure (.user n)
      | 'S' => pure (.sell n)
      | 'P' => pure (.pay n)
      | 'V' => pure (.vest n)
      | _ => failure

def pBidType : P (Option BidType) := do
  match (← tok) with
  | "F" => pure (some .fixed)
  | "W" => pure (some .worth)
  | "M" => pure (some .many)
  | "X" => pure none
  | "N" => pure none
  | _ => failure

def pOptNat : P (Option Nat) := do
  let t ← tok
  if t == "-" then pure none
  else match t.toNat? with
    | some n => pure (some n)
    | none => failure

def statusOfCode : Nat → Option Status
  | 1 => some .standby | 2 => some .started | 3 => some .vesting
  | 4 => some .finished | 5 => some .cancelled | _ => none

def pAllowedArg : P AllowedArg := do
  let r ← pNat; let b ← pNat; let cap ← pInt
  pure { recAuction := r, bidder := b, cap := cap }

def pOp : P Op := do
  let k ← tok
  let op ← (match k with
    | "reset" => pure Op.reset
    | "fund" => do let u ← pNat; let d ← pNat; let a ← pInt; pure (.fund u d a)
    | "gift" => do let u ← pNat; let t ← pAddr; let d ← pNat; let a ← pInt; pure (.gift u t d a)
    | "createF" => do
      let au ← pNat; let sp ← pInt; let sd ← pNat; let sa ← pInt; let pd ← pNat
      let st ← pInt; let et ← pInt; let vs ← pSchedules
      pure (.msg (.create { auctioneer := au, type := .fixed, startPrice := sp, sellDenom := sd,
                            sellAmt := sa, payDenom := pd, startTime := st, endTime := et,
                            schedules := vs }))
    | "createB" => do
      let au ← pNat; let sp ← pInt; let mb ← pInt; let sd ← pNat; let sa ← pInt; let pd ← pNat
      let mx ← pNat; let rate ← pInt
      let st ← pInt; let et ← pInt; let vs ← pSchedules
      pure (.msg (.create { auctioneer := au, type := .batch, startPrice := sp, minBid := mb,
                            sellDenom := sd, sellAmt := sa, payDenom := pd, maxExt := mx,
                            rate := rate, startTime := st, endTime := et, schedules := vs }))
    | "cancel" => do let u ← pNat; let a ← pNat; pure (.msg (.cancel u a))
    | "place" => do
      let u ← pNat; let a ← pNat; let t ← pBidType; let p ← pInt; let d ← pNat; let amt ← pInt
      pure (.msg (.place u a t p d amt))
    | "modify" => do
      let u ← pNat; let a ← pNat; let b ← pNat; let p ← pInt; let d ← pNat; let amt ← pInt
      pure (.msg (.modify u a b p d amt))
    | "addmsg" => do
      let a ← pNat; let ab ← pAllowedArg
      pure (.msg (.addAllowed a ab))
    | "params" => do
      let u ← pNat; let fee ← pCoins; let bf ← pCoins; let per ← pNat
      pure (.msg (.updateParams u { creationFee := fee, bidFee := bf, period := per }))
    | "kadd" => do let a ← pNat; let n ← pNat; let abs ← pMany n pAllowedArg; pure (.kadd a abs)
    | "kupd" => do let a ← pNat; let u ← pNat; let cap ← pInt; pure (.kupd a u cap)
    | "block" => do let t ← pInt; pure (.block t)
    | "genesis" => pure .genesis
    | "listeners" => do let n ← pNat; pure (.listeners n)
    | "failhook" => do let h ← tok; let i ← pNat; pure (.failhook h i)
    | "fault" => do let k ← pNat; pure (.fault k)
    | "qbids" => do
      let a ← pNat; let u ← pOptNat; let m ← pOptNat
      pure (.query (.bids a u (m.map (· != 0))))
    | "qallowed" => do let a ← pNat; pure (.query (.allowed a))
    | "qvestings" => do let a ← pNat; pure (.query (.vestings a))
    | "qauctions" => do
      let s ← pOptNat
      let t ← tok
      let st ← (match s with
        | none => pure none
        | some c => match statusOfCode c with
          | some x => pure (some x)
          | none => failure : P (Option Status))
      let ty ← (match t with
        | "-" => pure none | "F" => pure (some AType.fixed) | "B" => pure (some AType.batch)
        | _ => failure : P (Option AType))
      pure (.query (.auctions st ty))
    | "qauction" => do let a ← pNat; pure (.query (.auction a))
    | "qbid" => do let a ← pNat; let b ← pNat; pure (.query (.bid a b))
    | "qallowedone" => do let a ← pNat; let u ← pNat; pure (.query (.allowedOne a u))
    | _ => failure : P Op)
  pEnd
  pure op

def parseOp (line : String) : Option Op :=
  match (pOp.run ((line.splitOn " ").filter (· ≠ ""))) with
  | some (op, _) => some op
  | none => none
-- END verbatim copy of Main.lean (parsing)

end Fundraising.Monitor
