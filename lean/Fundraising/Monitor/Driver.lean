import Fundraising.Monitor.Checks
/-
  `fmonitor`: reads an observation stream (/verif/PROTOCOL.md) on stdin, rebuilds the
  module state after every op and evaluates the monitors of Checks.lean on it.

    VIOL <Cxx> <hist> <idx> <sig> | <message>      one per failed predicate
    COUNT <Cxx> <checkname> <n>                    at EOF: non-trivial evaluations
    MONITOR blocks=<n>
-/
namespace Fundraising.Monitor
open Fundraising

structure MState where
  resets : Nat := 0
  /-- index of the next op inside the current history -/
  idx : Nat := 0
  blocks : Nat := 0
  nviol : Nat := 0
  prev : Option Obs := none
  h : HCtx := {}
  counts : List ((String × String) × Nat) := []
  deriving Inhabited

/-- process one block; returns the lines to print -/
def processBlock (st : MState) (lines : List String) (terminated : Bool := true) :
    MState × List String :=
  let b := Block.ofLines lines
  let o := Obs.ofBlock b
  let isReset := b.kind == "reset" && !b.isBadOp
  let st : MState :=
    if isReset then { st with resets := st.resets + 1, idx := 0, prev := none, h := {} } else st
  let hist := st.resets - 1
  let h := st.h
  let h' := ctxAfter h b
  -- a block is examined only if it is complete and every line of it was understood
  let usable := terminated && b.res.isSome && !b.opToks.isEmpty && b.bad == 0
                && b.dump.bad == 0 && b.dump.params.isSome && b.dump.n.isSome
  let run : CM Unit := do
    if !usable then
      count "C00" "parse-skip" (1 + b.bad + b.dump.bad)
    else
      stateChecks h' o
      opChecks h o
      match st.prev with
      | some p => if !isReset then transChecks h h' p o
      | none => pure ()
  let (_, out) := run.run { counts := st.counts }
  let vs := out.viols.toList.map (fun v => s!"VIOL {v.c} {hist} {st.idx} {v.sig} | {v.msg}")
  ({ st with idx := st.idx + 1, blocks := st.blocks + 1, nviol := st.nviol + vs.length,
             prev := if usable then some o else none, h := h', counts := out.counts }, vs)

def summary (st : MState) : List String :=
  let get (k : String × String) : Nat := ((st.counts.find? (·.1 == k)).map (·.2)).getD 0
  let extra := (st.counts.map (·.1)).filter (fun k => !knownCounts.contains k)
  (knownCounts ++ extra).map (fun k => s!"COUNT {k.1} {k.2} {get k}")
  ++ [s!"MONITOR blocks={st.blocks}"]

partial def monitorLoop (inp out : IO.FS.Stream) (st : MState) (acc : List String) : IO MState := do
  let line ← inp.getLine
  if line.isEmpty then
    -- EOF; an unterminated last block is counted but not examined
    if acc.any (·.startsWith "> ") then
      let (st, vs) := processBlock st acc.reverse false
      for v in vs do out.putStrLn v
      return st
    else return st
  let l := line.trimAscii.toString
  if l == "." then
    let (st, vs) := processBlock st acc.reverse
    for v in vs do out.putStrLn v
    monitorLoop inp out st []
  else if l.startsWith "> " && acc.any (·.startsWith "> ") then
    -- a block without its terminator: not examined, start the next one
    let (st, vs) := processBlock st acc.reverse false
    for v in vs do out.putStrLn v
    monitorLoop inp out st [l]
  else monitorLoop inp out st (l :: acc)

def monitorMain : IO Unit := do
  let inp ← IO.getStdin
  let out ← IO.getStdout
  let st ← monitorLoop inp out {} []
  for l in summary st do out.putStrLn l
  out.flush

end Fundraising.Monitor
