import Fundraising.Monitor.OpParse
/-
  Parsing of observation blocks (/verif/PROTOCOL.md) into the model's data
  (`Fundraising.Core`, `Fundraising.Eff`, `Fundraising.Res`) plus the raw key/record pairs
  of the store dump that `Core` cannot represent (a record filed under a foreign key).

  Everything here is total: a line that cannot be understood is counted in `Dump.bad`
  (`Block.bad`) and otherwise ignored.
-/
namespace Fundraising.Monitor
open Fundraising

/-! ### tokens -/

def words (line : String) : List String := (line.splitOn " ").filter (· ≠ "")

/-- run a token parser on a whole token list (all tokens must be consumed) -/
def runP {α : Type} (p : P α) (ts : List String) : Option α :=
  match (do let x ← p; pEnd; pure x : P α).run ts with
  | some (x, _) => some x
  | none => none

def isUnknownTok (t : String) : Bool := t.startsWith "x:"

/-- `u<i>` → i ; anything else (`x:…`) → none -/
def accOfTok (t : String) : Option Acc :=
  if t.startsWith "u" then (t.drop 1).toString.toNat? else none

/-- an account token of a record; unknown strings are mapped to the invalid account 901 -/
def pAccTok : P Acc := do
  let t ← tok
  match accOfTok t with
  | some u => pure u
  | none => if isUnknownTok t then pure 901 else failure

def pBool01 : P Bool := do
  match (← tok) with
  | "0" => pure false
  | "1" => pure true
  | _ => failure

def pBidTypeStrict : P BidType := do
  match (← tok) with
  | "F" => pure .fixed
  | "W" => pure .worth
  | "M" => pure .many
  | _ => failure

/-! ### raw dump records -/

structure RawA where
  a : Auction
  sellRes : String
  payRes : String
  vestRes : String
  /-- the remaining coin's denom differs from the selling denom (`x` printed) -/
  remX : Bool := false
  deriving Repr, Inhabited

structure RawW where
  kAuction : Nat
  kBidder : String
  rAuction : Nat
  rBidder : String
  cap : Int
  deriving Repr, Inhabited

structure RawB where
  kAuction : Nat
  kId : Nat
  bid : Bid                -- the record (its own auction / id fields)
  deriving Repr, Inhabited

structure RawQ where
  kAuction : Nat
  kRelease : Int
  vq : VQ                  -- the record (its own auction / release fields)
  deriving Repr, Inhabited

/-- a parsed state dump -/
structure Dump where
  /-- the dump lines verbatim, in order -/
  lines : List String := []
  /-- each dump line with the auction it belongs to (A W B Q L S by key, C by escrow) -/
  tagged : List (Option Nat × String) := []
  params : Option Params := none
  n : Option Nat := none
  as : List RawA := []
  ws : List RawW := []
  bs : List RawB := []
  qs : List RawQ := []
  ls : List (Nat × Int) := []
  ss : List (Nat × Nat) := []
  cs : List (Addr × Denom × Int) := []
  /-- the `I` line: the `broken` flags the module's own invariant functions returned
      (selling, paying, vesting, AllInvariants); `none` for one that panicked (`x`) -/
  inv : Option (List (Option Bool)) := none
  /-- an `x:` address or denom occurred in a C line -/
  unknownSeen : Bool := false
  /-- number of dump lines that could not be parsed -/
  bad : Nat := 0
  deriving Inhabited

/-! ### line parsers -/

def pAuctionLine : P RawA := do
  let id ← pNat
  let ty ← (do match (← tok) with
    | "F" => pure AType.fixed
    | "B" => pure AType.batch
    | _ => failure : P AType)
  let stc ← pNat
  let st ← (match statusOfCode stc with | some s => pure s | none => failure : P Status)
  let au ← pAccTok
  let sd ← pNat; let sa ← pInt; let pd ← pNat; let sp ← pInt; let stt ← pInt
  let ne ← pNat
  let ends ← pMany ne pInt
  let vs ← pSchedules
  let r1 ← tok; let r2 ← tok; let r3 ← tok
  let k ← tok
  let base : Auction :=
    { id := id, type := ty, auctioneer := au, sellDenom := sd, sellAmt := sa, payDenom := pd,
      startPrice := sp, startTime := stt, endTimes := ends, schedules := vs, status := st }
  match k, ty with
  | "F", .fixed => do
    let t ← tok
    if t == "x" then pure { a := base, sellRes := r1, payRes := r2, vestRes := r3, remX := true }
    else match t.toInt? with
      | some rem => pure { a := { base with remaining := rem }, sellRes := r1, payRes := r2, vestRes := r3 }
      | none => failure
  | "B", .batch => do
    let mb ← pInt; let mp ← pInt; let mx ← pNat; let rate ← pInt
    pure { a := { base with minBid := mb, matchedPrice := mp, maxExt := mx, rate := rate },
           sellRes := r1, payRes := r2, vestRes := r3 }
  | _, _ => failure

def pWLine : P RawW := do
  let ka ← pNat; let kb ← tok; let ra ← pNat; let rb ← tok; let cap ← pInt
  pure { kAuction := ka, kBidder := kb, rAuction := ra, rBidder := rb, cap := cap }

def pBLine : P RawB := do
  let ka ← pNat; let kid ← pNat; let ra ← pNat; let rid ← pNat
  let u ← pAccTok; let t ← pBidTypeStrict; let p ← pInt; let d ← pNat; let amt ← pInt
  let m ← pBool01
  pure { kAuction := ka, kId := kid,
         bid := { auction := ra, id := rid, bidder := u, type := t, price := p, denom := d,
                  amt := amt, matched := m } }

def pQLine : P RawQ := do
  let ka ← pNat; let kr ← pInt; let ra ← pNat; let rr ← pInt
  let u ← pAccTok; let d ← pNat; let amt ← pInt; let rel ← pBool01
  pure { kAuction := ka, kRelease := kr,
         vq := { auction := ra, release := rr, auctioneer := u, denom := d, amt := amt, released := rel } }

def pParamsLine : P Params := do
  let fee ← pCoins; let bf ← pCoins; let per ← pNat
  pure { creationFee := fee, bidFee := bf, period := per }

/-- the auction an escrow address belongs to -/
def addrAuction : Addr → Option Nat
  | .sell a => some a
  | .pay a => some a
  | .vest a => some a
  | _ => none

def addrOfTok (t : String) : Option Addr := runP pAddr [t]

/-! ### the dump -/

def Dump.addLine (d : Dump) (line : String) : Dump :=
  let d := { d with lines := line :: d.lines }
  let tag (o : Option Nat) (d : Dump) : Dump := { d with tagged := (o, line) :: d.tagged }
  let badLine (d : Dump) : Dump := tag none { d with bad := d.bad + 1 }
  match words line with
  | "P" :: ts =>
    match runP pParamsLine ts with
    | some p => tag none { d with params := some p }
    | none => badLine d
  | ["N", t] =>
    match t.toNat? with
    | some n => tag none { d with n := some n }
    | none => badLine d
  | "A" :: ts =>
    match runP pAuctionLine ts with
    | some r => tag (some r.a.id) { d with as := r :: d.as }
    | none => badLine d
  | "W" :: ts =>
    match runP pWLine ts with
    | some r => tag (some r.kAuction) { d with ws := r :: d.ws }
    | none => badLine d
  | "B" :: ts =>
    match runP pBLine ts with
    | some r => tag (some r.kAuction) { d with bs := r :: d.bs }
    | none => badLine d
  | "Q" :: ts =>
    match runP pQLine ts with
    | some r => tag (some r.kAuction) { d with qs := r :: d.qs }
    | none => badLine d
  | ["L", a, v] =>
    match a.toNat?, v.toInt? with
    | some a, some v => tag (some a) { d with ls := (a, v) :: d.ls }
    | _, _ => badLine d
  | ["S", a, v] =>
    match a.toNat?, v.toNat? with
    | some a, some v => tag (some a) { d with ss := (a, v) :: d.ss }
    | _, _ => badLine d
  | ["C", a, dn, v] =>
    if isUnknownTok a || isUnknownTok dn then tag none { d with unknownSeen := true }
    else match addrOfTok a, dn.toNat?, v.toInt? with
      | some a, some dn, some v => tag (addrAuction a) { d with cs := (a, dn, v) :: d.cs }
      | _, _, _ => badLine d
  | "I" :: fs =>
    let flag (t : String) : Option (Option Bool) :=
      if t == "0" then some (some false) else if t == "1" then some (some true)
      else if t == "x" then some none else none
    match fs.mapM flag with
    | some l => if l.length = 4 then tag none { d with inv := some l } else badLine d
    | none => badLine d
  | _ => badLine d

/-- the accumulators are built in reverse; put everything in stream order -/
def Dump.finish (d : Dump) : Dump :=
  { d with lines := d.lines.reverse, tagged := d.tagged.reverse, as := d.as.reverse,
           ws := d.ws.reverse, bs := d.bs.reverse, qs := d.qs.reverse, ls := d.ls.reverse,
           ss := d.ss.reverse, cs := d.cs.reverse }

def Dump.ofLines (ls : List String) : Dump := (ls.foldl Dump.addLine {}).finish

def bankOf (cs : List (Addr × Denom × Int)) : Bank :=
  fun a d => ((cs.filter (fun c => c.1 == a && c.2.1 == d)).map (·.2.2)).sum

/-- the view of the auction recorded by the i-th A line: everything filed under its key -/
def Dump.viewOf (d : Dump) (r : RawA) : AView :=
  let i := r.a.id
  { a := r.a
    allowed := (d.ws.filter (·.kAuction == i)).map (fun w =>
      { bidder := (accOfTok w.kBidder).getD 901, cap := w.cap })
    bids := (d.bs.filter (·.kAuction == i)).map (·.bid)
    vqs := (d.qs.filter (·.kAuction == i)).map (·.vq)
    matchedLen := ((d.ls.find? (·.1 == i)).map (·.2)).getD 0
    bidSeq := ((d.ss.find? (·.1 == i)).map (·.2)).getD 0 }

/-- the model state the dump describes (`now`, `enableAdd` are not part of a dump) -/
def Dump.core (d : Dump) : Core :=
  { params := d.params.getD Params.default
    views := d.as.map d.viewOf
    bank := bankOf d.cs }

def Dump.numAuctions (d : Dump) : Nat := d.as.length

/-- the dump lines that belong to auction `i` (optionally without the balances) -/
def Dump.linesOfAuction (d : Dump) (i : Nat) (withBalances : Bool := true) : List String :=
  (d.tagged.filter (fun p => p.1 == some i && (withBalances || !p.2.startsWith "C "))).map (·.2)

def Dump.moduleLines (d : Dump) : List String := d.lines.filter (fun l => !l.startsWith "C ")

def Dump.wLines (d : Dump) : List String := d.lines.filter (·.startsWith "W ")

/-! ### effect lines -/

/-- `T send|io <from> <to> <n> (<denom> <amt>)*`, `T pool <from> <n> (<denom> <amt>)*` -/
def pTransfer : P Transfer := do
  match (← tok) with
  | "send" => do let s ← pAddr; let t ← pAddr; let cs ← pCoins; pure ⟨.send, s, t, cs⟩
  | "io" => do let s ← pAddr; let t ← pAddr; let cs ← pCoins; pure ⟨.io, s, t, cs⟩
  | "pool" => do let s ← pAddr; let cs ← pCoins; pure ⟨.pool, s, .pool, cs⟩
  | _ => failure

def parseRes (ts : List String) : Option Res :=
  match ts with
  | ["res", "ok"] => some .ok
  | ["res", "err"] => some .err
  | ["res", "panic"] => some .panic
  | ["res", "err", w] => some (.errWith w)
  | ["res", "panic", _] => some .panic
  | _ => none

/-- one observation block -/
structure Block where
  opLine : String := ""
  opToks : List String := []
  op : Option Op := none
  res : Option Res := none
  comments : List String := []
  /-- H and T lines in call order -/
  effs : List Eff := []
  /-- a T line that is not a plain transfer between known addresses (x:…, iom, other) -/
  tUnknown : Bool := false
  rLines : List String := []
  dump : Dump := {}
  /-- lines of the block that could not be parsed (outside the dump) -/
  bad : Nat := 0
  deriving Inhabited

def Block.isOk (b : Block) : Bool := b.res == some Res.ok
def Block.failed (b : Block) : Bool :=
  match b.res with
  | some .ok => false
  | some _ => true
  | none => false

def Block.kind (b : Block) : String := b.opToks.headD ""

/-- the harness (and the model) refused the line as not being an op at all -/
def Block.isBadOp (b : Block) : Bool :=
  b.op.isNone || b.comments.any (·.startsWith "# bad op")

def Block.hooks (b : Block) : List (Nat × String × List String) :=
  b.effs.filterMap (fun e => match e with
    | .hook i n a => some (i, n, a)
    | _ => none)

def Block.xfers (b : Block) : List Transfer :=
  b.effs.filterMap (fun e => match e with
    | .xfer t => some t
    | _ => none)

def isDumpLine (l : String) : Bool :=
  match words l with
  | t :: _ => ["P", "N", "A", "W", "B", "Q", "L", "S", "C", "I"].contains t
  | [] => false

/-- parse the lines of one block (from the `>` line up to, excluding, the `.` line) -/
def Block.ofLines (ls : List String) : Block :=
  let step (acc : Block × List String) (l : String) : Block × List String :=
    let (b, dl) := acc
    if l.startsWith "> " then
      let opLine := (l.drop 2).toString
      ({ b with opLine := opLine, opToks := words opLine, op := parseOp opLine }, dl)
    else if l.startsWith "#" then ({ b with comments := l :: b.comments }, dl)
    else if l.startsWith "res" then
      match parseRes (words l) with
      | some r => ({ b with res := some r }, dl)
      | none => ({ b with bad := b.bad + 1 }, dl)
    else if l.startsWith "H " then
      match words l with
      | _ :: i :: name :: args =>
        match i.toNat? with
        | some i => ({ b with effs := .hook i name args :: b.effs }, dl)
        | none => ({ b with bad := b.bad + 1 }, dl)
      | _ => ({ b with bad := b.bad + 1 }, dl)
    else if l.startsWith "T " then
      match runP pTransfer ((words l).drop 1) with
      | some t => ({ b with effs := .xfer t :: b.effs }, dl)
      | none => ({ b with tUnknown := true }, dl)
    else if l.startsWith "R " then ({ b with rLines := l :: b.rLines }, dl)
    else if isDumpLine l then (b, l :: dl)
    else if l.isEmpty then (b, dl)
    else ({ b with bad := b.bad + 1 }, dl)
  let (b, dl) := ls.foldl step (({} : Block), [])
  { b with comments := b.comments.reverse, effs := b.effs.reverse, rLines := b.rLines.reverse,
           dump := Dump.ofLines dl.reverse }

end Fundraising.Monitor
