import Fundraising.Monitor.Checks
import Fundraising.Monitor.Render
/-
  `fpredict`: the one-step predictor.  Reads an observation stream produced by the real
  code (stdin) and prints, for every block, the block the MODEL (`Fundraising.step`)
  predicts for that op when started from the IMPLEMENTATION's previous state, in exactly
  the format of the model driver (/verif/lean/Main.lean).

    diff <(grep -v '^#' obs) <(fpredict < obs | grep -v '^#')

  is empty iff every single step of the real code is the model's step.  Because every
  prediction restarts from the implementation's own dump, one divergence shows up in (at
  most) two blocks — the diverging one and the one predicted from it — instead of in the
  whole rest of the history.

  The state a prediction starts from = `Dump.core` of the previous block, completed with
  * `now`: tracked from the ops (1700000000 at `reset`; `block t` sets t, also when it fails),
  * `enableAdd := false`,
  * gifts parked on escrow addresses of auctions that do not exist yet (the dump reports
    S/P/V balances only for a < N),
  and the model's own `Control` (listeners / failhook / fault), which evolves by the
  model's `step` and is never parsed.
-/
namespace Fundraising.Monitor
open Fundraising

structure PredState where
  /-- the implementation's state after the last block whose dump could be parsed -/
  core : Core := {}
  /-- `N` of that dump -/
  n : Nat := 0
  /-- `now` and the hidden escrow gifts (`hiddenAt`) of the current history -/
  h : HCtx := {}
  /-- the model's own test controls -/
  ctl : Control := {}
  blocks : Nat := 0
  deriving Inhabited

/-- the model state a prediction starts from -/
def PredState.start (ps : PredState) : Core :=
  let hid := ps.h.hiddenAt.filter (fun x => match addrAuction x.1 with
    | some a => decide (a ≥ ps.n)
    | none => false)
  { ps.core with
    now := ps.h.now
    enableAdd := false
    bank := fun a d => ps.core.bank a d + ((hid.filter (fun x => x.1 == a && x.2.1 == d)).map (·.2.2)).sum }

/-- `blockOf` of Main.lean, returning the model's next `Control` instead of its next state -/
def predictBlock (core : Core) (ctl : Control) (line : String) : List String × Control :=
  match parseOp line with
  | none => (["> " ++ line, "res err", "# bad op"] ++ dumpState core ++ ["."], ctl)
  | some (.query q) =>
    match queryLines core q with
    | some ls => (["> " ++ line, "res ok"] ++ ls ++ dumpState core ++ ["."], ctl)
    | none => (["> " ++ line, "res err"] ++ dumpState core ++ ["."], ctl)
  | some op =>
    let (out, st') := step { core := core, ctl := ctl } op
    (["> " ++ line, lineRes out.res] ++ out.effs.map lineEff ++ dumpState st'.core ++ ["."], st'.ctl)

def predictOne (ps : PredState) (lines : List String) (terminated : Bool := true) :
    PredState × List String :=
  let b := Block.ofLines lines
  let isReset := b.op matches some .reset
  -- a new history: forget the tracked time and gifts (the model's `step` resets the rest)
  let ps : PredState := if isReset then { ps with core := {}, n := 0, h := {} } else ps
  let start := ps.start
  let (out, ctl') := predictBlock start ps.ctl b.opLine
  let usable := terminated && b.dump.bad == 0 && b.dump.params.isSome && b.dump.n.isSome
  if usable then
    ({ ps with core := b.dump.core, n := b.dump.n.getD b.dump.numAuctions, h := ctxAfter ps.h b,
               ctl := ctl', blocks := ps.blocks + 1 }, out)
  else
    -- keep the last good state; the block time still advances
    let h := match b.op with
      | some (.block t) => { ps.h with now := t }
      | _ => ps.h
    ({ ps with h := h, ctl := ctl', blocks := ps.blocks + 1 },
     ["> " ++ b.opLine, "res err", "# unparsable"] ++ dumpState start ++ ["."])

partial def predictLoop (inp out : IO.FS.Stream) (ps : PredState) (acc : List String) : IO Unit := do
  let emit (ps : PredState) (term : Bool) : IO PredState := do
    let (ps, ls) := predictOne ps acc.reverse term
    out.putStr ("\n".intercalate ls ++ "\n")
    pure ps
  let line ← inp.getLine
  if line.isEmpty then
    if acc.any (·.startsWith "> ") then
      let _ ← emit ps false
    return
  let l := line.trimAscii.toString
  if l == "." then
    if acc.any (·.startsWith "> ") then
      let ps ← emit ps true
      predictLoop inp out ps []
    else predictLoop inp out ps []
  else if l.startsWith "> " && acc.any (·.startsWith "> ") then
    let ps ← emit ps false
    predictLoop inp out ps [l]
  else predictLoop inp out ps (l :: acc)

def predictMain : IO Unit := do
  let inp ← IO.getStdin
  let out ← IO.getStdout
  predictLoop inp out {} []
  out.flush

end Fundraising.Monitor
