package main

// GoLite → Lean 4: a translator for the small, explicitly delimited subset of Go in which
// the pure core of x/fundraising is written (conversions, predicates, ValidateBasic,
// schedule validation, the per-bid step of Match, the arithmetic and the guards of the
// keeper functions).  It is driven by the *unit table* of units.go: for every unit the Go
// function to read, the Lean types of its parameters, and — for keeper functions — which
// calls are oracles (reads from the store, bound to parameters of the generated definition)
// and which are effects (recorded, in order, in the result).
//
// The translation is syntax-directed and typed by the Lean types it assigns itself
// (fields, methods and functions are looked up in the tables of golite_tables.go by the
// LEAN type of the receiver), so no Go type checker is needed.  Anything outside the
// subset makes the unit `untranslatable`: the generated file then defines the unit as a
// value of type `Untranslated`, and the Lean theorems that tie the unit to the hand-written
// model no longer type-check — a proof obligation breaks instead of passing silently.
//
// Statements are translated in continuation-passing style: the code after an `if` whose
// body can fall through is duplicated into both branches (guards return, so this does not
// blow up); `for … range` becomes an auxiliary structurally recursive definition over the
// list that returns `Loop.ret r` (the function returned inside the loop) or `Loop.done s`
// (normal exit / break, with the loop-carried variables).

import (
	"fmt"
	"go/ast"
	"go/token"
	"sort"
	"strconv"
	"strings"
)

type LT = string

type V struct {
	L string
	T LT
}

type evar struct {
	lean  string
	t     LT
	depth int
}

type env struct {
	m     map[string]evar
	depth int
}

func (e env) copy() env {
	m := make(map[string]evar, len(e.m))
	for k, v := range e.m {
		m[k] = v
	}
	return env{m: m, depth: e.depth}
}

func (e env) deeper() env {
	c := e.copy()
	c.depth++
	return c
}

type loopCtx struct {
	call  func(en env) string // code for "next iteration" in the given env
	done  func(en env) string // code for "leave the loop" (break)
	outer *loopCtx
}

type tr struct {
	w           *World
	u           *Unit
	reg         map[string]*Unit
	aux         []string
	nloop       int
	nvar        int
	fail        string
	loop        *loopCtx
	used        map[string]bool // lean names in use
	notes       []string
	pre         []string        // effect recordings to be emitted before the statement being translated
	noLit       map[string]bool // Go variables carried by a loop: never bound to a literal
	commaOk     bool            // translating the right-hand side of `v, ok := m[k]`
	closure     *closureCtx     // translating the body of a function literal
	nclos       int
	mapVal      *mapValBind               // value variable of a map range being rewritten to a key-list range
	depth       int                       // nesting of on-demand helper translation
	recvName    string                    // the receiver's name in the source (call-table keys are written with `k`)
	loopBase    string                    // name under which the loops of an inlined helper are numbered (the calling unit's)
	inWalk      bool                      // translating the body of a Walk closure (it does not touch the store)
	extraEffArg string                    // recordEffect: a rendered value put in front of the call's arguments (the element a method is called on)
	indexAlias  map[string]string         // "xs[i]" -> the element variable of the enclosing index loop over xs
	lenOf       map[string]ast.Expr       // Go variable bound by `n := len(xs)` -> xs
	mapRangeIdx map[*ast.BlockStmt]int    // map-range loops (by body) in order of first translation = source order
	touched     map[string][]touch        // Go variables of the function that are re-assigned or written through: where
	loopPaths   map[ast.Node][]branchStep // the branch path of every loop statement of the function
	loopNode    ast.Node                  // the loop statement being translated, as in the source
	pureDefs    map[string]*pureDef       // Lean name -> the immutable pure local it is (see rangeLoop)
	npure       int
	lambda      string            // the translated function as a lambda term (for helpers inlined at their call sites)
	mutated     map[string]bool   // Lean names of PARAMETERS the function writes through
	paramLeanOf map[string]string // Go parameter name -> Lean name it is bound to (aliases share one)
	extraFree   []string          // identifiers of the ranged map expression (free in the rewritten loop)
}

type closureCtx struct {
	state []string // captured variables the closure assigns (Go names)
	rets  []LT     // a pure multi-result closure (query predicates / transforms): its result types
}

type mapValBind struct {
	name, lean, key string
	t               LT
}

func (t *tr) takePre() string {
	if len(t.pre) == 0 {
		return ""
	}
	s := strings.Join(t.pre, "")
	t.pre = nil
	return s
}

type cont func(en env) string

func (t *tr) failf(format string, args ...any) string {
	if t.fail == "" {
		t.fail = fmt.Sprintf(format, args...)
	}
	return "UNTRANSLATABLE"
}

func (t *tr) bad(format string, args ...any) V {
	t.failf(format, args...)
	return V{"UNTRANSLATABLE", "?"}
}

var leanReserved = map[string]bool{"at": true, "end": true, "from": true, "type": true, "open": true, "in": true,
	"then": true, "else": true, "if": true, "let": true, "fun": true, "match": true, "with": true, "do": true,
	"where": true, "have": true, "show": true, "by": true, "def": true, "theorem": true, "instance": true,
	"structure": true, "class": true, "namespace": true, "section": true, "variable": true, "mut": true,
	"for": true, "return": true, "Type": true, "Prop": true, "Sort": true, "export": true, "import": true,
	"prefix": true, "infix": true, "notation": true, "macro": true, "syntax": true, "deriving": true, "rest__": true}

func (t *tr) fresh(goName string) string {
	base := goName
	if leanReserved[base] {
		base += "_"
	}
	name := base
	for t.used[name] {
		t.nvar++
		name = fmt.Sprintf("%s_%d", base, t.nvar)
	}
	t.used[name] = true
	return name
}

// declare binds a Go variable introduced by `:=` / `var` / range.
func (t *tr) declare(en env, goName string, ty LT) (env, string) {
	if goName == "_" {
		return en, "_"
	}
	if old, ok := en.m[goName]; ok && old.depth == en.depth && old.lean != "false" && old.lean != "true" {
		// redeclaration in the same scope = assignment to the same variable
		en.m[goName] = evar{old.lean, ty, old.depth}
		return en, old.lean
	}
	name := t.fresh(goName)
	en.m[goName] = evar{name, ty, en.depth}
	return en, name
}

func indent(s string) string {
	lines := strings.Split(s, "\n")
	for i, l := range lines {
		if l != "" {
			lines[i] = "  " + l
		}
	}
	return strings.Join(lines, "\n")
}

// ------------------------------------------------------------------ expressions

func (t *tr) exprs(es []ast.Expr, en env) []V {
	out := make([]V, len(es))
	for i, e := range es {
		out[i] = t.expr(e, en)
	}
	return out
}

func (t *tr) importName(x ast.Expr) (string, bool) {
	id, ok := x.(*ast.Ident)
	if !ok {
		return "", false
	}
	switch id.Name {
	case "types", "math", "sdk", "sdkerrors", "errorsmod", "errors", "errcode", "keeper", "fmt", "collections", "time", "sort", "strconv", "banktypes", "telemetry", "status", "codes", "query":
		return id.Name, true
	}
	return "", false
}

func (t *tr) expr(e ast.Expr, en env) V {
	switch e := e.(type) {
	case *ast.ParenExpr:
		v := t.expr(e.X, en)
		return V{"(" + v.L + ")", v.T}
	case *ast.BasicLit:
		switch e.Kind {
		case token.INT:
			return V{"(" + e.Value + " : Int)", "Int"}
		case token.STRING:
			s, _ := strconv.Unquote(e.Value)
			return V{leanStr(s), "String"}
		}
		return t.bad("literal %s", e.Value)
	case *ast.Ident:
		switch e.Name {
		case "nil":
			return V{"nil", "Nil"}
		case "true", "false":
			return V{e.Name, "Bool"}
		}
		if v, ok := en.m[e.Name]; ok {
			if v.t == "Poison" {
				return t.bad("use of the untranslatable variable %s", e.Name)
			}
			return V{v.lean, v.t}
		}
		if v, ok := t.u.Idents[e.Name]; ok {
			return v
		}
		if c, ok := constants[e.Name]; ok {
			return t.constant(e.Name, c)
		}
		if strings.HasPrefix(e.Name, "Err") {
			return V{"true", "Err"} // a registered error value of the package
		}
		return t.bad("unknown identifier %s", e.Name)
	case *ast.SelectorExpr:
		if _, ok := t.importName(e.X); ok {
			if _, shadow := en.m[identName(e.X)]; !shadow {
				if c, ok := constants[e.Sel.Name]; ok {
					return t.constant(e.Sel.Name, c)
				}
				if strings.HasPrefix(e.Sel.Name, "Err") {
					return V{"true", "Err"}
				}
				return t.bad("unknown package member %s.%s", identName(e.X), e.Sel.Name)
			}
		}
		x := t.expr(e.X, en)
		return t.field(x, e.Sel.Name)
	case *ast.StarExpr:
		return t.expr(e.X, en)
	case *ast.TypeAssertExpr:
		return t.expr(e.X, en)
	case *ast.UnaryExpr:
		x := t.expr(e.X, en)
		switch e.Op {
		case token.NOT:
			return V{"(!" + x.L + ")", "Bool"}
		case token.SUB:
			return V{"(-" + x.L + ")", x.T}
		case token.AND:
			return x
		}
		return t.bad("unary %s", e.Op)
	case *ast.BinaryExpr:
		return t.binary(e, en)
	case *ast.IndexExpr:
		if a, ok := t.indexAlias[t.w.render(e)]; ok {
			if _, bound := en.m[a]; bound {
				return t.expr(&ast.Ident{Name: a}, en) // `xs[i]` inside `for i := range xs`: the element
			}
		}
		x := t.expr(e.X, en)
		i := t.expr(e.Index, en)
		if strings.HasPrefix(x.T, "List ") {
			el := strings.TrimPrefix(x.T, "List ")
			return V{fmt.Sprintf("(Go.index %s %s)", x.L, i.L), el}
		}
		if strings.HasPrefix(x.T, "Map ") {
			_, vt := mapTypes(x.T)
			if t.commaOk {
				return V{fmt.Sprintf("(%s %s)", x.L, i.L), "Option " + vt}
			}
			if strings.HasPrefix(vt, "List ") {
				return V{fmt.Sprintf("((%s %s).getD [])", x.L, i.L), vt}
			}
			z, ok := zeroByLean[vt]
			if !ok {
				return t.bad("zero value of %s", vt)
			}
			t.notes = append(t.notes, "a single-valued read `m[k]` of a missing key yields the zero value (for math.Int: a nil Int whose use panics — excluded by a hypothesis of the tie theorem)")
			return V{fmt.Sprintf("((%s %s).getD %s)", x.L, i.L, z), vt}
		}
		return t.bad("index on %s", x.T)
	case *ast.CallExpr:
		return t.call(e, en)
	case *ast.CompositeLit:
		return t.composite(e, en)
	}
	return t.bad("expression %T", e)
}

// constant: enum constants come from the table; NUMERIC constants of package types are read
// from the source (so that a changed limit changes the translation)
func (t *tr) constant(name string, c V) V {
	if c.T != "Int" {
		return c
	}
	p := t.w.mustPkg(typesP)
	for _, f := range p.Files {
		for _, d := range f.AST.Decls {
			gd, ok := d.(*ast.GenDecl)
			if !ok || gd.Tok != token.CONST {
				continue
			}
			for _, sp := range gd.Specs {
				vs := sp.(*ast.ValueSpec)
				for i, n := range vs.Names {
					if n.Name == name && i < len(vs.Values) {
						if bl, ok := vs.Values[i].(*ast.BasicLit); ok && bl.Kind == token.INT {
							return V{"(" + bl.Value + " : Int)", "Int"}
						}
					}
				}
			}
		}
	}
	return t.bad("numeric constant %s not found in the source", name)
}

func (t *tr) typeName(goType string) (LT, bool) {
	if v, ok := t.u.TypeNames[goType]; ok {
		return v, true
	}
	v, ok := goTypeNames[goType]
	return v, ok
}

func mapTypes(mt LT) (string, string) {
	// "Map K V" with single-token K
	parts := strings.SplitN(strings.TrimPrefix(mt, "Map "), " ", 2)
	if len(parts) != 2 {
		return "?", "?"
	}
	return parts[0], parts[1]
}

func (t *tr) field(x V, name string) V {
	if fs, ok := fields[x.T]; ok {
		if f, ok := fs[name]; ok {
			return V{strings.ReplaceAll(f.L, "%s", x.L), f.T}
		}
	}
	return t.bad("field %s of %s", name, x.T)
}

func (t *tr) binary(e *ast.BinaryExpr, en env) V {
	x := t.expr(e.X, en)
	y := t.expr(e.Y, en)
	switch e.Op {
	case token.LAND:
		return V{"(" + x.L + " && " + y.L + ")", "Bool"}
	case token.LOR:
		return V{"(" + x.L + " || " + y.L + ")", "Bool"}
	case token.EQL, token.NEQ:
		var s string
		switch {
		case y.T == "Nil" || x.T == "Nil":
			v := x
			if x.T == "Nil" {
				v = y
			}
			switch {
			case strings.HasSuffix(v.T, "Req"):
				s = "false" // a request the gRPC layer hands to the handler is never nil
			case v.T == "Err":
				s = "(!" + v.L + ")" // err == nil
			case strings.HasPrefix(v.T, "Option "):
				s = "(" + v.L + ").isNone"
			default:
				return t.bad("comparison of %s with nil", v.T)
			}
		case (y.T == "String" && y.L == leanStr("") && strings.HasPrefix(x.T, "Option ")) ||
			(x.T == "String" && x.L == leanStr("") && strings.HasPrefix(y.T, "Option ")):
			// an optional request string (modelled by what it denotes): "" is absent
			v := x
			if x.T == "String" {
				v = y
			}
			s = "(" + v.L + ").isNone"
		default:
			if x.T == "Option "+y.T {
				y = V{"(some " + y.L + ")", x.T}
			} else if y.T == "Option "+x.T {
				x = V{"(some " + x.L + ")", y.T}
			}
			if x.T != y.T {
				return t.bad("== on %s and %s", x.T, y.T)
			}
			s = "decide (" + x.L + " = " + y.L + ")"
		}
		if e.Op == token.NEQ {
			if strings.HasPrefix(s, "(!") && strings.HasSuffix(s, ")") && !strings.ContainsAny(s[2:len(s)-1], " ()") {
				return V{s[2 : len(s)-1], "Bool"}
			}
			return V{"(!" + s + ")", "Bool"}
		}
		return V{"(" + s + ")", "Bool"}
	case token.LSS, token.LEQ, token.GTR, token.GEQ:
		if x.T != y.T || !(x.T == "Int" || x.T == "Nat" || x.T == "Time") {
			return t.bad("%s on %s and %s", e.Op, x.T, y.T)
		}
		op := map[token.Token]string{token.LSS: "<", token.LEQ: "≤", token.GTR: ">", token.GEQ: "≥"}[e.Op]
		return V{"decide (" + x.L + " " + op + " " + y.L + ")", "Bool"}
	case token.ADD, token.SUB, token.MUL:
		if e.Op == token.ADD && x.T == "String" && y.T == "String" {
			return V{"(" + x.L + " ++ " + y.L + ")", "String"}
		}
		if e.Op == token.ADD && (x.T == "Key" || y.T == "Key" || x.T == "String" || y.T == "String") {
			// string concatenation building a map key out of fmt.Sprint parts and separators
			part := func(v V) (string, bool) {
				switch v.T {
				case "Key":
					return v.L, true
				case "String":
					return "([] : List Int)", true // a literal separator: keeps the concatenation injective, carries no data
				case "Acc":
					return "[(" + v.L + " : Int)]", true
				case "Int", "Time":
					return "[" + v.L + "]", true
				}
				return "", false
			}
			a, ok1 := part(x)
			b, ok2 := part(y)
			if ok1 && ok2 {
				return V{"(" + a + " ++ " + b + ")", "Key"}
			}
		}
		if x.T != y.T || !(x.T == "Int") {
			return t.bad("%s on %s and %s", e.Op, x.T, y.T)
		}
		return V{"(" + x.L + " " + e.Op.String() + " " + y.L + ")", x.T}
	}
	return t.bad("binary %s", e.Op)
}

func (t *tr) composite(e *ast.CompositeLit, en env) V {
	if at, ok := e.Type.(*ast.ArrayType); ok && at.Len == nil {
		var parts []string
		var elT LT
		for _, el := range e.Elts {
			v := t.expr(el, en)
			if elT != "" && v.T != elT {
				return t.bad("heterogeneous slice literal")
			}
			elT = v.T
			parts = append(parts, v.L)
		}
		if elT == "" {
			return t.bad("empty slice literal")
		}
		return V{"[" + strings.Join(parts, ", ") + "]", "List " + elT}
	}
	if st, ok := e.Type.(*ast.StructType); ok && len(e.Elts) == 0 && (st.Fields == nil || len(st.Fields.List) == 0) {
		return V{"()", "Unit"}
	}
	if mt, ok := e.Type.(*ast.MapType); ok && len(e.Elts) == 0 {
		kt, ok1 := t.typeName(t.w.render(mt.Key))
		vt, ok2 := t.typeName(t.w.render(mt.Value))
		if !ok1 || !ok2 {
			return t.bad("map literal %s", t.w.render(e.Type))
		}
		return V{"(fun _ => none)", "Map " + kt + " " + vt}
	}
	name := baseTypeName(e.Type)
	if strings.HasSuffix(name, "Response") && len(e.Elts) == 0 {
		return V{"()", "Unit"}
	}
	c, ok := composites[name]
	if ok && len(e.Elts) == 0 {
		return V{"(default : " + leanType(c.T) + ")", c.T}
	}
	if !ok {
		return t.bad("composite literal of %s", name)
	}
	var parts []string
	for _, el := range e.Elts {
		kv, ok := el.(*ast.KeyValueExpr)
		if !ok {
			return t.bad("positional composite literal of %s", name)
		}
		k := identName(kv.Key)
		f, ok := c.Fields[k]
		if !ok {
			return t.bad("field %s in literal of %s", k, name)
		}
		if f == "" {
			continue // field that is a function of the key in the model, or not modelled (pagination)
		}
		v := t.expr(kv.Value, en)
		parts = append(parts, strings.ReplaceAll(f, "%s", v.L))
	}
	return V{"({ " + strings.Join(parts, ", ") + " } : " + c.T + ")", c.T}
}

// calleeKey renders the callee of a call with the receiver written `k`, as in the call tables
func (t *tr) calleeKey(fun ast.Expr) string {
	c := t.w.render(fun)
	if t.recvName != "" && t.recvName != "k" && strings.HasPrefix(c, t.recvName+".") {
		c = "k." + strings.TrimPrefix(c, t.recvName+".")
	}
	return c
}

func (t *tr) call(e *ast.CallExpr, en env) V {
	if inner, ok := e.Fun.(*ast.CallExpr); ok {
		// `f(k)(ctx)` where f stands for a closure unit (see the unrolled range over a list of functions)
		if fv, ok := en.m[identName(inner.Fun)]; ok && identName(inner.Fun) != "" && fv.t == "FuncRef" {
			if u, ok := t.reg["."+fv.lean]; ok {
				return t.unitCall(u, nil, append(append([]ast.Expr{}, inner.Args...), e.Args...), en)
			}
		}
		return t.bad("call of a function value")
	}
	// kind C: oracle / effect / ignored calls are recognised by the rendered callee
	callee := t.calleeKey(e.Fun)
	if callee == "sdk.UnwrapSDKContext" {
		return V{"()", "SdkCtx"}
	}
	if callee == "collections.Join" && len(e.Args) == 2 {
		// a store key built as a value (`key := collections.Join(a, b)`): a pair
		a, b := t.expr(e.Args[0], en), t.expr(e.Args[1], en)
		if strings.ContainsAny(a.T+b.T, "() ") {
			return t.bad("pair key of %s and %s", a.T, b.T)
		}
		return V{"(" + a.L + ", " + b.L + ")", "(" + a.T + " × " + b.T + ")"}
	}
	if callee == "query.CollectionFilteredPaginate" || callee == "query.CollectionPaginate" {
		return t.paginate(e, callee == "query.CollectionFilteredPaginate", en)
	}
	if ile, ok := e.Fun.(*ast.IndexListExpr); ok && t.w.render(ile.X) == "collections.NewPrefixedPairRange" && len(e.Args) == 1 {
		// `collections.NewPrefixedPairRange[K1, K2](prefix)`: all pairs whose first component is the prefix
		x := t.expr(e.Args[0], en)
		if x.T != "Int" {
			return t.bad("pair-range prefix of type %s", x.T)
		}
		return V{x.L, "PairRange"}
	}
	if cs, ok := t.u.Calls[callee]; ok && cs.Walk != "" && len(e.Args) == 2 {
		// `k.IterateX(ctx, closure)`: the keeper's walk over the whole collection X (that IterateX is
		// exactly `k.X.Walk(ctx, nil, cb)` is the regenerated table `iterators`)
		if fl, ok := e.Args[1].(*ast.FuncLit); ok {
			return t.walkFold(cs, fl, en)
		}
		return t.bad("IterateX without a function literal")
	}
	if cs, ok := t.u.Calls[callee]; ok && cs.Walk != "" && len(e.Args) == 3 {
		if fl, ok := e.Args[2].(*ast.FuncLit); ok {
			if identName(e.Args[1]) != "nil" {
				// a walk over a prefixed range: the records under that prefix only
				r := t.expr(e.Args[1], en)
				if r.T != "PairRange" || cs.WalkPrefix == "" {
					return t.bad("Walk over a range of type %s", r.T)
				}
				cs.Walk = strings.ReplaceAll(cs.WalkPrefix, "%p", atom(r.L))
			}
			return t.walkFold(cs, fl, en)
		}
		return t.bad("Walk without a function literal")
	}
	if cs, ok := t.u.Calls[callee]; ok && cs.Store != "" {
		// a collections call of a store-threaded unit: `Store` is a Lean term over the current
		// store `st__` and the translated arguments (%1 …); Kind "rw" returns (value…, store'),
		// "w" returns the new store, "r" a value
		var av []V
		var add func(a ast.Expr)
		add = func(a ast.Expr) {
			av = append(av, t.keyParts(a, en)...)
		}
		for _, i := range cs.Args {
			if i < len(e.Args) {
				add(e.Args[i])
			}
		}
		term := cs.Store
		for i := len(av) - 1; i >= 0; i-- {
			term = strings.ReplaceAll(term, fmt.Sprintf("%%%d", i+1), atom(av[i].L))
		}
		switch cs.Kind {
		case "w":
			t.pre = append(t.pre, fmt.Sprintf("let st__ : GStore := %s\n", term))
			return V{"false", "Err"}
		case "rw":
			tmp := t.fresh("sr")
			t.pre = append(t.pre, fmt.Sprintf("let %s := %s\nlet st__ : GStore := %s.2\n", tmp, term, tmp))
			return V{"(" + tmp + ".1, false)", cs.Value.T}
		default:
			return V{term, cs.Value.T}
		}
	}
	if sel, ok := e.Fun.(*ast.SelectorExpr); ok {
		if ix, ok := sel.X.(*ast.IndexExpr); ok && t.recvName != "" && identName(ix.X) == t.recvName {
			// `h[i].Method(…)` on an element of the receiver slice (a dispatcher over listeners)
			if cs, ok := t.u.Calls["k[]."+sel.Sel.Name]; ok {
				el := t.expr(ix, en)
				r, okr := renderers[el.T]
				if !okr {
					return t.bad("receiver element of type %s", el.T)
				}
				if cs.Effect != "" {
					t.extraEffArg = strings.ReplaceAll(r, "%s", el.L)
					t.pre = append(t.pre, t.recordEffect(cs.Effect, cs.Args, e, en))
					t.extraEffArg = ""
				}
				v := cs.Value
				v.L = strings.ReplaceAll(v.L, "%0", atom(el.L))
				return v
			}
		}
	}
	if cs, ok := t.u.Calls[callee]; ok {
		if cs.Effect != "" {
			t.pre = append(t.pre, t.recordEffect(cs.Effect, cs.Args, e, en))
		}
		v := cs.Value
		if v.T == "" {
			v = V{"false", "Err"} // an error-only call that is assumed to succeed (its failure is the model's)
		}
		if strings.Contains(v.L, "%") {
			for i := len(e.Args) - 1; i >= 0; i-- {
				a := e.Args[i]
				ph := fmt.Sprintf("%%%d", i+1)
				if strings.Contains(v.L, ph) {
					// a keyed read: the oracle is a FUNCTION of the key the code passes;
					// `collections.Join(a, b)` supplies two arguments
					var parts []string
					for _, x := range t.keyParts(a, en) {
						parts = append(parts, atom(x.L))
					}
					v.L = strings.ReplaceAll(v.L, ph, strings.Join(parts, " "))
				}
			}
		}
		return v
	}
	if id, ok := e.Fun.(*ast.SelectorExpr); ok {
		if b, ok := id.X.(*ast.Ident); ok {
			if bv, ok := en.m[b.Name]; ok {
				if _, isMut := mutators[bv.t+"."+id.Sel.Name]; isMut {
					return t.bad("mutator %s used as an expression", callee)
				}
			}
		}
	}
	switch f := e.Fun.(type) {
	case *ast.Ident:
		switch f.Name {
		case "len":
			x := t.expr(e.Args[0], en)
			if strings.HasPrefix(x.T, "List ") || x.T == "Coins" {
				return V{"(" + x.L + ".length : Int)", "Int"}
			}
			if strings.HasPrefix(string(x.T), "Map ") {
				// the number of keys of a Go map: the length of the oracle key list of the range over it
				if o, ok := t.u.MapLen[t.w.render(e.Args[0])]; ok {
					if ov, ok := en.m[o]; ok {
						return V{"(" + ov.lean + ".length : Int)", "Int"}
					}
				}
			}
			return t.bad("len of %s", x.T)
		case "int64", "uint64", "int", "uint32":
			x := t.expr(e.Args[0], en)
			if x.T == "Int" || x.T == "Nat" {
				return x
			}
			return t.bad("conversion of %s", x.T)
		case "make":
			if mt, ok := e.Args[0].(*ast.MapType); ok {
				kt, ok1 := t.typeName(t.w.render(mt.Key))
				vt, ok2 := t.typeName(t.w.render(mt.Value))
				if ok1 && ok2 {
					return V{"(fun _ => none)", "Map " + kt + " " + vt}
				}
			}
			if at, ok := e.Args[0].(*ast.ArrayType); ok && at.Len == nil && len(e.Args) == 2 {
				// make([]T, n): n zero values
				if bl, ok := e.Args[1].(*ast.BasicLit); ok && bl.Value == "0" {
					if et, ok := t.typeName(t.w.render(at.Elt)); ok {
						return V{"([] : List " + leanTypeAtom(et) + ")", "List " + et}
					}
				}
				if et, ok := t.typeName(t.w.render(at.Elt)); ok {
					n := t.expr(e.Args[1], en)
					z, okz := zeroByLean[et]
					if n.T == "Int" && okz {
						if n.L == "(0 : Int)" {
							return V{"([] : List " + leanTypeAtom(et) + ")", "List " + et}
						}
						return V{"(List.replicate (" + n.L + ").toNat " + z + ")", "List " + et}
					}
				}
				return t.bad("make(%s, %s)", t.w.render(e.Args[0]), t.w.render(e.Args[1]))
			}
			if at, ok := e.Args[0].(*ast.ArrayType); ok && at.Len == nil {
				if et, ok := t.typeName(t.w.render(at.Elt)); ok {
					return V{"([] : List " + leanTypeAtom(et) + ")", "List " + et}
				}
			}
			return t.bad("make(%s)", t.w.render(e.Args[0]))
		case "append":
			x := t.expr(e.Args[0], en)
			if len(e.Args) == 2 && strings.HasPrefix(x.T, "List ") {
				y := t.expr(e.Args[1], en)
				return V{"(" + x.L + " ++ [" + y.L + "])", x.T}
			}
			return t.bad("append")
		}
		if u, ok := t.reg["."+f.Name]; ok {
			return t.unitCall(u, nil, e.Args, en)
		}
		if fn, ok := funcs[f.Name]; ok {
			return t.apply(fn, nil, e.Args, en)
		}
		if u := t.autoUnit("", f.Name, e.Args, en); u != nil {
			return t.unitCall(u, nil, e.Args, en)
		}
		return t.bad("call of %s", f.Name)
	case *ast.SelectorExpr:
		if imp, ok := t.importName(f.X); ok {
			if _, shadow := en.m[imp]; !shadow {
				if u, ok := t.reg["."+f.Sel.Name]; ok && imp == "types" {
					return t.unitCall(u, nil, e.Args, en)
				}
				if fn, ok := funcs[imp+"."+f.Sel.Name]; ok {
					return t.apply(fn, nil, e.Args, en)
				}
				if imp == "sdkerrors" || imp == "errorsmod" || imp == "fmt" || imp == "errors" || imp == "errcode" || imp == "status" {
					return V{"true", "Err"} // constructing an error value
				}
				return t.bad("call of %s.%s", imp, f.Sel.Name)
			}
		}
		recv := t.expr(f.X, en)
		if u, ok := t.reg[recv.T+"."+f.Sel.Name]; ok {
			return t.unitCall(u, &recv, e.Args, en)
		}
		if strings.HasPrefix(string(recv.T), "Option ") {
			// a method call through an interface field that may be nil (`k.hooks.X(…)` under
			// `if k.hooks != nil`): on nil Go panics; here the absent value is the type's default
			inner := LT(strings.TrimPrefix(string(recv.T), "Option "))
			if u, ok := t.reg[string(inner)+"."+f.Sel.Name]; ok {
				r2 := V{"(" + recv.L + ".getD default)", inner}
				t.notes = append(t.notes, "a method called through a possibly-nil interface field: nil would panic in Go (the call is guarded by `!= nil`)")
				return t.unitCall(u, &r2, e.Args, en)
			}
		}
		if m, ok := methods[recv.T+"."+f.Sel.Name]; ok {
			return t.apply(m, &recv, e.Args, en)
		}
		if recv.T == "Keeper" {
			if u := t.autoUnit("Keeper", f.Sel.Name, e.Args, en); u != nil {
				return t.unitCall(u, &recv, e.Args, en)
			}
		}
		return t.bad("method %s on %s", f.Sel.Name, recv.T)
	}
	return t.bad("call %s", callee)
}

func (t *tr) apply(fn fnSpec, recv *V, args []ast.Expr, en env) V {
	var vs []V
	if recv != nil {
		vs = append(vs, *recv)
	}
	vs = append(vs, t.exprs(args, en)...)
	if fn.Arity >= 0 && len(vs) != fn.Arity {
		return t.bad("arity of %s: %d", fn.L, len(vs))
	}
	s := fn.L
	for i, v := range vs {
		if i < len(fn.Args) && fn.Args[i] != "" && fn.Args[i] != v.T {
			return t.bad("argument %d of `%s`: %s, expected %s", i, fn.L, v.T, fn.Args[i])
		}
	}
	for i := len(vs) - 1; i >= 0; i-- { // highest first: %10 before %1
		s = strings.ReplaceAll(s, fmt.Sprintf("%%%d", i+1), atom(vs[i].L))
	}
	if fn.Note != "" {
		t.notes = append(t.notes, fn.Note)
	}
	return V{s, fn.T}
}

func (t *tr) unitCall(u *Unit, recv *V, args []ast.Expr, en env) V {
	if u.failed != "" {
		return t.bad("calls %s, which is not translatable (%s)", u.Name, u.failed)
	}
	// positional sources: receiver (if any) then the call arguments, translated lazily so
	// that dropped parameters (ctx, the keeper itself) are never looked at
	type src struct {
		v *V
		e ast.Expr
	}
	var srcs []src
	if recv != nil {
		srcs = append(srcs, src{v: recv})
	}
	for _, a := range args {
		srcs = append(srcs, src{e: a})
	}
	var parts []string
	i := 0
	for _, p := range u.Params {
		if p.Oracle {
			ov, ok := en.m[p.Go]
			if !ok || ov.t != p.T {
				return t.bad("call of unit %s: oracle parameter %s is not available in the caller", u.Name, p.Go)
			}
			parts = append(parts, ov.lean)
			continue
		}
		if p.T == "" || p.T == "Keeper" {
			i++
			continue
		}
		if i >= len(srcs) {
			return t.bad("arity of unit %s", u.Name)
		}
		var v V
		if srcs[i].v != nil {
			v = *srcs[i].v
		} else {
			v = t.expr(srcs[i].e, en)
		}
		if v.T != p.T {
			return t.bad("argument %s of unit %s: %s, expected %s", p.Go, u.Name, v.T, p.T)
		}
		parts = append(parts, v.L)
		i++
	}
	callL := "(" + u.Name + " " + strings.Join(parts, " ") + ")"
	if u.Inline != "" {
		callL = "(" + u.Inline + " " + strings.Join(parts, " ") + ")"
		k, si := 0, 0 // k: index among the value parameters; si: index among receiver + arguments
		for _, p := range u.Params {
			if p.Oracle {
				continue
			}
			if p.T == "" || p.T == "Keeper" {
				si++
				continue
			}
			if k < len(u.Mutates) && u.Mutates[k] && si < len(srcs) && srcs[si].e != nil {
				if id, ok := srcs[si].e.(*ast.Ident); ok {
					if ov, ok := en.m[id.Name]; ok {
						for n, v := range en.m { // every caller-side name of that object
							if v.lean == ov.lean {
								en.m[n] = evar{"POISON_" + n, "Poison", v.depth}
							}
						}
						t.notes = append(t.notes, "helper "+u.Func+" writes through its parameter "+p.Go+": "+id.Name+" is not usable after the call")
					}
				}
			}
			k++
			si++
		}
	}
	if u.StoreOn && !u.EffectsOn {
		// a store-threaded callee takes the current store and returns the new one as its last component
		if !t.u.StoreOn {
			return t.bad("call of store-threaded unit %s from a unit without a store", u.Name)
		}
		callS := callL[:len(callL)-1] + " st__)"
		tmp := t.fresh("call")
		stProj := tmp + strings.Repeat(".2", len(u.Ret))
		t.pre = append(t.pre, fmt.Sprintf("let %s := %s\nlet st__ : GStore := %s\n", tmp, callS, stProj))
		if len(u.Ret) == 0 {
			return V{"()", "Unit"}
		}
		if len(u.Ret) == 1 {
			return V{tmp + ".1", u.retType()}
		}
		var comps []string
		for i := range u.Ret {
			comps = append(comps, tmp+strings.Repeat(".2", i)+".1")
		}
		return V{"(" + strings.Join(comps, ", ") + ")", u.retType()}
	}
	if u.EffectsOn {
		// the callee returns its own effect list as the last component: splice it into ours
		ev, ok := en.m["effs__"]
		if !ok || !t.u.EffectsOn {
			return t.bad("call of effectful unit %s from a unit without an effect list", u.Name)
		}
		tmp := t.fresh("call")
		if len(u.Ret) == 0 {
			t.pre = append(t.pre, fmt.Sprintf("let %s := %s ++ %s\n", ev.lean, ev.lean, callL))
			return V{"()", "Unit"}
		}
		// the callee's result is (r1, …, rn, effects)
		effProj := tmp + strings.Repeat(".2", len(u.Ret))
		t.pre = append(t.pre, fmt.Sprintf("let %s := %s\nlet %s := %s ++ %s\n", tmp, callL, ev.lean, ev.lean, effProj))
		if len(u.Ret) == 1 {
			return V{tmp + ".1", u.retType()}
		}
		var comps []string
		for i := range u.Ret {
			comps = append(comps, tmp+strings.Repeat(".2", i)+".1")
		}
		return V{"(" + strings.Join(comps, ", ") + ")", u.retType()}
	}
	return V{callL, u.retType()}
}

func (u *Unit) retType() LT {
	var base LT
	switch len(u.Ret) {
	case 0:
		base = "Unit"
	case 1:
		base = u.Ret[0]
	default:
		base = "(" + strings.Join(u.Ret, " × ") + ")"
	}
	return base
}

func leanType(t LT) string {
	switch {
	case t == "Coins":
		return "(List Coin)"
	case t == "Key":
		return "(List Int)"
	case t == "Bal":
		return "(Denom → Int)"
	case t == "BankFn":
		return "(Addr → Denom → Int)"
	case t == "Err":
		return "Bool"
	case t == "Time":
		return "Int"
	case t == "PairRange":
		return "Int" // a prefixed pair range is its prefix (the auction id)
	case strings.HasPrefix(t, "List "):
		return "List " + leanTypeAtom(strings.TrimPrefix(t, "List "))
	case strings.HasPrefix(t, "Option "):
		return "Option " + leanTypeAtom(strings.TrimPrefix(t, "Option "))
	case strings.HasPrefix(t, "Map "):
		k, v := mapTypes(t)
		return leanTypeAtom(k) + " → Option " + leanTypeAtom(v)
	case strings.HasPrefix(t, "(") && strings.Contains(t, " × "):
		parts := strings.Split(strings.TrimSuffix(strings.TrimPrefix(t, "("), ")"), " × ")
		for i := range parts {
			parts[i] = leanTypeAtom(parts[i])
		}
		return "(" + strings.Join(parts, " × ") + ")"
	}
	return t
}

func leanTypeAtom(t LT) string {
	s := leanType(t)
	if strings.Contains(s, " ") && !(strings.HasPrefix(s, "(") && strings.HasSuffix(s, ")") && balanced(s[1:len(s)-1])) {
		return "(" + s + ")"
	}
	return s
}

// ------------------------------------------------------------------ statements

// ret renders a `return` of the enclosing function.
func (t *tr) ret(s *ast.ReturnStmt, en env) string {
	if t.closure != nil && t.closure.rets != nil {
		if len(s.Results) != len(t.closure.rets) {
			return t.failf("closure return arity")
		}
		var vals []string
		for i, r := range s.Results {
			want := t.closure.rets[i]
			v := t.expr(r, en)
			switch {
			case want == "Err" && v.T == "Nil":
				v = V{"false", "Err"}
			case v.T == "Nil" && defaultable[want]:
				v = V{"(default : " + leanType(want) + ")", want}
			case want == "Bool" && (v.L == "true" || v.L == "false"):
			case v.T != want:
				return t.failf("closure returns %s, expected %s", v.T, want)
			}
			vals = append(vals, v.L)
		}
		return t.takePre() + "(" + strings.Join(vals, ", ") + ")"
	}
	if t.closure != nil {
		if len(s.Results) != 1 {
			return t.failf("closure return arity")
		}
		v := t.expr(s.Results[0], en)
		if v.T != "Bool" {
			return t.failf("closure returns %s", v.T)
		}
		var st []string
		for _, n := range t.closure.state {
			st = append(st, en.m[n].lean)
		}
		stt := "()"
		if len(st) == 1 {
			stt = st[0]
		} else if len(st) > 1 {
			stt = "(" + strings.Join(st, ", ") + ")"
		}
		return t.takePre() + "(" + v.L + ", " + stt + ")"
	}
	var vals []string
	if len(s.Results) == 0 && len(t.u.Ret) > 0 {
		// naked return of named results
		for _, n := range t.u.Named {
			v, ok := en.m[n]
			if !ok {
				return t.failf("naked return: %s unbound", n)
			}
			vals = append(vals, v.lean)
		}
	}
	for i, r := range s.Results {
		want := ""
		if i < len(t.u.Ret) {
			want = t.u.Ret[i]
		}
		v := t.expr(r, en)
		if want == "Err" {
			switch v.T {
			case "Nil":
				v = V{"false", "Err"}
			case "Err":
			default:
				return t.failf("return of %s where an error is expected", v.T)
			}
		} else if v.T == "Nil" && defaultable[want] {
			v = V{"(default : " + leanType(want) + ")", want}
		} else if want == "Unit" && v.T == "Nil" {
			v = V{"()", "Unit"}
		} else if strings.HasPrefix(want, "Option ") && v.T == "Nil" {
			v = V{"none", want}
		} else if strings.HasPrefix(want, "Option ") && "Option "+v.T == want {
			v = V{"(some " + v.L + ")", want}
		} else if v.T != want {
			return t.failf("return of %s, expected %s", v.T, want)
		}
		vals = append(vals, v.L)
	}
	if t.u.EffectsOn {
		ev, ok := en.m["effs__"]
		if !ok {
			return t.failf("effects variable unbound")
		}
		vals = append(vals, ev.lean)
	}
	if t.u.StoreOn {
		vals = append(vals, "st__")
	}
	var r string
	switch len(vals) {
	case 0:
		r = "()"
	case 1:
		r = vals[0]
	default:
		r = "(" + strings.Join(vals, ", ") + ")"
	}
	pre := t.takePre()
	if t.loop != nil {
		return pre + "Loop.ret " + atom(r)
	}
	return pre + r
}

func atom(s string) string {
	if strings.ContainsAny(s, " \n") && !(strings.HasPrefix(s, "(") && strings.HasSuffix(s, ")") && balanced(s[1:len(s)-1])) {
		return "(" + s + ")"
	}
	return s
}

func balanced(s string) bool {
	d := 0
	for _, c := range s {
		switch c {
		case '(':
			d++
		case ')':
			d--
			if d < 0 {
				return false
			}
		}
	}
	return d == 0
}

func (t *tr) stmts(list []ast.Stmt, en env, k cont) string {
	if t.fail != "" {
		return "UNTRANSLATABLE"
	}
	if len(list) == 0 {
		return k(en)
	}
	if nl, ok := t.indexFill(list); ok {
		list = nl
	}
	s, rest := list[0], list[1:]
	next := func(en env) string { return t.stmts(rest, en, k) }
	switch s := s.(type) {
	case *ast.ReturnStmt:
		return t.ret(s, en)
	case *ast.EmptyStmt:
		return next(en)
	case *ast.BlockStmt:
		return t.stmts(s.List, en.deeper(), func(env) string { return next(en) })
	case *ast.DeferStmt:
		if c := t.w.render(s.Call.Fun); strings.HasPrefix(c, "telemetry.") {
			return next(en)
		}
		return t.failf("defer")
	case *ast.ExprStmt:
		call, ok := s.X.(*ast.CallExpr)
		if !ok {
			return t.failf("expression statement %T", s.X)
		}
		callee := t.calleeKey(call.Fun)
		for _, pre := range ignoredPrefixes {
			if strings.HasPrefix(callee, pre) || strings.Contains(callee, ".Logger().") {
				return next(en)
			}
		}
		if callee == "sort.Strings" && len(call.Args) == 1 {
			if id, ok := call.Args[0].(*ast.Ident); ok {
				if v, ok := en.m[id.Name]; ok && v.t == "List Acc" {
					return fmt.Sprintf("let %s : %s := (Go.sortAcc %s)\n", v.lean, leanType(v.t), v.lean) + next(en)
				}
			}
			return t.failf("sort.Strings of %s", t.w.render(call.Args[0]))
		}
		if callee == "sort.Slice" && len(call.Args) == 2 {
			id, ok1 := call.Args[0].(*ast.Ident)
			fl, ok2 := call.Args[1].(*ast.FuncLit)
			if ok1 && ok2 {
				return t.sortSlice(id, fl, en, next)
			}
			return t.failf("sort.Slice of %s", t.w.render(call.Args[0]))
		}
		if callee == "sort.Search" && len(call.Args) == 2 {
			if fl, ok := call.Args[1].(*ast.FuncLit); ok {
				return t.sortSearch(call.Args[0], fl, en, next)
			}
		}
		if ignoredCalls[callee] || strings.HasSuffix(callee, ".EmitEvents") || strings.HasSuffix(callee, ".EmitEvent") {
			return next(en)
		}
		if _, ok := t.u.Calls[callee]; ok {
			t.expr(call, en)
			return t.takePre() + next(en)
		}
		if out, en2, ok := t.mutate(call, en); ok {
			return t.takePre() + out + next(en2)
		}
		if callee == "panic" {
			return t.failf("panic statement")
		}
		return t.failf("call statement %s", callee)
	case *ast.IncDecStmt:
		x := t.expr(s.X, en)
		op := "+"
		if s.Tok == token.DEC {
			op = "-"
		}
		if sel, ok := s.X.(*ast.SelectorExpr); ok && x.T == "Int" {
			if b, ok := sel.X.(*ast.Ident); ok {
				if bv, ok := en.m[b.Name]; ok {
					if st, ok := setters[bv.t+"."+sel.Sel.Name]; ok {
						upd := strings.ReplaceAll(strings.ReplaceAll(st.L, "%1", bv.lean), "%2", "("+x.L+" "+op+" 1)")
						return fmt.Sprintf("let %s : %s := %s\n", bv.lean, leanType(bv.t), upd) + next(en)
					}
				}
			}
		}
		if ix, ok := s.X.(*ast.IndexExpr); ok && x.T == "Int" {
			if mid, ok := ix.X.(*ast.Ident); ok {
				if mv, ok := en.m[mid.Name]; ok && strings.HasPrefix(mv.t, "Map ") {
					k := t.expr(ix.Index, en)
					return fmt.Sprintf("let %s : %s := Go.mapSet %s %s (%s %s 1)\n", mv.lean, leanType(mv.t), mv.lean, k.L, x.L, op) + next(en)
				}
			}
		}
		id, ok := s.X.(*ast.Ident)
		if !ok || x.T != "Int" {
			return t.failf("inc/dec of %s", t.w.render(s.X))
		}
		return fmt.Sprintf("let %s := %s %s 1\n", en.m[id.Name].lean, x.L, op) + next(en)
	case *ast.DeclStmt:
		gd, ok := s.Decl.(*ast.GenDecl)
		if !ok || gd.Tok != token.VAR {
			return t.failf("declaration")
		}
		out := ""
		for _, sp := range gd.Specs {
			vs := sp.(*ast.ValueSpec)
			for i, n := range vs.Names {
				var v V
				if i < len(vs.Values) {
					v = t.expr(vs.Values[i], en)
				} else {
					z, ok := zeroValues[t.w.render(vs.Type)]
					if !ok {
						if textTypes[t.w.render(vs.Type)] {
							// a buffer for human-readable text (`var msg strings.Builder`): the text is not
							// modelled; the variable is poisoned — harmless unless something translated uses it
							en = en.copy()
							en.m[n.Name] = evar{"POISON_" + n.Name, "Poison", en.depth}
							t.notes = append(t.notes, "variable "+n.Name+" ("+t.w.render(vs.Type)+") holds message text, which is not modelled")
							continue
						}
						return t.failf("zero value of %s", t.w.render(vs.Type))
					}
					v = z
				}
				var ln string
				en, ln = t.declare(en, n.Name, v.T)
				out += fmt.Sprintf("let %s : %s := %s\n", ln, leanType(v.T), v.L)
			}
		}
		return out + next(en)
	case *ast.AssignStmt:
		pre, en2 := t.assign(s, en)
		return pre + next(en2)
	case *ast.IfStmt:
		if t.u.JoinIfs && s.Else == nil && s.Init == nil && !hasJump(s.Body) && !hasLoop(s.Body) {
			// an `if` that only updates variables: translated as a join
			//   let (vars) := if c then (… vars') else (vars)
			// instead of duplicating the rest of the function into both branches
			c := t.expr(s.Cond, en)
			if c.T != "Bool" && c.T != "Err" {
				return t.failf("condition of type %s", c.T)
			}
			cpre := t.takePre()
			if c.L == "false" || c.L == "(false)" {
				return cpre + next(en)
			}
			vars := assignedOuter(s.Body, en, t.u.Alias)
			if t.u.EffectsOn {
				vars = append(vars, "effs__")
			}
			if t.u.StoreOn && !t.inWalk {
				vars = append(vars, "st__")
			}
			tuple := func(e2 env) string {
				var parts []string
				for _, n := range vars {
					parts = append(parts, e2.m[n].lean)
				}
				switch len(parts) {
				case 0:
					return "()"
				case 1:
					return parts[0]
				}
				return "(" + strings.Join(parts, ", ") + ")"
			}
			thenS := t.stmts(s.Body.List, en.deeper(), tuple)
			pat := tuple(en)
			return cpre + "let " + pat + " := (if " + c.L + " then\n" + indent(indent(thenS)) + "\n  else\n    " + pat + ")\n" + next(en)
		}
		en2 := en.deeper()
		pre := ""
		if s.Init != nil {
			as, ok := s.Init.(*ast.AssignStmt)
			if !ok {
				return t.failf("if-init %T", s.Init)
			}
			pre, en2 = t.assign(as, en2)
		}
		c := t.expr(s.Cond, en2)
		if c.T != "Bool" && c.T != "Err" {
			return t.failf("condition of type %s", c.T)
		}
		pre += t.takePre()
		after := func(env) string { return next(en) }
		elseS := ""
		if s.Else == nil {
			elseS = next(en)
		} else {
			elseS = t.stmts([]ast.Stmt{s.Else}, en2.copy(), after)
		}
		if c.L == "false" || c.L == "(false)" {
			return pre + elseS
		}
		thenS := t.stmts(s.Body.List, en2.deeper(), after)
		return pre + "if " + c.L + " then\n" + indent(thenS) + "\nelse\n" + indent(elseS)
	case *ast.SwitchStmt:
		if s.Init == nil && s.Tag == nil {
			// a tagless switch is an if / else-if chain: translate it AS that chain, so that the two
			// spellings of the same decision give the same term
			var chain ast.Stmt
			var deflt *ast.BlockStmt
			var clauses []*ast.CaseClause
			for _, cs := range s.Body.List {
				cc := cs.(*ast.CaseClause)
				for _, st := range cc.Body {
					if b, ok := st.(*ast.BranchStmt); ok && (b.Tok == token.FALLTHROUGH || b.Tok == token.BREAK) {
						return t.failf("switch with %s", b.Tok)
					}
				}
				if cc.List == nil {
					deflt = &ast.BlockStmt{List: cc.Body}
					continue
				}
				clauses = append(clauses, cc)
			}
			if len(clauses) == 0 {
				return t.failf("switch form")
			}
			if deflt != nil {
				chain = deflt
			}
			for i := len(clauses) - 1; i >= 0; i-- {
				cond := clauses[i].List[0]
				for _, e := range clauses[i].List[1:] {
					cond = &ast.BinaryExpr{X: cond, Op: token.LOR, Y: e}
				}
				chain = &ast.IfStmt{Cond: cond, Body: &ast.BlockStmt{List: clauses[i].Body}, Else: chain}
			}
			return t.stmts(append([]ast.Stmt{chain}, rest...), en, k)
		}
		if s.Init != nil || s.Tag == nil {
			return t.failf("switch form")
		}
		tag := t.expr(s.Tag, en)
		swPre := t.takePre()
		after := func(env) string { return next(en) }
		type arm struct {
			cond string
			body []ast.Stmt
		}
		var arms []arm
		var deflt []ast.Stmt
		hasDefault := false
		for _, cs := range s.Body.List {
			cc := cs.(*ast.CaseClause)
			if cc.List == nil {
				hasDefault = true
				deflt = cc.Body
				continue
			}
			var conds []string
			for _, ce := range cc.List {
				v := t.expr(ce, en)
				if v.T == "String" && v.L == leanStr("") && strings.HasPrefix(tag.T, "Option ") {
					conds = append(conds, "("+tag.L+").isNone") // `case ""` on an optional request string
					continue
				}
				if v.T != tag.T {
					if tag.T == "Option "+v.T {
						v = V{"(some " + v.L + ")", tag.T}
					} else {
						return t.failf("case %s vs tag %s", v.T, tag.T)
					}
				}
				conds = append(conds, "decide ("+tag.L+" = "+v.L+")")
			}
			arms = append(arms, arm{"(" + strings.Join(conds, " || ") + ")", cc.Body})
		}
		out := ""
		if hasDefault {
			out = t.stmts(deflt, en.deeper(), after)
		} else {
			out = next(en)
		}
		for i := len(arms) - 1; i >= 0; i-- {
			for _, st := range arms[i].body {
				if b, ok := st.(*ast.BranchStmt); ok && b.Tok == token.FALLTHROUGH {
					return t.failf("fallthrough")
				}
			}
			body := t.stmts(arms[i].body, en.deeper(), after)
			out = "if " + arms[i].cond + " then\n" + indent(body) + "\nelse\n" + indent(out)
		}
		return swPre + out
	case *ast.BranchStmt:
		if t.loop == nil || s.Label != nil {
			return t.failf("branch statement outside a loop")
		}
		switch s.Tok {
		case token.CONTINUE:
			return t.loop.call(en)
		case token.BREAK:
			return t.loop.done(en)
		}
		return t.failf("branch %s", s.Tok)
	case *ast.RangeStmt:
		t.loopNode = s
		return t.rangeLoop(s, en, next)
	case *ast.ForStmt:
		t.loopNode = s
		// `for i := 0; i < len(xs); i++ { … xs[i] … }` (or `i < n` with `n := len(xs)`) is the
		// index loop `for i := range xs`
		if rs := t.indexFor(s); rs != nil {
			return t.rangeLoop(rs, en, next)
		}
		return t.failf("for statement that is not an index loop over a slice")
	}
	return t.failf("statement %T", s)
}

// assign translates `x := e`, `x = e`, `x, err := f()`, `x.F = e`, `m[k] = e`.
func (t *tr) assign(s *ast.AssignStmt, en env) (string, env) {
	// `_ = x.SetStatus(v)`: a mutator whose error result is discarded
	if len(s.Lhs) == 1 && len(s.Rhs) == 1 && identName(s.Lhs[0]) == "_" {
		if call, ok := s.Rhs[0].(*ast.CallExpr); ok {
			if out, en2, ok := t.mutate(call, en); ok {
				return t.takePre() + out, en2
			}
		}
	}
	out, en2 := t.assign0(s, en)
	return t.takePre() + out, en2
}

// mutate translates a call of a pointer-receiver setter on a local variable
// (`bid.SetMatched(b)`, `auction.SetStatus(s)`) into a structure update of that variable.
func (t *tr) mutate(call *ast.CallExpr, en env) (string, env, bool) {
	sel, ok := call.Fun.(*ast.SelectorExpr)
	if !ok {
		return "", en, false
	}
	base, ok := sel.X.(*ast.Ident)
	if !ok {
		return "", en, false
	}
	bv, ok := en.m[base.Name]
	if !ok {
		return "", en, false
	}
	m, ok := mutators[bv.t+"."+sel.Sel.Name]
	if !ok {
		return "", en, false
	}
	if len(call.Args) != 1 {
		t.failf("mutator %s arity", sel.Sel.Name)
		return "", en, true
	}
	v := t.expr(call.Args[0], en)
	if v.T != m.T {
		t.failf("mutator %s.%s: %s, expected %s", bv.t, sel.Sel.Name, v.T, m.T)
		return "", en, true
	}
	upd := strings.ReplaceAll(strings.ReplaceAll(m.L, "%1", bv.lean), "%2", v.L)
	if bv.depth == 0 {
		if t.mutated == nil {
			t.mutated = map[string]bool{}
		}
		t.mutated[bv.lean] = true // a parameter is written through (a pointer / interface value in Go)
	}
	return fmt.Sprintf("let %s : %s := %s\n", bv.lean, leanType(bv.t), upd), en, true
}

// isTextExpr: a string literal, a call of fmt.Sprintf / fmt.Sprint, the variable itself, or a `+` of such
func isTextExpr(e ast.Expr, self string) bool {
	switch x := e.(type) {
	case *ast.BasicLit:
		return x.Kind == token.STRING
	case *ast.Ident:
		return x.Name == self
	case *ast.ParenExpr:
		return isTextExpr(x.X, self)
	case *ast.BinaryExpr:
		return x.Op == token.ADD && isTextExpr(x.X, self) && isTextExpr(x.Y, self)
	case *ast.CallExpr:
		if sel, ok := x.Fun.(*ast.SelectorExpr); ok && identName(sel.X) == "fmt" && strings.HasPrefix(sel.Sel.Name, "Sprint") {
			return true
		}
	}
	return false
}

var opAssign = map[token.Token]token.Token{token.ADD_ASSIGN: token.ADD, token.SUB_ASSIGN: token.SUB, token.MUL_ASSIGN: token.MUL}

func (t *tr) assign0(s *ast.AssignStmt, en env) (string, env) {
	if t.u.DropText && len(s.Lhs) == 1 && len(s.Rhs) == 1 && identName(s.Lhs[0]) != "" && isTextExpr(s.Rhs[0], identName(s.Lhs[0])) {
		// human-readable text (the report of an invariant) is not modelled: a variable that is only
		// ever given string literals, fmt.Sprintf results and concatenations of itself is dropped
		n := identName(s.Lhs[0])
		if s.Tok == token.DEFINE {
			en = en.copy()
			en.m[n] = evar{"POISON_" + n, "Poison", en.depth}
			return "", en
		}
		if v, ok := en.m[n]; ok && v.t == "Poison" {
			return "", en
		}
	}
	if op, ok := opAssign[s.Tok]; ok && len(s.Lhs) == 1 && len(s.Rhs) == 1 && identName(s.Lhs[0]) != "" {
		// `x op= e` on a plain variable is `x = x op e`
		s = &ast.AssignStmt{Lhs: s.Lhs, TokPos: s.TokPos, Tok: token.ASSIGN,
			Rhs: []ast.Expr{&ast.BinaryExpr{X: s.Lhs[0], OpPos: s.TokPos, Op: op, Y: s.Rhs[0]}}}
	}
	if s.Tok != token.DEFINE && s.Tok != token.ASSIGN {
		return t.failf("assignment operator %s", s.Tok), en
	}
	if len(s.Lhs) == 1 && len(s.Rhs) == 1 {
		// remember `n := len(xs)` (an index loop may be bounded by n); any other assignment to n forgets it
		if n := identName(s.Lhs[0]); n != "" {
			if t.lenOf == nil {
				t.lenOf = map[string]ast.Expr{}
			}
			delete(t.lenOf, n)
			if c, ok := s.Rhs[0].(*ast.CallExpr); ok && identName(c.Fun) == "len" && len(c.Args) == 1 && s.Tok == token.DEFINE {
				t.lenOf[n] = c.Args[0]
			}
		}
	}
	en = en.copy()
	// `x := y.(*T)` / `x, ok := y.(*T)`: x is another name for the object y points to
	if len(s.Rhs) == 1 && s.Tok == token.DEFINE {
		if ta, ok := s.Rhs[0].(*ast.TypeAssertExpr); ok {
			if y, ok := ta.X.(*ast.Ident); ok {
				if yv, ok := en.m[y.Name]; ok && (len(s.Lhs) == 1 || len(s.Lhs) == 2) {
					if x := identName(s.Lhs[0]); x != "" && x != "_" {
						en.m[x] = evar{yv.lean, yv.t, en.depth}
					}
					out := ""
					if len(s.Lhs) == 2 {
						want, ok := assertKinds[baseTypeName(ta.Type)]
						if !ok || yv.t != "Auction" {
							return t.failf("type assertion to %s", t.w.render(ta.Type)), en
						}
						var n string
						en, n = t.bindLhs(en, s.Lhs[1], "Bool", s.Tok)
						if n != "_" {
							out = fmt.Sprintf("let %s : Bool := decide (%s.type = %s)\n", n, yv.lean, want)
						}
					}
					return out, en
				}
			}
		}
	}
	// `err := x.SetStatus(v)`: a mutator whose (always nil) error is bound
	if len(s.Lhs) == 1 && len(s.Rhs) == 1 {
		if call, ok := s.Rhs[0].(*ast.CallExpr); ok {
			if out, en2, ok := t.mutate(call, en); ok {
				if id := identName(s.Lhs[0]); id != "" && id != "_" {
					en2 = en2.copy()
					en2.m[id] = evar{"false", "Err", en2.depth}
				}
				return out, en2
			}
		}
		// `auction = fa` where both names denote the same object
		if a, ok := s.Lhs[0].(*ast.Ident); ok && s.Tok == token.ASSIGN {
			if b, ok := s.Rhs[0].(*ast.Ident); ok {
				av, ok1 := en.m[a.Name]
				bv, ok2 := en.m[b.Name]
				if ok1 && ok2 && av.lean == bv.lean {
					return "", en
				}
			}
		}
	}
	// multi-value call
	if len(s.Lhs) > 1 && len(s.Rhs) == 1 {
		// map read with ok
		if ix, ok := s.Rhs[0].(*ast.IndexExpr); ok && len(s.Lhs) == 2 {
			t.commaOk = true
			v := t.expr(ix, en)
			t.commaOk = false
			if !strings.HasPrefix(v.T, "Option ") {
				return t.failf("comma-ok on %s", v.T), en
			}
			inner := strings.TrimPrefix(v.T, "Option ")
			z, okz := zeroByLean[inner]
			if !okz {
				return t.failf("zero value of %s", inner), en
			}
			var a, b string
			en, a = t.bindLhs(en, s.Lhs[0], inner, s.Tok)
			en, b = t.bindLhs(en, s.Lhs[1], "Bool", s.Tok)
			out := ""
			if b != "_" {
				out += fmt.Sprintf("let %s := (%s).isSome\n", b, v.L)
			}
			if a != "_" {
				out += fmt.Sprintf("let %s := (%s).getD %s\n", a, v.L, z)
			}
			return out, en
		}
		v := t.expr(s.Rhs[0], en)
		if !(strings.HasPrefix(v.T, "(") && strings.Contains(v.T, " × ")) {
			return t.failf("multi-value from %s", v.T), en
		}
		parts := strings.Split(strings.TrimSuffix(strings.TrimPrefix(v.T, "("), ")"), " × ")
		if len(parts) != len(s.Lhs) {
			return t.failf("multi-value arity"), en
		}
		out := ""
		_, lhs0sel := s.Lhs[0].(*ast.SelectorExpr)
		if len(parts) == 2 && !lhs0sel && strings.HasPrefix(v.L, "(") && strings.HasSuffix(v.L, ")") {
			inner := v.L[1 : len(v.L)-1]
			if j := strings.LastIndex(inner, ", "); j > 0 && balanced(inner[:j]) && !strings.Contains(inner[j+2:], " ") {
				a, b := inner[:j], inner[j+2:]
				var n string
				en, n = t.bindLhs(en, s.Lhs[0], parts[0], s.Tok)
				if n != "_" {
					out += fmt.Sprintf("let %s : %s := %s\n", n, leanType(parts[0]), a)
				}
				if id := identName(s.Lhs[1]); id != "_" && id != "" {
					if parts[1] == "Err" && b == "false" && s.Tok == token.DEFINE {
						en.m[id] = evar{"false", "Err", en.depth}
					} else {
						en, n = t.bindLhs(en, s.Lhs[1], parts[1], s.Tok)
						out += fmt.Sprintf("let %s : %s := %s\n", n, leanType(parts[1]), b)
					}
				}
				return out, en
			}
		}
		tmp := t.fresh("r")
		out += fmt.Sprintf("let %s := %s\n", tmp, v.L)
		for i, l := range s.Lhs {
			var n string
			if sel, isSel := l.(*ast.SelectorExpr); isSel {
				// `x.F, err = f()`: through a temporary
				tn := t.fresh("tmp")
				proj := tmp
				for j := 0; j < i; j++ {
					proj += ".2"
				}
				if i < len(parts)-1 {
					proj += ".1"
				}
				out += fmt.Sprintf("let %s : %s := %s\n", tn, leanType(parts[i]), proj)
				en.m["tmp__"+tn] = evar{tn, parts[i], en.depth}
				o2, en2 := t.assign0(&ast.AssignStmt{Lhs: []ast.Expr{sel}, Tok: token.ASSIGN, Rhs: []ast.Expr{&ast.Ident{Name: "tmp__" + tn}}}, en)
				out += o2
				en = en2
				continue
			}
			en, n = t.bindLhs(en, l, parts[i], s.Tok)
			if n == "_" {
				continue
			}
			proj := tmp
			for j := 0; j < i; j++ {
				proj += ".2"
			}
			if i < len(parts)-1 {
				proj += ".1"
			}
			out += fmt.Sprintf("let %s := %s\n", n, proj)
		}
		return out, en
	}
	if len(s.Lhs) != len(s.Rhs) {
		return t.failf("assignment arity"), en
	}
	out := ""
	for i := range s.Lhs {
		before, npre := t.fail, len(t.pre)
		v := t.expr(s.Rhs[i], en)
		if id, isId := s.Lhs[i].(*ast.Ident); isId && before == "" && t.fail != "" && s.Tok == token.DEFINE && npre == len(t.pre) {
			// a value the translator cannot express (an event, a log field, …): the variable is
			// POISONED — harmless as long as nothing that is translated uses it
			t.notes = append(t.notes, "variable "+id.Name+" is not translatable ("+t.fail+"); it is only allowed in ignored calls")
			t.fail = ""
			en.m[id.Name] = evar{"POISON_" + id.Name, "Poison", en.depth}
			continue
		}
		switch l := s.Lhs[i].(type) {
		case *ast.Ident:
			var n string
			ty := v.T
			if old, ok := en.m[l.Name]; ok && s.Tok == token.ASSIGN {
				if v.T == "Nil" && strings.HasPrefix(old.t, "Option ") {
					v = V{"none", old.t}
				} else if old.t == "Option "+v.T {
					v = V{"(some " + v.L + ")", old.t}
				}
				ty = old.t
				if old.t == "Err" && v.T == "Nil" {
					v = V{"false", "Err"}
				}
				if v.T == "Option "+old.t {
					t.notes = append(t.notes, "a pointer known to be non-nil at the assignment (it is guarded by `!= nil`) is dereferenced")
					v = V{"((" + v.L + ").getD default)", old.t}
				}
				if old.t == "Err" && v.L == "false" && !t.noLit[l.Name] {
					en.m[l.Name] = evar{"false", "Err", old.depth}
					continue
				}
				if old.t == "Addr" && v.T == "Acc" {
					// a variable that holds a module address on one path and an account on another
					v = V{"(Addr.user " + atom(v.L) + ")", "Addr"}
				}
				if v.T != old.t {
					return t.failf("assignment of %s to %s : %s", v.T, l.Name, old.t), en
				}
			}
			if ty == "Err" && v.L == "false" && s.Tok == token.DEFINE {
				// an error that is nil by assumption (oracle / effect call): keep it a literal,
				// so that the `if err != nil` that follows disappears
				en.m[l.Name] = evar{"false", "Err", en.depth}
				continue
			}
			en, n = t.bindLhs(en, l, ty, s.Tok)
			if n == "_" {
				continue
			}
			out += fmt.Sprintf("let %s : %s := %s\n", n, leanType(ty), v.L)
			if len(s.Lhs) == 1 {
				t.notePureDef(s, en, npre, V{v.L, ty})
			}
		case *ast.SelectorExpr:
			// x.F = e, x.F.G = e  (x a local struct value)
			root := l.X
			for {
				if se, ok := root.(*ast.SelectorExpr); ok {
					root = se.X
					continue
				}
				break
			}
			base, ok := root.(*ast.Ident)
			if !ok {
				return t.failf("assignment to %s", t.w.render(l)), en
			}
			bv, ok := en.m[base.Name]
			if !ok {
				return t.failf("assignment to field of unknown %s", base.Name), en
			}
			// rebuild from the inside out: newVal for l.X.Sel, then for its parent, …
			cur := ast.Expr(l)
			newVal := v
			for {
				se := cur.(*ast.SelectorExpr)
				parent := t.expr(se.X, en)
				st, ok := setters[parent.T+"."+se.Sel.Name]
				if !ok {
					return t.failf("setter %s.%s", parent.T, se.Sel.Name), en
				}
				if st.T != newVal.T {
					return t.failf("setter %s.%s: %s, expected %s", parent.T, se.Sel.Name, newVal.T, st.T), en
				}
				newVal = V{"(" + strings.ReplaceAll(strings.ReplaceAll(st.L, "%1", parent.L), "%2", newVal.L) + ")", parent.T}
				if _, isIdent := se.X.(*ast.Ident); isIdent {
					break
				}
				cur = se.X
			}
			out += fmt.Sprintf("let %s : %s := %s\n", bv.lean, leanType(bv.t), newVal.L)
			// write-back through a pointer obtained from a map entry
			if al, ok := t.u.Alias[base.Name]; ok {
				bs, ok1 := en.m[al.Base]
				kv, ok2 := en.m[al.Key]
				if !ok1 || !ok2 {
					return t.failf("alias of %s: %s or %s unbound", base.Name, al.Base, al.Key), en
				}
				fl, ok3 := fields[bs.t][al.Field]
				st2, ok4 := setters[bs.t+"."+al.Field]
				if !ok3 || !ok4 {
					return t.failf("alias of %s: field %s of %s", base.Name, al.Field, bs.t), en
				}
				cur := strings.ReplaceAll(fl.L, "%s", bs.lean)
				upd2 := strings.ReplaceAll(strings.ReplaceAll(st2.L, "%1", bs.lean), "%2",
					fmt.Sprintf("(Go.mapSet %s %s %s)", cur, kv.lean+al.KeyField, bv.lean))
				out += fmt.Sprintf("let %s : %s := %s\n", bs.lean, leanType(bs.t), upd2)
			}
		case *ast.IndexExpr:
			m := t.expr(l.X, en)
			k := t.expr(l.Index, en)
			id, ok := l.X.(*ast.Ident)
			if ok && strings.HasPrefix(m.T, "List ") {
				// `xs[i] = v` on a slice variable
				if strings.TrimPrefix(m.T, "List ") != v.T || k.T != "Int" {
					return t.failf("slice element %s at index %s, expected %s", v.T, k.T, m.T), en
				}
				mv := en.m[id.Name]
				out += fmt.Sprintf("let %s : %s := Go.listSet %s %s %s\n", mv.lean, leanType(mv.t), mv.lean, atom(k.L), atom(v.L))
				continue
			}
			if !ok || !strings.HasPrefix(m.T, "Map ") {
				// field map: res.M[k] = v
				if sel, ok := l.X.(*ast.SelectorExpr); ok && strings.HasPrefix(m.T, "Map ") {
					if b, ok := sel.X.(*ast.Ident); ok {
						bv := en.m[b.Name]
						if st, ok := setters[bv.t+"."+sel.Sel.Name]; ok {
							upd := strings.ReplaceAll(strings.ReplaceAll(st.L, "%1", bv.lean), "%2", fmt.Sprintf("(Go.mapSet %s %s %s)", m.L, k.L, v.L))
							out += fmt.Sprintf("let %s : %s := %s\n", bv.lean, leanType(bv.t), upd)
							continue
						}
					}
				}
				return t.failf("indexed assignment to %s", t.w.render(l.X)), en
			}
			_, vt := mapTypes(m.T)
			if vt != v.T {
				return t.failf("map value %s, expected %s", v.T, vt), en
			}
			mv := en.m[id.Name]
			out += fmt.Sprintf("let %s : %s := Go.mapSet %s %s %s\n", mv.lean, leanType(mv.t), mv.lean, k.L, v.L)
		default:
			return t.failf("assignment target %T", l), en
		}
	}
	return out, en
}

func (t *tr) bindLhs(en env, l ast.Expr, ty LT, tok token.Token) (env, string) {
	id, ok := l.(*ast.Ident)
	if !ok {
		t.failf("binding target %T", l)
		return en, "_"
	}
	if id.Name == "_" {
		return en, "_"
	}
	if tok == token.ASSIGN {
		v, ok := en.m[id.Name]
		if !ok {
			t.failf("assignment to undeclared %s", id.Name)
			return en, "_"
		}
		if v.lean == "false" || v.lean == "true" {
			// the variable was known to hold a literal: it gets a real binding now
			ln := t.fresh(id.Name)
			en.m[id.Name] = evar{ln, v.t, v.depth}
			return en, ln
		}
		return en, v.lean
	}
	return t.declare(en, id.Name, ty)
}

// assignedOuter: Go variables declared outside `body` (present in en) that `body` assigns.
func assignedOuter(body *ast.BlockStmt, en env, alias map[string]aliasSpec) []string {
	declared := map[string]int{}
	set := map[string]bool{}
	mark := func(e ast.Expr) {
		for {
			switch x := e.(type) {
			case *ast.SelectorExpr:
				e = x.X
				continue
			case *ast.IndexExpr:
				e = x.X
				continue
			case *ast.Ident:
				if _, ok := en.m[x.Name]; ok && declared[x.Name] == 0 {
					set[x.Name] = true
				}
				if al, ok := alias[x.Name]; ok {
					if _, ok := en.m[al.Base]; ok {
						set[al.Base] = true
					}
				}
			}
			return
		}
	}
	ast.Inspect(body, func(n ast.Node) bool {
		switch s := n.(type) {
		case *ast.AssignStmt:
			for _, l := range s.Lhs {
				if id, ok := l.(*ast.Ident); ok && s.Tok == token.DEFINE {
					// a := inside the body shadows; conservatively treat later uses as local
					if _, outer := en.m[id.Name]; !outer {
						declared[id.Name]++
					}
					continue
				}
				mark(l)
			}
		case *ast.IncDecStmt:
			mark(s.X)
		case *ast.CallExpr:
			if sel, ok := s.Fun.(*ast.SelectorExpr); ok && mutatorNames[sel.Sel.Name] {
				mark(sel.X)
			}
		}
		return true
	})
	var out []string
	for k := range set {
		if v, ok := en.m[k]; ok && v.t == "Poison" {
			continue // a dropped variable (message text) is not part of the state a loop or a join carries
		}
		out = append(out, k)
	}
	sort.Strings(out)
	return out
}

// hasJump: the block contains a return / break / continue / goto (at any depth)
func hasJump(b *ast.BlockStmt) bool {
	found := false
	ast.Inspect(b, func(n ast.Node) bool {
		switch n.(type) {
		case *ast.ReturnStmt, *ast.BranchStmt:
			found = true
		case *ast.FuncLit:
			return false
		}
		return !found
	})
	return found
}

func hasBreakOrContinue(b *ast.BlockStmt) bool {
	found := false
	ast.Inspect(b, func(n ast.Node) bool {
		switch n.(type) {
		case *ast.BranchStmt:
			found = true
		case *ast.FuncLit, *ast.RangeStmt, *ast.ForStmt:
			return false
		}
		return !found
	})
	return found
}

// indexFill: the three consecutive statements
//
//	xs = make([]T, len(m));  i := 0;  for k := range m { xs[i] = E; i++ }      (the first two in either order)
//
// fill a slice that has one slot per key of the map, front to back, once per key: they are
//
//	xs = make([]T, 0);  for k := range m { xs = append(xs, E) };  i := len(xs)
//
// and are translated as that (E may mention k but neither xs nor i).  One normal form for the two
// ways of collecting the keys of a map into a slice.
func (t *tr) indexFill(list []ast.Stmt) ([]ast.Stmt, bool) {
	if len(list) < 3 {
		return nil, false
	}
	rs, ok := list[2].(*ast.RangeStmt)
	if !ok || rs.Value != nil && identName(rs.Value) != "_" || identName(rs.Key) == "" || identName(rs.Key) == "_" || len(rs.Body.List) != 2 {
		return nil, false
	}
	as, ok1 := rs.Body.List[0].(*ast.AssignStmt)
	inc, ok2 := rs.Body.List[1].(*ast.IncDecStmt)
	if !ok1 || !ok2 || as.Tok != token.ASSIGN || len(as.Lhs) != 1 || len(as.Rhs) != 1 || inc.Tok != token.INC {
		return nil, false
	}
	ix, ok := as.Lhs[0].(*ast.IndexExpr)
	if !ok {
		return nil, false
	}
	xs, i := identName(ix.X), identName(ix.Index)
	if xs == "" || i == "" || identName(inc.X) != i {
		return nil, false
	}
	fi := freeIdents(as.Rhs[0])
	if fi[xs] || fi[i] {
		return nil, false
	}
	var mk, zero *ast.AssignStmt
	for _, st := range list[:2] {
		a, ok := st.(*ast.AssignStmt)
		if !ok || len(a.Lhs) != 1 || len(a.Rhs) != 1 {
			return nil, false
		}
		switch identName(a.Lhs[0]) {
		case xs:
			mk = a
		case i:
			zero = a
		}
	}
	if mk == nil || zero == nil || zero.Tok != token.DEFINE {
		return nil, false
	}
	if bl, ok := zero.Rhs[0].(*ast.BasicLit); !ok || bl.Value != "0" {
		return nil, false
	}
	c, ok := mk.Rhs[0].(*ast.CallExpr)
	if !ok || identName(c.Fun) != "make" || len(c.Args) != 2 {
		return nil, false
	}
	ln, ok := c.Args[1].(*ast.CallExpr)
	if !ok || identName(ln.Fun) != "len" || len(ln.Args) != 1 || t.w.render(ln.Args[0]) != t.w.render(rs.X) {
		return nil, false
	}
	mk2 := &ast.AssignStmt{Lhs: mk.Lhs, TokPos: mk.TokPos, Tok: mk.Tok,
		Rhs: []ast.Expr{&ast.CallExpr{Fun: c.Fun, Args: []ast.Expr{c.Args[0], &ast.BasicLit{Kind: token.INT, Value: "0"}}}}}
	app := &ast.AssignStmt{Lhs: []ast.Expr{ix.X}, TokPos: as.TokPos, Tok: token.ASSIGN,
		Rhs: []ast.Expr{&ast.CallExpr{Fun: &ast.Ident{Name: "append"}, Args: []ast.Expr{ix.X, as.Rhs[0]}}}}
	rs2 := &ast.RangeStmt{For: rs.For, Key: rs.Key, Value: rs.Value, TokPos: rs.TokPos, Tok: rs.Tok, X: rs.X,
		Body: &ast.BlockStmt{Lbrace: rs.Body.Lbrace, List: []ast.Stmt{app}, Rbrace: rs.Body.Rbrace}}
	cnt := &ast.AssignStmt{Lhs: zero.Lhs, TokPos: zero.TokPos, Tok: token.DEFINE,
		Rhs: []ast.Expr{&ast.CallExpr{Fun: &ast.Ident{Name: "len"}, Args: []ast.Expr{ix.X}}}}
	out := append([]ast.Stmt{mk2, rs2, cnt}, list[3:]...)
	t.notes = append(t.notes, "make+index fill over the keys of "+t.w.render(rs.X)+" normalised to append")
	return out, true
}

// hasLoop: a loop is translated to a match on `Loop.ret`/`Loop.done`, whose first arm has the type
// of the enclosing function's continuation — it cannot sit inside a join
func hasLoop(b *ast.BlockStmt) bool {
	found := false
	ast.Inspect(b, func(n ast.Node) bool {
		switch n.(type) {
		case *ast.RangeStmt, *ast.ForStmt:
			found = true
		case *ast.FuncLit:
			return false
		}
		return !found
	})
	return found
}

func freeIdents(n ast.Node) map[string]bool {
	out := map[string]bool{}
	ast.Inspect(n, func(n ast.Node) bool {
		if id, ok := n.(*ast.Ident); ok {
			out[id.Name] = true
		}
		return true
	})
	return out
}

func (t *tr) rangeLoop(s *ast.RangeStmt, en env, next cont) string {
	if s.Tok != token.DEFINE && s.Tok != token.ILLEGAL {
		return t.failf("range with assignment")
	}
	var loopNode ast.Node = s
	if t.loopNode != nil {
		loopNode = t.loopNode // the statement as it is in the source (s may be its desugared form)
	}
	if keys, ok := t.u.MapKeys[t.w.render(s.X)]; ok {
		return t.mapRange(s, keys, en, next)
	}
	if cl, ok := s.X.(*ast.CompositeLit); ok && s.Value != nil && identName(s.Key) == "_" {
		// `for _, f := range []func(…) …{A, B, C} { … f(…)(…) … }` over a LITERAL list of named
		// functions that are units: the loop is unrolled, `f` standing for A, then B, then C
		allUnits := len(cl.Elts) > 0
		for _, el := range cl.Elts {
			if u, ok := t.reg["."+identName(el)]; !ok || identName(el) == "" || !u.Closure {
				allUnits = false
			}
		}
		if _, isArr := cl.Type.(*ast.ArrayType); isArr && allUnits && !hasBreakOrContinue(s.Body) {
			var step func(i int, e2 env) string
			step = func(i int, e2 env) string {
				if i == len(cl.Elts) {
					return next(en)
				}
				e3 := e2.deeper()
				e3.m[identName(s.Value)] = evar{identName(cl.Elts[i]), "FuncRef", e3.depth}
				return t.stmts(s.Body.List, e3, func(env) string { return step(i+1, en) })
			}
			return step(0, en)
		}
	}
	xs := t.expr(s.X, en)
	if strings.HasPrefix(xs.T, "Map ") && len(t.u.MapKeyOrder) > 0 {
		// a range over a Go map that the unit table does not know by NAME (a renamed variable):
		// the key-order oracles are given by position, in source order of the map ranges
		if t.mapRangeIdx == nil {
			t.mapRangeIdx = map[*ast.BlockStmt]int{}
		}
		idx, seen := t.mapRangeIdx[s.Body]
		if !seen {
			idx = len(t.mapRangeIdx)
			t.mapRangeIdx[s.Body] = idx
		}
		if idx < len(t.u.MapKeyOrder) {
			return t.mapRange(s, t.u.MapKeyOrder[idx], en, next)
		}
	}
	if s.Value == nil && s.Key != nil && identName(s.Key) != "_" && identName(s.Key) != "" {
		// `for i := range xs { … xs[i] … }` is `for i, x := range xs { … x … }`
		if strings.HasPrefix(xs.T, "List ") || strings.HasPrefix(xs.T, "Option List ") {
			i := identName(s.Key)
			elem := i + "__elem"
			if t.indexAlias == nil {
				t.indexAlias = map[string]string{}
			}
			t.indexAlias[t.w.render(s.X)+"["+i+"]"] = elem
			// an index that is used for nothing but `xs[i]` is not carried by the translated loop
			var key ast.Expr = &ast.Ident{Name: "_"}
			xr := t.w.render(s.X)
			var uses func(n ast.Node) bool
			used := false
			uses = func(n ast.Node) bool {
				switch e := n.(type) {
				case *ast.IndexExpr:
					if t.w.render(e.X) == xr && identName(e.Index) == i {
						return false
					}
				case *ast.Ident:
					if e.Name == i {
						used = true
					}
				}
				return true
			}
			ast.Inspect(s.Body, uses)
			if used {
				key = s.Key
			}
			s = &ast.RangeStmt{Key: key, Value: &ast.Ident{Name: elem}, Tok: token.DEFINE, X: s.X, Body: s.Body}
		}
	}
	if strings.HasPrefix(xs.T, "Option List ") {
		xs = V{"((" + xs.L + ").getD [])", strings.TrimPrefix(xs.T, "Option ")} // ranging over a missing map entry = nil slice
	}
	if !strings.HasPrefix(xs.T, "List ") {
		return t.failf("range over %s", xs.T)
	}
	loopPre := t.takePre()
	elT := strings.TrimPrefix(xs.T, "List ")
	t.nloop++
	loopBase := t.u.Name
	if t.loopBase != "" {
		loopBase = t.loopBase // a helper inlined into another unit: its loops are that unit's loops
	}
	name := fmt.Sprintf("%s.loop%d", loopBase, t.nloop)

	state := assignedOuter(s.Body, en, t.u.Alias)
	if t.u.EffectsOn {
		has := false
		for _, n := range state {
			if n == "effs__" {
				has = true
			}
		}
		if !has {
			state = append(state, "effs__")
		}
	}
	if t.u.StoreOn {
		state = append(state, "st__")
	}
	isState := map[string]bool{}
	matPre := ""
	en = en.copy()
	if t.noLit == nil {
		t.noLit = map[string]bool{}
	}
	for _, n := range state {
		isState[n] = true
		t.noLit[n] = true
		if v := en.m[n]; v.lean == "false" || v.lean == "true" {
			ln := t.fresh(n)
			matPre += fmt.Sprintf("let %s : %s := %s\n", ln, leanType(v.t), v.lean)
			en.m[n] = evar{ln, v.t, v.depth}
		}
	}
	// free variables of the body that live in the environment (and are not state): not the
	// loop's own variables (they shadow), not what occurs only inside `xs[i]` of an index loop
	fi := map[string]bool{}
	{
		own := map[string]bool{identName(s.Key): true, identName(s.Value): true}
		ast.Inspect(s.Body, func(n ast.Node) bool {
			switch e := n.(type) {
			case *ast.IndexExpr:
				if _, ok := t.indexAlias[t.w.render(e)]; ok && identName(e.Index) == identName(s.Key) && identName(s.Key) != "" {
					return false
				}
				if a, ok := t.indexAlias[t.w.render(e)]; ok && a == identName(s.Value) {
					return false
				}
			case *ast.Ident:
				if !own[e.Name] {
					fi[e.Name] = true
				}
			}
			return true
		})
	}
	if t.u.EffectsOn {
		fi["effs__"] = true
	}
	for _, x := range t.extraFree {
		fi[x] = true
	}
	t.extraFree = nil
	// oracle values are reached through the call table, not through identifiers
	ast.Inspect(s.Body, func(n ast.Node) bool {
		if ce, ok := n.(*ast.CallExpr); ok {
			if se, ok := ce.Fun.(*ast.SelectorExpr); ok && se.Sel.Name == "BlockTime" {
				fi["now__"] = true // `….BlockTime()` is the oracle parameter now__ (methods table)
			}
			if cs, ok := t.u.Calls[t.calleeKey(ce.Fun)]; ok {
				for _, p := range t.u.Params {
					if p.Oracle && strings.Contains(cs.Value.L, p.Go) {
						fi[p.Go] = true
					}
				}
			}
			// a call of another unit passes the oracle parameters of that unit on
			var key string
			switch f := ce.Fun.(type) {
			case *ast.SelectorExpr:
				key = f.Sel.Name
			case *ast.Ident:
				key = f.Name
			}
			for k, u := range t.reg {
				if strings.HasSuffix(k, "."+key) {
					for _, p := range u.Params {
						if p.Oracle {
							fi[p.Go] = true
						}
					}
				}
			}
		}
		return true
	})
	var frees []string
	for n := range fi {
		if v, ok := en.m[n]; ok && !isState[n] && v.t != "Keeper" && v.t != "Poison" && v.lean != "false" && v.lean != "true" {
			frees = append(frees, n)
		}
	}
	// immutable pure locals are not passed to the loop: their bindings are repeated inside it
	var rebind []*pureDef
	{
		seen := map[string]bool{}
		inFrees := map[string]bool{}
		var keep []string
		var visit func(n string)
		visit = func(n string) {
			if seen[n] {
				return
			}
			seen[n] = true
			v, ok := en.m[n]
			if !ok || isState[n] || v.t == "Keeper" || v.lean == "false" || v.lean == "true" {
				return
			}
			if d, ok := t.pureDefs[v.lean]; ok && d.goName == n {
				// x and everything it reads must keep their values until the loop is over
				okDeps := t.untouchedUntil(n, loopNode)
				for _, x := range d.deps {
					if isState[x] || !t.untouchedUntil(x, loopNode) {
						okDeps = false
					}
				}
				if okDeps {
					for _, x := range d.deps {
						visit(x)
					}
					rebind = append(rebind, d)
					return
				}
			}
			if !inFrees[n] {
				inFrees[n] = true
				keep = append(keep, n)
			}
		}
		for _, n := range frees {
			visit(n)
		}
		frees = keep
		sort.Slice(rebind, func(i, j int) bool { return rebind[i].seq < rebind[j].seq })
	}
	sort.Strings(frees)

	withIndex := s.Key != nil && identName(s.Key) != "_" && s.Value != nil
	if s.Value == nil && s.Key != nil && identName(s.Key) != "_" {
		return t.failf("range with index only")
	}

	// the auxiliary definition
	ben := en.deeper()
	var params, callArgs []string
	for _, n := range frees {
		v := en.m[n]
		params = append(params, fmt.Sprintf("(%s : %s)", v.lean, leanType(v.t)))
		callArgs = append(callArgs, v.lean)
	}
	var stTypes, stNames []string
	for _, n := range state {
		v := en.m[n]
		stTypes = append(stTypes, leanTypeAtom(v.t))
		stNames = append(stNames, v.lean)
	}
	idxName := ""
	if withIndex {
		ben, idxName = t.declare(ben, identName(s.Key), "Int")
		stTypes = append([]string{"Int"}, stTypes...)
	}
	var elName string
	if s.Value != nil {
		ben, elName = t.declare(ben, identName(s.Value), elT)
	} else {
		elName = "_"
	}
	mvPre := ""
	if mv := t.mapVal; mv != nil {
		t.mapVal = nil
		var ln string
		ben, ln = t.declare(ben, mv.name, mv.t)
		mvPre = fmt.Sprintf("let %s : %s := %s\n", ln, leanType(mv.t), strings.ReplaceAll(mv.lean, "%s", elName))
	}
	stateTuple := func(en env) string {
		var parts []string
		for _, n := range state {
			parts = append(parts, en.m[n].lean)
		}
		switch len(parts) {
		case 0:
			return "()"
		case 1:
			return parts[0]
		}
		return "(" + strings.Join(parts, ", ") + ")"
	}
	stateType := "Unit"
	{
		var parts []string
		for _, n := range state {
			parts = append(parts, leanTypeAtom(en.m[n].t))
		}
		switch len(parts) {
		case 0:
		case 1:
			stateType = parts[0]
		default:
			stateType = "(" + strings.Join(parts, " × ") + ")"
		}
	}
	recCall := func(e2 env) string {
		args := append([]string{}, callArgs...)
		args = append(args, "rest__")
		if withIndex {
			args = append(args, "("+idxName+" + 1)")
		}
		for _, n := range state {
			args = append(args, e2.m[n].lean)
		}
		return name + " " + strings.Join(args, " ")
	}
	outer := t.loop
	t.loop = &loopCtx{
		call:  recCall,
		done:  func(e2 env) string { return "Loop.done " + atom(stateTuple(e2)) },
		outer: outer,
	}
	rbPre := ""
	for _, d := range rebind {
		rbPre += fmt.Sprintf("let %s : %s := %s\n", d.lean, leanType(d.t), d.def)
	}
	body := rbPre + mvPre + t.stmts(s.Body.List, ben, recCall)
	t.loop = outer

	retT := leanTypeAtom(t.fullRet())
	var pats string
	nilPats := "[]"
	consPats := "(" + elName + " :: rest__)"
	if withIndex {
		nilPats += ", _"
		consPats += ", " + idxName
	}
	for _, n := range stNames {
		nilPats += ", " + n
		consPats += ", " + n
	}
	pats = fmt.Sprintf("  | %s => Loop.done %s\n  | %s =>\n%s", nilPats, atom(stateTuple(en)), consPats, indent(indent(body)))
	sig := fmt.Sprintf("def %s %s : List %s → %s → Loop %s %s\n", name, strings.Join(params, " "), leanTypeAtom(elT),
		strings.Join(stTypes, " → "), retT, leanTypeAtom(stateType))
	if len(stTypes) == 0 {
		sig = fmt.Sprintf("def %s %s : List %s → Loop %s %s\n", name, strings.Join(params, " "), leanTypeAtom(elT), retT, leanTypeAtom(stateType))
	}
	t.aux = append(t.aux, sig+pats+"\n")

	// the call site
	args := append([]string{}, callArgs...)
	args = append(args, atom(xs.L))
	if withIndex {
		args = append(args, "0")
	}
	args = append(args, stNames...)
	var retArm string
	if t.loop != nil {
		retArm = "Loop.ret r__"
	} else {
		retArm = "r__"
	}
	return loopPre + matPre + fmt.Sprintf("match %s %s with\n| Loop.ret r__ => %s\n| Loop.done %s =>\n%s", name, strings.Join(args, " "), retArm,
		stateTuple(en), indent(next(en)))
}

// walkFold: `coll.Walk(ctx, nil, func(key, val) (bool, error) { …; return false, nil })` — the
// closure visits every record of the collection in key order and never stops or fails: the call
// becomes a left fold of the closure body (an auxiliary definition over the captured variables it
// assigns) over the list of records the call table names.
func (t *tr) walkFold(cs callSpec, fl *ast.FuncLit, en env) V {
	ps := paramNames(fl.Type.Params)
	if len(ps) != 2 {
		return t.bad("Walk closure arity")
	}
	body := fl.Body.List
	if len(body) == 0 {
		return t.bad("empty Walk closure")
	}
	last, ok := body[len(body)-1].(*ast.ReturnStmt)
	if !ok || len(last.Results) != 2 || identName(last.Results[0]) != "false" || identName(last.Results[1]) != "nil" {
		return t.bad("Walk closure does not end in `return false, nil`")
	}
	inner := &ast.BlockStmt{List: body[:len(body)-1]}
	// `if err != nil { panic(err) }` on an oracle error disappears; any other jump is not supported
	elT := strings.TrimPrefix(cs.Value.T, "List ")
	state := assignedOuter(inner, en, t.u.Alias)
	isState := map[string]bool{}
	for _, x := range state {
		isState[x] = true
	}
	var frees []string
	for x := range freeIdents(inner) {
		if v, ok := en.m[x]; ok && !isState[x] && v.t != "Keeper" && v.lean != "false" && v.lean != "true" {
			frees = append(frees, x)
		}
	}
	sort.Strings(frees)
	t.nclos++
	name := fmt.Sprintf("%s.walk%d", t.u.Name, t.nclos)
	cen := en.deeper()
	var params, callArgs, stNames, stTypes []string
	for _, x := range frees {
		v := en.m[x]
		params = append(params, fmt.Sprintf("(%s : %s)", v.lean, leanType(v.t)))
		callArgs = append(callArgs, v.lean)
	}
	var valName string
	cen, valName = t.declare(cen, ps[1], elT)
	if ps[0] != "_" {
		cen.m[ps[0]] = evar{"POISON_key", "Poison", cen.depth}
	}
	params = append(params, fmt.Sprintf("(%s : %s)", valName, leanType(elT)))
	for _, x := range state {
		v := en.m[x]
		params = append(params, fmt.Sprintf("(%s : %s)", v.lean, leanType(v.t)))
		stNames = append(stNames, v.lean)
		stTypes = append(stTypes, leanTypeAtom(v.t))
	}
	stType, stTuple := "Unit", "()"
	if len(stNames) == 1 {
		stType, stTuple = stTypes[0], stNames[0]
	} else if len(stNames) > 1 {
		stType, stTuple = "("+strings.Join(stTypes, " × ")+")", "("+strings.Join(stNames, ", ")+")"
	}
	oldLoop, oldClos, oldPre := t.loop, t.closure, t.pre
	t.loop, t.closure, t.pre = nil, nil, nil
	failBefore := t.fail
	t.inWalk = true // a Walk closure does not touch the store: joins inside it do not thread `st__`
	defer func() { t.inWalk = false }()
	bodyL := t.stmts(inner.List, cen, func(e2 env) string {
		var parts []string
		for _, n := range state {
			parts = append(parts, e2.m[n].lean)
		}
		switch len(parts) {
		case 0:
			return "()"
		case 1:
			return parts[0]
		}
		return "(" + strings.Join(parts, ", ") + ")"
	})
	t.loop, t.closure, t.pre = oldLoop, oldClos, oldPre
	if failBefore == "" && t.fail != "" {
		return V{"UNTRANSLATABLE", "?"}
	}
	if hasJump(inner) {
		return t.bad("Walk closure with an early return")
	}
	t.aux = append(t.aux, fmt.Sprintf("def %s %s : %s :=\n%s\n", name, strings.Join(params, " "), stType, indent(bodyL)))
	list := strings.ReplaceAll(cs.Walk, "%s", "st__")
	lam := fmt.Sprintf("(fun s__ v__ => %s %s v__ %s)", name, strings.Join(callArgs, " "), "s__")
	if len(stNames) > 1 {
		var projs []string
		for i := range stNames {
			p := "s__" + strings.Repeat(".2", i)
			if i < len(stNames)-1 {
				p += ".1"
			}
			projs = append(projs, p)
		}
		lam = fmt.Sprintf("(fun s__ v__ => %s %s v__ %s)", name, strings.Join(callArgs, " "), strings.Join(projs, " "))
	}
	t.pre = append(t.pre, fmt.Sprintf("let %s := List.foldl %s %s %s\n", stTuple, lam, stTuple, list))
	return V{"false", "Err"}
}

// mapRange: `for k, v := range m` over a Go map.  The iteration order of a Go map is not
// defined; the unit table names an ORACLE parameter holding the keys in the order this
// execution happens to visit them, and the tie theorem quantifies over every enumeration.
func (t *tr) mapRange(s *ast.RangeStmt, keys string, en env, next cont) string {
	kv, ok := en.m[keys]
	if !ok || !strings.HasPrefix(kv.t, "List ") {
		return t.failf("map range: key oracle %s unbound", keys)
	}
	m := t.expr(s.X, en)
	if !strings.HasPrefix(m.T, "Map ") {
		return t.failf("map range over %s", m.T)
	}
	_, vt := mapTypes(m.T)
	z, okz := zeroByLean[vt]
	if !okz {
		return t.failf("zero value of %s", vt)
	}
	// rewrite as a range over the key list with the value read at the top of the body
	body := &ast.BlockStmt{List: s.Body.List}
	rs := &ast.RangeStmt{Key: &ast.Ident{Name: "_"}, Value: s.Key, Tok: token.DEFINE, X: &ast.Ident{Name: keys}, Body: body}
	t.extraFree = nil
	for x := range freeIdents(s.X) {
		t.extraFree = append(t.extraFree, x)
	}
	if s.Value != nil && identName(s.Value) != "_" {
		t.mapVal = &mapValBind{name: identName(s.Value), lean: fmt.Sprintf("((%s %%s).getD %s)", m.L, z), t: vt, key: identName(s.Key)}
	}
	return t.rangeLoop(rs, en, next)
}

// sortSearch: `sort.Search(n, func(i int) bool { … })` where the closure assigns captured
// variables.  The closure body becomes an auxiliary definition `(i, state) ↦ (result, state')`
// and the call becomes `Go.sortSearch n closure state` (Go's binary search, Tables/GoSemMatch.lean).
func (t *tr) sortSearch(nExpr ast.Expr, fl *ast.FuncLit, en env, next cont) string {
	n := t.expr(nExpr, en)
	if n.T != "Int" {
		return t.failf("sort.Search bound of type %s", n.T)
	}
	pre := t.takePre()
	ps := paramNames(fl.Type.Params)
	if len(ps) != 1 {
		return t.failf("sort.Search closure arity")
	}
	state := assignedOuter(fl.Body, en, t.u.Alias)
	isState := map[string]bool{}
	for _, x := range state {
		isState[x] = true
	}
	fi := freeIdents(fl.Body)
	var frees []string
	for x := range fi {
		if v, ok := en.m[x]; ok && !isState[x] && v.t != "Keeper" && v.lean != "false" && v.lean != "true" {
			frees = append(frees, x)
		}
	}
	sort.Strings(frees)
	t.nclos++
	name := fmt.Sprintf("%s.closure%d", t.u.Name, t.nclos)
	cen := en.deeper()
	var params, callArgs, stTypes, stNames []string
	for _, x := range frees {
		v := en.m[x]
		params = append(params, fmt.Sprintf("(%s : %s)", v.lean, leanType(v.t)))
		callArgs = append(callArgs, v.lean)
	}
	var iName string
	cen, iName = t.declare(cen, ps[0], "Int")
	params = append(params, fmt.Sprintf("(%s : Int)", iName))
	for _, x := range state {
		v := en.m[x]
		params = append(params, fmt.Sprintf("(%s : %s)", v.lean, leanType(v.t)))
		stTypes = append(stTypes, leanTypeAtom(v.t))
		stNames = append(stNames, v.lean)
	}
	stType, stTuple := "Unit", "()"
	if len(stTypes) == 1 {
		stType, stTuple = stTypes[0], stNames[0]
	} else if len(stTypes) > 1 {
		stType, stTuple = "("+strings.Join(stTypes, " × ")+")", "("+strings.Join(stNames, ", ")+")"
	}
	oldLoop, oldClos := t.loop, t.closure
	t.loop, t.closure = nil, &closureCtx{state: state}
	body := t.stmts(fl.Body.List, cen, func(env) string { return t.failf("closure can fall off its end") })
	t.loop, t.closure = oldLoop, oldClos
	t.aux = append(t.aux, fmt.Sprintf("def %s %s : (Bool × %s) :=\n%s\n", name, strings.Join(params, " "), stType, indent(body)))
	lam := fmt.Sprintf("(fun i__ s__ => %s %s i__ %s)", name, strings.Join(callArgs, " "), "s__")
	if len(stNames) > 1 {
		var projs []string
		for i := range stNames {
			p := "s__" + strings.Repeat(".2", i)
			if i < len(stNames)-1 {
				p += ".1"
			}
			projs = append(projs, p)
		}
		lam = fmt.Sprintf("(fun i__ s__ => %s %s i__ %s)", name, strings.Join(callArgs, " "), strings.Join(projs, " "))
	}
	out := pre + fmt.Sprintf("let r__ := Go.sortSearch %s %s %s\n", atom(n.L), lam, stTuple)
	for i, sn := range stNames {
		p := "r__.2" + strings.Repeat(".2", i)
		if len(stNames) > 1 && i < len(stNames)-1 {
			p += ".1"
		}
		if len(stNames) == 1 {
			p = "r__.2"
		}
		out += fmt.Sprintf("let %s := %s\n", sn, p)
	}
	return out + next(en)
}

func (t *tr) fullRet() LT {
	rets := append([]LT{}, t.u.Ret...)
	if t.u.EffectsOn {
		rets = append(rets, "List GEff")
	}
	if t.u.StoreOn {
		rets = append(rets, "GStore")
	}
	switch len(rets) {
	case 0:
		return "Unit"
	case 1:
		return rets[0]
	}
	return "(" + strings.Join(rets, " × ") + ")"
}

// goResultTypes: result types of helper functions translated on demand
var goResultTypes = map[string]LT{"error": "Err", "math.Int": "Int", "bool": "Bool", "math.LegacyDec": "Dec", "sdk.Coin": "Coin",
	"types.Bid": "Bid", "int64": "Int", "uint64": "Int", "int": "Int", "sdk.AccAddress": "Acc", "string": "Acc", "time.Time": "Time", "[]string": "List Acc", "[]types.Bid": "List Bid", "[]Bid": "List Bid", "Bid": "Bid", "sdk.Coins": "Coins", "[]types.VestingQueue": "List VQ", "[]types.AllowedBidder": "List Allowed"}

// autoUnit translates, on demand, a helper function of the unit's own package that the unit
// table does not list (a refactoring that extracts a helper must not make its callers
// untranslatable): parameter types are taken from the call site, result types from the Go
// signature, and the caller's oracle / effect declarations are inherited.
func (t *tr) autoUnit(recvName, fname string, args []ast.Expr, en env) *Unit {
	p := t.w.mustPkg(t.u.Pkg)
	var fd funcDecl
	var ok bool
	if recvName != "" {
		fd, ok = p.methods[recvName][fname]
	} else {
		fd, ok = p.funcs[fname]
	}
	if !ok || fd.decl.Body == nil || t.depth > 3 {
		return nil
	}
	u := &Unit{Group: t.u.Group, Pkg: t.u.Pkg, Recv: recvName, Func: fname, Calls: t.u.Calls, Idents: t.u.Idents,
		EffectsOn: t.u.EffectsOn, Alias: t.u.Alias, MapKeys: t.u.MapKeys, MapKeyOrder: t.u.MapKeyOrder, StoreOn: t.u.StoreOn, JoinIfs: t.u.JoinIfs, TypeNames: t.u.TypeNames}
	// a helper without a context parameter and without a keeper receiver cannot reach the store,
	// the bank or the hooks: it is a pure function (no effect list, no store threaded through it)
	hasCtx := recvName != ""
	if fd.decl.Type.Params != nil {
		for _, f := range fd.decl.Type.Params.List {
			switch t.w.render(f.Type) {
			case "context.Context", "sdk.Context", "keeper.Keeper", "Keeper":
				hasCtx = true
			}
		}
	}
	if !hasCtx {
		u.EffectsOn, u.StoreOn = false, false
	}
	key := "." + fname
	if recvName != "" {
		u.RecvLean = "Keeper"
		key = "Keeper." + fname
		rn := "_recv"
		if fd.decl.Recv != nil && len(fd.decl.Recv.List) == 1 && len(fd.decl.Recv.List[0].Names) == 1 {
			rn = fd.decl.Recv.List[0].Names[0].Name
		}
		u.Params = append(u.Params, gparam{Go: rn, T: "Keeper"})
	}
	names := paramNames(fd.decl.Type.Params)
	if len(names) != len(args) {
		return nil
	}
	i := 0
	for _, f := range fd.decl.Type.Params.List {
		ty := t.w.render(f.Type)
		for range f.Names {
			if ty == "context.Context" || ty == "sdk.Context" {
				u.Params = append(u.Params, gparam{Go: names[i]})
			} else {
				sub := &tr{w: t.w, u: t.u, reg: t.reg, used: map[string]bool{}}
				v := sub.expr(args[i], en)
				if sub.fail != "" {
					return nil
				}
				gp := gparam{Go: names[i], T: v.T}
				if id, ok := args[i].(*ast.Ident); ok {
					// the same object passed twice (under two names of the caller)?
					for j := 0; j < i; j++ {
						if jd, ok := args[j].(*ast.Ident); ok && en.m[jd.Name].lean == en.m[id.Name].lean && en.m[jd.Name].t == v.T && en.m[id.Name].lean != "" {
							gp.AliasOf = names[j]
							break
						}
					}
				}
				u.Params = append(u.Params, gp)
			}
			i++
		}
	}
	for _, pp := range t.u.Params {
		if pp.Oracle {
			u.Params = append(u.Params, pp)
		}
	}
	if fd.decl.Type.Results != nil {
		for _, f := range fd.decl.Type.Results.List {
			rt, ok := goResultTypes[t.w.render(f.Type)]
			if !ok {
				return nil
			}
			n := len(f.Names)
			if n == 0 {
				n = 1
			}
			for j := 0; j < n; j++ {
				u.Ret = append(u.Ret, rt)
				if len(f.Names) > 0 {
					u.Named = append(u.Named, f.Names[j].Name)
					if u.NamedTypes == nil {
						u.NamedTypes = map[string]LT{}
					}
					u.NamedTypes[f.Names[j].Name] = rt
				}
			}
		}
	}
	u.Name = t.u.Name + "__" + fname
	if t.mapRangeIdx == nil {
		t.mapRangeIdx = map[*ast.BlockStmt]int{}
	}
	sub := &tr{w: t.w, u: u, reg: t.reg, depth: t.depth + 1, nloop: t.nloop, loopBase: t.u.Name, mapRangeIdx: t.mapRangeIdx}
	if t.loopBase != "" {
		sub.loopBase = t.loopBase
	}
	text := sub.translate(fd)
	t.nloop = sub.nloop
	if sub.fail != "" {
		return nil
	}
	// a helper that is not in the unit table is INLINED at its call sites (as a β-redex): the
	// translation of `f(); g()` and of `h()` with `func h() { f(); g() }` are the same term up to β,
	// so extracting or inlining a helper in the Go source does not disturb the tie theorems
	t.aux = append(t.aux, "-- helper translated on demand (not in the unit table); inlined at its call sites\n"+strings.Replace(text, "\ndef ", "\n@[simp, grind] def ", 1))
	u.Inline = sub.lambda
	// a helper that writes through a pointer parameter changes the CALLER's object; the inlined
	// value-level translation cannot carry that back, so the caller's variable is unusable
	// after the call (poisoned: harmless when, as in a tail call, nothing reads it again)
	for _, p := range u.Params {
		if p.T == "" || p.T == "Keeper" || p.Oracle {
			continue
		}
		u.Mutates = append(u.Mutates, sub.mutated[sub.paramLeanOf[p.Go]])
	}
	t.notes = append(t.notes, "helper "+fname+" translated on demand")
	t.reg[key] = u
	return u
}

// recordEffect renders `effs := effs ++ [GEff.mk name args]` for a call the unit table
// declares as an effect; `collections.Join(a, b)` arguments are flattened.
func (t *tr) recordEffect(name string, idx []int, call *ast.CallExpr, en env) string {
	if !t.u.EffectsOn {
		return t.failf("effect %s in a unit without an effect list", name)
	}
	var args []string
	if t.extraEffArg != "" {
		args = append(args, t.extraEffArg)
	}
	var add func(a ast.Expr)
	add = func(a ast.Expr) {
		for _, v := range t.keyParts(a, en) {
			r, ok := renderers[v.T]
			if !ok {
				t.failf("effect %s: no renderer for %s", name, v.T)
				return
			}
			args = append(args, strings.ReplaceAll(r, "%s", v.L))
		}
	}
	for _, i := range idx {
		if i >= len(call.Args) {
			return t.failf("effect %s: argument %d missing", name, i)
		}
		add(call.Args[i])
	}
	ev, ok := en.m["effs__"]
	if !ok {
		return t.failf("effects variable unbound")
	}
	return fmt.Sprintf("let %s := %s ++ [GEff.mk GName.%s [%s]]\n", ev.lean, ev.lean, name, strings.Join(args, ", "))
}

// ------------------------------------------------------------------ units

func (t *tr) translate(fd funcDecl) (out string) {
	// a construct the translator did not anticipate must not take the whole extraction down:
	// the unit becomes untranslatable and the ties that mention it stop checking
	defer func() {
		if r := recover(); r != nil {
			t.fail = fmt.Sprintf("translator panic: %v", r)
			out = fmt.Sprintf("/-- %s%s — NOT TRANSLATABLE: %s -/\ndef %s : Untranslated := ⟨%s⟩\n", recvPrefix(t.u), t.u.Func,
				strings.ReplaceAll(t.fail, "-/", "- /"), t.u.Name, leanStr(t.fail))
		}
	}()
	fn := fd.decl
	en := env{m: map[string]evar{}}
	t.used = map[string]bool{}
	if fn.Body != nil {
		t.touched, t.loopPaths = touchedVars(fn.Body)
	}
	var params []string
	bind := func(goName string, p gparam) {
		if p.T == "" {
			return
		}
		if p.T == "Keeper" {
			en.m[goName] = evar{"()", "Keeper", 0}
			return
		}
		ln := t.fresh(goName)
		en.m[goName] = evar{ln, p.T, 0}
		params = append(params, fmt.Sprintf("(%s : %s)", ln, leanType(p.T)))
		if p.AliasOf != "" {
			if ov, ok := en.m[p.AliasOf]; ok && ov.t == p.T {
				en.m[goName] = ov // the parameter itself stays in the signature, unused
			}
		}
		if t.paramLeanOf == nil {
			t.paramLeanOf = map[string]string{}
		}
		t.paramLeanOf[goName] = en.m[goName].lean
	}
	var goParams []string
	if fn.Recv != nil && len(fn.Recv.List) == 1 && len(fn.Recv.List[0].Names) == 1 {
		goParams = append(goParams, fn.Recv.List[0].Names[0].Name)
	} else if fn.Recv != nil {
		goParams = append(goParams, "_recv")
	}
	goParams = append(goParams, paramNames(fn.Type.Params)...)
	np := 0
	for _, p := range t.u.Params {
		if !p.Oracle {
			np++
		}
	}
	if len(goParams) != np {
		t.failf("parameter count: Go has %d (%v), unit table has %d", len(goParams), goParams, np)
	}
	i := 0
	for _, p := range t.u.Params {
		if p.Oracle {
			bind(p.Go, p)
			continue
		}
		if i < len(goParams) {
			// the unit table gives the Lean type of each parameter BY POSITION; the name is the
			// source's (a renamed parameter is a harmless change)
			if i == 0 && fn.Recv != nil {
				t.recvName = goParams[i]
			}
			bind(goParams[i], p)
		}
		i++
	}
	body := ""
	en.depth = 1
	pre := ""
	if t.u.StoreOn {
		t.used["st__"] = true
		en.m["st__"] = evar{"st__", "GStore", 0}
		params = append(params, "(st__ : GStore)")
	}
	if t.u.EffectsOn {
		ln := t.fresh("effs__")
		en.m["effs__"] = evar{ln, "List GEff", 0}
		pre += fmt.Sprintf("let %s : List GEff := []\n", ln)
	}
	// named results are zero-initialised variables
	if fn.Type.Results != nil {
		ri := 0
		for _, f := range fn.Type.Results.List {
			for _, n := range f.Names {
				ty, ok := t.u.NamedTypes[n.Name]
				if !ok && ri < len(t.u.Ret) {
					// results named in the source but not in the unit table: typed by position
					ty, ok = t.u.Ret[ri], true
					t.u.Named = append(t.u.Named, n.Name)
				}
				ri++
				if !ok {
					t.failf("named result %s has no type in the unit table", n.Name)
					continue
				}
				z, ok := zeroByLean[ty]
				if !ok {
					t.failf("zero value of %s", ty)
					continue
				}
				ln := t.fresh(n.Name)
				en.m[n.Name] = evar{ln, ty, 1}
				pre += fmt.Sprintf("let %s : %s := %s\n", ln, leanType(ty), z)
			}
		}
	}
	if fn.Body == nil {
		t.failf("no body")
	} else {
		body = pre + t.stmts(fn.Body.List, en, func(e2 env) string {
			if len(t.u.Ret) == 0 {
				if t.u.StoreOn {
					return "st__"
				}
				if t.u.EffectsOn {
					return e2.m["effs__"].lean
				}
				return "()"
			}
			return t.failf("function can fall off its end")
		})
	}
	var b strings.Builder
	src := fmt.Sprintf("%s: func %s%s", fd.file.Rel, recvPrefix(t.u), t.u.Func)
	if t.fail != "" {
		fmt.Fprintf(&b, "/-- %s — NOT TRANSLATABLE: %s -/\ndef %s : Untranslated := ⟨%s⟩\n", src, strings.ReplaceAll(t.fail, "-/", "- /"), t.u.Name, leanStr(t.fail))
		return b.String()
	}
	for _, a := range t.aux {
		b.WriteString(a)
		b.WriteString("\n")
	}
	fmt.Fprintf(&b, "/-- %s -/\ndef %s %s : %s :=\n%s\n", src, t.u.Name, strings.Join(params, " "), leanType(t.fullRet()), indent(body))
	if len(params) > 0 {
		t.lambda = fmt.Sprintf("(fun %s => ((\n%s) : %s))", strings.Join(params, " "), indent(indent(body)), leanType(t.fullRet()))
	}
	return b.String()
}

func recvPrefix(u *Unit) string {
	if u.Recv != "" {
		return "(" + u.Recv + ") "
	}
	return ""
}

// closureDecl: `func F(outer…) T { return func(inner…) (R…) { body } }` seen as the function
// `F(outer…, inner…) (R…) { body }` — the module's invariants are written this way.  Anything else
// (statements before the return, a named function returned) is not recognised.
func closureDecl(fd funcDecl) (funcDecl, bool) {
	d := fd.decl
	if d.Body == nil || len(d.Body.List) != 1 {
		return fd, false
	}
	rs, ok := d.Body.List[0].(*ast.ReturnStmt)
	if !ok || len(rs.Results) != 1 {
		return fd, false
	}
	fl, ok := rs.Results[0].(*ast.FuncLit)
	if !ok {
		return fd, false
	}
	params := &ast.FieldList{}
	if d.Type.Params != nil {
		params.List = append(params.List, d.Type.Params.List...)
	}
	if fl.Type.Params != nil {
		params.List = append(params.List, fl.Type.Params.List...)
	}
	nd := &ast.FuncDecl{Name: d.Name, Recv: d.Recv, Type: &ast.FuncType{Params: params, Results: fl.Type.Results}, Body: fl.Body}
	return funcDecl{decl: nd, file: fd.file}, true
}

// sortSlice: `sort.Slice(xs, func(i, j int) bool { return <less over xs[i], xs[j]> })` on a slice
// variable becomes `Go.sortSlice (fun a__ b__ => less) xs` (the prelude's insertion sort: for a
// comparator that is a strict weak order — part of the tie's obligations — every correct sort
// gives a list sorted by it; for one that is not, the result depends on Go's algorithm and the
// call must stay an oracle).  The comparator may read nothing but the two elements.
func (t *tr) sortSlice(id *ast.Ident, fl *ast.FuncLit, en env, next cont) string {
	v, ok := en.m[id.Name]
	if !ok || !strings.HasPrefix(v.t, "List ") {
		return t.failf("sort.Slice of %s", id.Name)
	}
	el := LT(strings.TrimPrefix(string(v.t), "List "))
	ps := paramNames(fl.Type.Params)
	if len(ps) != 2 || len(fl.Body.List) != 1 {
		return t.failf("sort.Slice comparator shape")
	}
	rs, ok := fl.Body.List[0].(*ast.ReturnStmt)
	if !ok || len(rs.Results) != 1 {
		return t.failf("sort.Slice comparator shape")
	}
	en2 := en.deeper()
	en2.m["a__"] = evar{"a__", el, en2.depth}
	en2.m["b__"] = evar{"b__", el, en2.depth}
	if t.indexAlias == nil {
		t.indexAlias = map[string]string{}
	}
	ka, kb := id.Name+"["+ps[0]+"]", id.Name+"["+ps[1]+"]"
	oa, hasA := t.indexAlias[ka]
	ob, hasB := t.indexAlias[kb]
	t.indexAlias[ka], t.indexAlias[kb] = "a__", "b__"
	before := len(t.pre)
	c := t.expr(rs.Results[0], en2)
	delete(t.indexAlias, ka)
	delete(t.indexAlias, kb)
	if hasA {
		t.indexAlias[ka] = oa
	}
	if hasB {
		t.indexAlias[kb] = ob
	}
	if c.T != "Bool" || len(t.pre) != before {
		return t.failf("sort.Slice comparator of type %s", c.T)
	}
	return fmt.Sprintf("let %s : %s := (Go.sortSlice (fun a__ b__ => %s) %s)\n", v.lean, leanType(v.t), c.L, v.lean) + next(en)
}

// groupDeps: which generated files a group imports
var groupDeps = map[string][]string{
	"Pure":       nil,
	"Msgs":       {"Pure"},
	"Bids":       {"Pure"},
	"Auctions":   {"Pure"},
	"Settle":     {"Pure"},
	"Match":      {"Pure"},
	"Payout":     {"Pure"},
	"Genesis":    {"Pure", "Msgs"},
	"Import":     {"Pure"},
	"Export":     {"Pure"},
	"Getters":    {"Pure"},
	"Queries":    {"Pure"},
	"Fees":       {"Pure"},
	"Server":     {"Pure", "Msgs", "Bids", "Auctions"},
	"Invariants": {"Pure", "Getters"},
}

var groupOrder = []string{"Pure", "Msgs", "Bids", "Auctions", "Settle", "Match", "Payout", "Server", "Genesis", "Import", "Export", "Getters", "Queries", "Fees", "Invariants", "Hooks"}

// translateUnits renders Generated/Code/<Group>.lean, one file per group of units.
func (w *World) translateUnits() map[string]string {
	reg := map[string]*Unit{}
	for i := range units {
		u := &units[i]
		reg[u.RecvLean+"."+u.Func] = u
	}
	out := map[string]string{}
	for _, g := range groupOrder {
		var b strings.Builder
		b.WriteString("/-\n  GENERATED by /verif/extract (GoLite → Lean translator, extract/golite.go) — do not edit.\n")
		b.WriteString("  Each definition is the translation of the named Go function of /repo as it is NOW;\n")
		b.WriteString("  Fundraising/Proofs/Tie/*.lean prove each equal to the hand-written model.\n-/\n")
		b.WriteString("import Fundraising.Tables.GoSem\n")
		if g == "Import" || g == "Export" || g == "Getters" || g == "Queries" || g == "Invariants" {
			b.WriteString("import Fundraising.Tables.GoStore\n")
		}
		if g == "Match" || g == "Payout" {
			b.WriteString("import Fundraising.Tables.GoSemMatch\n")
		}
		for _, d := range groupDeps[g] {
			b.WriteString("import Fundraising.Generated.Code." + d + "\n")
		}
		b.WriteString("set_option linter.unusedVariables false\n\nnamespace Fundraising.Gen\nopen Fundraising Fundraising.Go\n\n")
		n := 0
		for i := range units {
			u := &units[i]
			if u.Group != g {
				continue
			}
			n++
			p := w.mustPkg(u.Pkg)
			var fd funcDecl
			var ok bool
			if u.Recv != "" {
				fd, ok = p.methods[u.Recv][u.Func]
			} else {
				fd, ok = p.funcs[u.Func]
			}
			t := &tr{w: w, u: u, reg: reg}
			if ok && u.Closure {
				fd, ok = closureDecl(fd)
			}
			if !ok {
				fmt.Fprintf(&b, "/-- %s%s: function not found in %s -/\ndef %s : Untranslated := ⟨\"function not found\"⟩\n\n", recvPrefix(u), u.Func, u.Pkg, u.Name)
				u.failed = "function not found"
				continue
			}
			b.WriteString(t.translate(fd))
			if t.fail != "" {
				u.failed = t.fail
			}
			if len(t.notes) > 0 {
				seen := map[string]bool{}
				for _, nt := range t.notes {
					if !seen[nt] {
						seen[nt] = true
						fmt.Fprintf(&b, "-- note (%s): %s\n", u.Name, nt)
					}
				}
			}
			b.WriteString("\n")
		}
		b.WriteString("end Fundraising.Gen\n")
		out[g] = b.String()
	}
	return out
}

// pureClosure: a function literal `func(key, value) (R1, …, error)` that assigns nothing it
// captures (query predicates and transforms) becomes an auxiliary definition over the captured
// variables and the VALUE (the key is not available: the records carry their key fields).
// Returns the Lean function term `(fun v__ => aux frees… v__)`.
func (t *tr) pureClosure(fl *ast.FuncLit, elT LT, rets []LT, en env, tag string) (string, bool) {
	ps := paramNames(fl.Type.Params)
	if len(ps) != 2 {
		t.bad("closure arity")
		return "", false
	}
	body := &ast.BlockStmt{List: fl.Body.List}
	if len(assignedOuter(body, en, t.u.Alias)) > 0 {
		t.bad("closure assigns a captured variable")
		return "", false
	}
	var frees []string
	for x := range freeIdents(body) {
		if v, ok := en.m[x]; ok && v.t != "Keeper" && v.t != "Poison" && v.lean != "false" && v.lean != "true" && x != ps[0] && x != ps[1] {
			frees = append(frees, x)
		}
	}
	sort.Strings(frees)
	t.nclos++
	name := fmt.Sprintf("%s.%s%d", t.u.Name, tag, t.nclos)
	cen := en.deeper()
	var params, callArgs []string
	for _, x := range frees {
		v := en.m[x]
		params = append(params, fmt.Sprintf("(%s : %s)", v.lean, leanType(v.t)))
		callArgs = append(callArgs, v.lean)
	}
	var valName string
	cen, valName = t.declare(cen, ps[1], elT)
	if ps[0] != "_" {
		cen.m[ps[0]] = evar{"POISON_key", "Poison", cen.depth}
	}
	params = append(params, fmt.Sprintf("(%s : %s)", valName, leanType(elT)))
	oldLoop, oldClos, oldPre, oldWalk := t.loop, t.closure, t.pre, t.inWalk
	t.loop, t.closure, t.pre, t.inWalk = nil, &closureCtx{rets: rets}, nil, true
	failBefore := t.fail
	bodyL := t.stmts(body.List, cen, func(e2 env) string { return t.failf("closure falls off its end") })
	t.loop, t.closure, t.pre, t.inWalk = oldLoop, oldClos, oldPre, oldWalk
	if failBefore == "" && t.fail != "" {
		return "", false
	}
	var rt []string
	for _, r := range rets {
		rt = append(rt, leanTypeAtom(r))
	}
	// the closure is written IN PLACE, as a lambda over the record (its captured variables are in
	// scope): a tie proof then talks about what the predicate does, not about a numbered name
	_, _, _ = name, params, callArgs
	return fmt.Sprintf("(fun (%s : %s) => ((\n%s) : (%s)))", valName, leanType(elT), indent(indent(bodyL)), strings.Join(rt, " × ")), true
}

// paginate: `query.CollectionPaginate(ctx, coll, pageReq, transform, opts…)` and
// `query.CollectionFilteredPaginate(ctx, coll, pageReq, pred, transform, opts…)`: all pages
// together are the records of the collection (under the pair prefix, if that option is given),
// in key order, that satisfy the predicate, each transformed (`Go.paginate`, Tables/GoStore.lean).
// How the SDK cuts this list into pages is not modelled.
func (t *tr) paginate(e *ast.CallExpr, filtered bool, en env) V {
	need := 4
	if filtered {
		need = 5
	}
	if len(e.Args) < need {
		return t.bad("paginate arity")
	}
	sel, ok := e.Args[1].(*ast.SelectorExpr)
	if !ok {
		return t.bad("paginate over %s", t.w.render(e.Args[1]))
	}
	cs, ok := t.u.Calls["paginate:"+sel.Sel.Name]
	if !ok || !t.u.StoreOn {
		return t.bad("paginate over collection %s", sel.Sel.Name)
	}
	elT := strings.TrimPrefix(cs.Value.T, "List ")
	list := strings.ReplaceAll(cs.Walk, "%s", "st__")
	for _, o := range e.Args[need:] {
		oc, ok := o.(*ast.CallExpr)
		if !ok || len(oc.Args) != 1 {
			return t.bad("pagination option %s", t.w.render(o))
		}
		ile, ok := oc.Fun.(*ast.IndexListExpr)
		if !ok || t.w.render(ile.X) != "query.WithCollectionPaginationPairPrefix" || cs.WalkPrefix == "" {
			return t.bad("pagination option %s", t.w.render(o))
		}
		p := t.expr(oc.Args[0], en)
		if p.T != "Int" {
			return t.bad("pair prefix of type %s", p.T)
		}
		list = strings.ReplaceAll(strings.ReplaceAll(cs.WalkPrefix, "%s", "st__"), "%p", atom(p.L))
	}
	pred := "(fun _ => (true, false))"
	ti := 3
	if filtered {
		fl, ok := e.Args[3].(*ast.FuncLit)
		if !ok {
			return t.bad("pagination predicate is not a function literal")
		}
		var okp bool
		pred, okp = t.pureClosure(fl, elT, []LT{"Bool", "Err"}, en, "pred")
		if !okp {
			return V{"UNTRANSLATABLE", "?"}
		}
		ti = 4
	}
	fl, ok := e.Args[ti].(*ast.FuncLit)
	if !ok || fl.Type.Results == nil || len(fl.Type.Results.List) != 2 {
		return t.bad("pagination transform is not a function literal")
	}
	rT, ok := t.typeName(t.w.render(fl.Type.Results.List[0].Type))
	if !ok {
		return t.bad("pagination transform result %s", t.w.render(fl.Type.Results.List[0].Type))
	}
	tr, okt := t.pureClosure(fl, elT, []LT{rT, "Err"}, en, "transform")
	if !okt {
		return V{"UNTRANSLATABLE", "?"}
	}
	return V{fmt.Sprintf("(Go.paginate %s %s %s)", list, pred, tr), "(List " + rT + " × Unit × Err)"}
}

// keyParts: the components of a store key.  `collections.Join(a, b)` written in place is its two
// arguments; a key that was built earlier and bound to a variable (`key := collections.Join(a, b)`,
// a pair value) is its two projections.
func (t *tr) keyParts(a ast.Expr, en env) []V {
	if c, ok := a.(*ast.CallExpr); ok && t.w.render(c.Fun) == "collections.Join" {
		var out []V
		for _, x := range c.Args {
			out = append(out, t.keyParts(x, en)...)
		}
		return out
	}
	v := t.expr(a, en)
	if x, y, ok := pairType(v.T); ok {
		return []V{{atom(v.L) + ".1", x}, {atom(v.L) + ".2", y}}
	}
	return []V{v}
}

// pairType: "(X × Y)" with exactly two components
func pairType(t LT) (LT, LT, bool) {
	if !strings.HasPrefix(t, "(") || !strings.HasSuffix(t, ")") {
		return "", "", false
	}
	parts := strings.Split(t[1:len(t)-1], " × ")
	if len(parts) != 2 || strings.ContainsAny(parts[0]+parts[1], "()") {
		return "", "", false
	}
	return parts[0], parts[1], true
}

// indexFor recognises `for i := 0; i < len(xs); i++` / `for i := 0; i < n; i++` with `n := len(xs)`.
func (t *tr) indexFor(s *ast.ForStmt) *ast.RangeStmt {
	init, ok := s.Init.(*ast.AssignStmt)
	if !ok || init.Tok != token.DEFINE || len(init.Lhs) != 1 || len(init.Rhs) != 1 {
		return nil
	}
	i := identName(init.Lhs[0])
	if bl, ok := init.Rhs[0].(*ast.BasicLit); !ok || bl.Value != "0" || i == "" {
		return nil
	}
	post, ok := s.Post.(*ast.IncDecStmt)
	if !ok || post.Tok != token.INC || identName(post.X) != i {
		return nil
	}
	cond, ok := s.Cond.(*ast.BinaryExpr)
	if !ok {
		return nil
	}
	// `i < n && guard(xs[i])`: the guard is a `break` at the top of the body
	var guard ast.Expr
	if cond.Op == token.LAND {
		if l, ok := unparen(cond.X).(*ast.BinaryExpr); ok {
			guard = cond.Y
			cond = l
		}
	}
	if cond.Op != token.LSS || identName(cond.X) != i {
		return nil
	}
	var xs ast.Expr
	switch y := cond.Y.(type) {
	case *ast.CallExpr:
		if identName(y.Fun) == "len" && len(y.Args) == 1 {
			xs = y.Args[0]
		}
	case *ast.Ident:
		xs = t.lenOf[y.Name]
	}
	if xs == nil {
		return nil
	}
	// the loop variable must not be assigned in the body
	bad := false
	ast.Inspect(s.Body, func(n ast.Node) bool {
		switch a := n.(type) {
		case *ast.AssignStmt:
			for _, l := range a.Lhs {
				if identName(l) == i {
					bad = true
				}
			}
		case *ast.IncDecStmt:
			if identName(a.X) == i {
				bad = true
			}
		}
		return true
	})
	if bad {
		return nil
	}
	body := s.Body
	if guard != nil {
		brk := &ast.IfStmt{Cond: &ast.UnaryExpr{Op: token.NOT, X: &ast.ParenExpr{X: guard}},
			Body: &ast.BlockStmt{List: []ast.Stmt{&ast.BranchStmt{Tok: token.BREAK}}}}
		body = &ast.BlockStmt{List: append([]ast.Stmt{brk}, s.Body.List...)}
	}
	return &ast.RangeStmt{Key: &ast.Ident{Name: i}, Tok: token.DEFINE, X: xs, Body: body}
}

// pureDef: a local `x := e` that is never assigned again or written through, whose right-hand
// side has no effect and reads only parameters, oracles and other such locals.  A loop that uses
// x does not receive it as a parameter: the binding is repeated inside the loop's auxiliary
// definition, so HOISTING a loop-invariant computation out of a loop (or sinking it back in) does
// not change the signature the tie lemmas are stated for.
type pureDef struct {
	goName string
	lean   string
	t      LT
	def    string
	deps   []string // Go names
	seq    int
}

// touchedVars: every variable of the function that is assigned other than by its one `:=`,
// incremented, written through (field / index / mutator call), address-taken, or that shares an
// object with such a variable through a type assertion
// a touch: where a variable is assigned again / written through, and on which branches of the
// enclosing if / switch statements that place lies
type touch struct {
	pos  token.Pos
	path []branchStep
	many bool // defined more than once: never a single-assignment local
}

type branchStep struct {
	stmt   token.Pos // position of the if / switch statement
	branch int       // which of its branches
	term   bool      // that branch ends in a `return`: control never leaves it into what follows
}

func endsInReturn(b *ast.BlockStmt) bool {
	if b == nil || len(b.List) == 0 {
		return false
	}
	_, ok := b.List[len(b.List)-1].(*ast.ReturnStmt)
	return ok
}

// exclusive: two places that lie on DIFFERENT branches of one if / switch are never both executed
// in one run through the function body (no loops are considered: see untouchedUntil)
func exclusive(a, b []branchStep) bool {
	for _, x := range a {
		inSame := false
		for _, y := range b {
			if x.stmt == y.stmt && x.branch != y.branch {
				return true
			}
			if x.stmt == y.stmt && x.branch == y.branch {
				inSame = true
			}
		}
		if x.term && !inSame {
			return true // a is inside a branch that returns and b is not in that branch
		}
	}
	return false
}

// touchedVars: every place where a variable of the function is assigned other than by its one
// `:=`, incremented, written through (field / index / mutator call), address-taken — also for the
// variables that share an object with it through a type assertion; and the branch path of every
// loop statement
func touchedVars(body *ast.BlockStmt) (map[string][]touch, map[ast.Node][]branchStep) {
	out := map[string][]touch{}
	loops := map[ast.Node][]branchStep{}
	defs := map[string]int{}
	peers := map[string][]string{}
	base := func(e ast.Expr) string {
		for {
			switch x := e.(type) {
			case *ast.SelectorExpr:
				e = x.X
			case *ast.IndexExpr:
				e = x.X
			case *ast.StarExpr:
				e = x.X
			case *ast.ParenExpr:
				e = x.X
			case *ast.Ident:
				return x.Name
			default:
				return ""
			}
		}
	}
	var walk func(n ast.Node, path []branchStep)
	hit := func(n string, p token.Pos, path []branchStep) {
		out[n] = append(out[n], touch{pos: p, path: append([]branchStep{}, path...)})
	}
	walk = func(n ast.Node, path []branchStep) {
		if n == nil {
			return
		}
		switch s := n.(type) {
		case *ast.IfStmt:
			if s.Init != nil {
				walk(s.Init, path)
			}
			walk(s.Cond, path)
			walk(s.Body, append(append([]branchStep{}, path...), branchStep{s.Pos(), 0, endsInReturn(s.Body)}))
			if s.Else != nil {
				eb, _ := s.Else.(*ast.BlockStmt)
				walk(s.Else, append(append([]branchStep{}, path...), branchStep{s.Pos(), 1, endsInReturn(eb)}))
			}
			return
		case *ast.SwitchStmt:
			if s.Init != nil {
				walk(s.Init, path)
			}
			if s.Tag != nil {
				walk(s.Tag, path)
			}
			for i, c := range s.Body.List {
				walk(c, append(append([]branchStep{}, path...), branchStep{s.Pos(), i, false}))
			}
			return
		case *ast.RangeStmt:
			loops[s] = append([]branchStep{}, path...)
			for _, e := range []ast.Expr{s.Key, s.Value} {
				if id, ok := e.(*ast.Ident); ok {
					defs[id.Name] += 2 // loop variables change every iteration
				}
			}
		case *ast.ForStmt:
			loops[s] = append([]branchStep{}, path...)
		case *ast.AssignStmt:
			for i, l := range s.Lhs {
				if id, ok := l.(*ast.Ident); ok && s.Tok == token.DEFINE {
					defs[id.Name]++
					if len(s.Rhs) == len(s.Lhs) || len(s.Rhs) == 1 {
						r := s.Rhs[0]
						if len(s.Rhs) == len(s.Lhs) {
							r = s.Rhs[i]
						}
						if ta, ok := r.(*ast.TypeAssertExpr); ok && i == 0 {
							if y := base(ta.X); y != "" {
								peers[id.Name] = append(peers[id.Name], y)
								peers[y] = append(peers[y], id.Name)
							}
						}
					}
					continue
				}
				if b := base(l); b != "" {
					hit(b, s.Pos(), path)
				}
			}
		case *ast.IncDecStmt:
			if b := base(s.X); b != "" {
				hit(b, s.Pos(), path)
			}
		case *ast.UnaryExpr:
			if s.Op == token.AND {
				if b := base(s.X); b != "" {
					hit(b, s.Pos(), path)
				}
			}
		case *ast.CallExpr:
			if sel, ok := s.Fun.(*ast.SelectorExpr); ok && mutatorNames[sel.Sel.Name] {
				if b := base(sel.X); b != "" {
					hit(b, s.Pos(), path)
				}
			}
		}
		// children, in source order
		var kids []ast.Node
		ast.Inspect(n, func(m ast.Node) bool {
			if m == nil || m == n {
				return m == n
			}
			kids = append(kids, m)
			return false
		})
		for _, k := range kids {
			walk(k, path)
		}
	}
	walk(body, nil)
	for n, c := range defs {
		if c > 1 {
			out[n] = append(out[n], touch{many: true})
		}
	}
	for changed := true; changed; {
		changed = false
		for n, ts := range out {
			for _, p := range peers[n] {
				if len(out[p]) < len(ts) { // the peer is touched wherever n is
					out[p] = append([]touch{}, ts...)
					changed = true
				}
			}
		}
	}
	return out, loops
}

// untouchedUntil: the variable keeps its value from its definition until the loop `l` is over —
// every place that changes it lies on another branch than the loop, or after the loop (and we are
// not inside an enclosing loop, whose later statements run before the next iteration)
func (t *tr) untouchedUntil(n string, l ast.Node) bool {
	lp, known := t.loopPaths[l]
	for _, tc := range t.touched[n] {
		if tc.many {
			return false
		}
		if known && exclusive(tc.path, lp) && t.loop == nil {
			continue
		}
		if tc.pos > l.End() && t.loop == nil {
			continue
		}
		return false
	}
	return true
}

// notePureDef records `x := e` as an immutable pure local when it qualifies.
func (t *tr) notePureDef(s *ast.AssignStmt, en env, preBefore int, v V) {
	if s.Tok != token.DEFINE || len(s.Lhs) != 1 || len(s.Rhs) != 1 || len(t.pre) != preBefore || t.loop != nil || t.closure != nil {
		return
	}
	x := identName(s.Lhs[0])
	if x == "" || x == "_" || t.touched == nil {
		return
	}
	for _, tc := range t.touched[x] {
		if tc.many {
			return
		}
	}
	ev, ok := en.m[x]
	if !ok || ev.lean == "false" || ev.lean == "true" || ev.t != v.T || strings.Contains(v.L, "\n") {
		return
	}
	var deps []string
	for d := range freeIdents(s.Rhs[0]) {
		dv, ok := en.m[d]
		if !ok || d == x {
			continue
		}
		if dv.t == "Keeper" || dv.lean == "false" || dv.lean == "true" {
			continue
		}
		if dv.t == "Poison" {
			return
		}
		// d is a parameter or a local that is never assigned again or written through (checked
		// above): its value at the loop is its value here
		deps = append(deps, d)
	}
	// oracle parameters reached through the call table
	bad := false
	ast.Inspect(s.Rhs[0], func(n ast.Node) bool {
		if ce, ok := n.(*ast.CallExpr); ok {
			if se, ok := ce.Fun.(*ast.SelectorExpr); ok && se.Sel.Name == "BlockTime" {
				deps = append(deps, "now__")
			}
			if cs, ok := t.u.Calls[t.calleeKey(ce.Fun)]; ok {
				if cs.Effect != "" || cs.Store != "" || cs.Walk != "" {
					bad = true
				}
				for _, p := range t.u.Params {
					if p.Oracle && strings.Contains(cs.Value.L, p.Go) {
						deps = append(deps, p.Go)
					}
				}
			}
			var key string
			switch f := ce.Fun.(type) {
			case *ast.SelectorExpr:
				key = f.Sel.Name
			case *ast.Ident:
				key = f.Name
			}
			for k := range t.reg {
				if key != "" && strings.HasSuffix(k, "."+key) {
					bad = true // a call of another unit: keep it where it is
				}
			}
		}
		return true
	})
	if bad {
		return
	}
	sort.Strings(deps)
	if t.pureDefs == nil {
		t.pureDefs = map[string]*pureDef{}
	}
	t.npure++
	t.pureDefs[ev.lean] = &pureDef{goName: x, lean: ev.lean, t: ev.t, def: v.L, deps: deps, seq: t.npure}
}
