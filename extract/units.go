package main

import "fmt"

// The unit table of the GoLite translator: which Go functions of /repo are translated to
// Lean (Generated/Code.lean), and the Lean type each parameter is read at.  Parameter names
// are checked against the source, so a renamed or re-ordered parameter makes the unit
// untranslatable rather than silently mistyped.

type gparam struct {
	Go     string
	T      LT   // "" = dropped (context.Context, …)
	Oracle bool // not a Go parameter: the result of a store read, bound by Oracles
	// helpers translated on demand: the caller passes the SAME object for this parameter and for
	// the earlier parameter named here (`f(auction, ba)` with `ba := auction.(*T)`): inside the
	// helper the two names denote one object, as they do in Go
	AliasOf string
}

type Unit struct {
	Name        string // Lean definition (in namespace Fundraising.Gen)
	Pkg         string
	Recv        string // Go receiver base type ("" for a plain function)
	RecvLean    LT     // Lean type of the receiver ("" for a plain function): registry key
	Func        string
	Params      []gparam
	Ret         []LT
	Named       []string            // named results, in order (for naked returns)
	NamedTypes  map[string]LT       // their Lean types
	Group       string              // Generated/Code/<Group>.lean
	Calls       map[string]callSpec // rendered callee -> oracle value and/or recorded effect
	Idents      map[string]V        // package-level variables read by the unit (oracles)
	EffectsOn   bool
	Alias       map[string]aliasSpec
	MapKeys     map[string]string // rendered map expression ranged over -> oracle parameter holding its keys
	MapLen      map[string]string // `len(m)` of a Go map (rendered m) -> the oracle key list of the range over it
	MapKeyOrder []string          // the same by position: the oracle of the 1st, 2nd, … range over a Go map (source order)
	JoinIfs     bool              // translate jump-free `if`s as joins instead of duplicating the continuation
	StoreOn     bool              // the unit threads an explicit store value (Tables/GoStore.lean)
	TypeNames   map[string]LT     // per-unit Go type -> Lean type (for map literals), overriding goTypeNames
	Inline      string            // helpers translated on demand: the function as a lambda term, used at the call sites
	Mutates     []bool            // … and, per value parameter, whether the helper writes through it
	DropText    bool              // locals that only ever hold human-readable text (string literals, fmt.Sprintf, their concatenation) are dropped
	Closure     bool              // the function is `return func(…) (…) { … }`: the unit is that closure (parameters: outer, then inner)
	failed      string            // set when the unit turned out not to be translatable
}

// callSpec: a call into the store, the bank, the hooks or another keeper function.
// Value (may use %1…%n for translated arguments) is what the call evaluates to — usually a
// pair (oracle parameter, error flag); Effect, when set, records the call with the listed
// arguments in the unit's effect list.
type callSpec struct {
	Value      V
	Effect     string
	Args       []int
	Walk       string // `coll.Walk(ctx, nil, closure)`: Lean term (over %s = the store) for the list of records visited
	WalkPrefix string // `coll.Walk(ctx, rng, closure)` with rng a prefixed pair range: the same, over %s and the prefix %p
	Store      string // store-threaded units: Lean term over `st__` and the arguments (%1 …)
	Kind       string // "r" read, "w" write (new store), "rw" read-and-write ((value, store'))
}

const (
	typesP  = "github.com/tendermint/fundraising/x/fundraising/types"
	keeperP = "github.com/tendermint/fundraising/x/fundraising/keeper"
)

var units = []Unit{
	// ---- types/bid.go
	{Group: "Pure", Name: "Bid_ConvertToSellingAmount", Pkg: typesP, Recv: "Bid", RecvLean: "Bid", Func: "ConvertToSellingAmount",
		Params: []gparam{{Go: "b", T: "Bid"}, {Go: "denom", T: "Denom"}}, Ret: []LT{"Int"},
		Named: []string{"amount"}, NamedTypes: map[string]LT{"amount": "Int"}},
	{Group: "Pure", Name: "Bid_ConvertToPayingAmount", Pkg: typesP, Recv: "Bid", RecvLean: "Bid", Func: "ConvertToPayingAmount",
		Params: []gparam{{Go: "b", T: "Bid"}, {Go: "denom", T: "Denom"}}, Ret: []LT{"Int"},
		Named: []string{"amount"}, NamedTypes: map[string]LT{"amount": "Int"}},
	// ---- types/auction.go
	{Group: "Pure", Name: "BaseAuction_ShouldAuctionStarted", Pkg: typesP, Recv: "BaseAuction", RecvLean: "Auction", Func: "ShouldAuctionStarted",
		Params: []gparam{{Go: "ba", T: "Auction"}, {Go: "t", T: "Time"}}, Ret: []LT{"Bool"}},
	{Group: "Pure", Name: "BaseAuction_ShouldAuctionClosed", Pkg: typesP, Recv: "BaseAuction", RecvLean: "Auction", Func: "ShouldAuctionClosed",
		Params: []gparam{{Go: "ba", T: "Auction"}, {Go: "t", T: "Time"}}, Ret: []LT{"Bool"}},
	// ---- types/vesting.go
	{Group: "Pure", Name: "VestingQueue_ShouldRelease", Pkg: typesP, Recv: "VestingQueue", RecvLean: "VQ", Func: "ShouldRelease",
		Params: []gparam{{Go: "vq", T: "VQ"}, {Go: "t", T: "Time"}}, Ret: []LT{"Bool"}},
	{Group: "Pure", Name: "ValidateVestingSchedules", Pkg: typesP, Func: "ValidateVestingSchedules",
		Params: []gparam{{Go: "schedules", T: "List VS"}, {Go: "endTime", T: "Time"}}, Ret: []LT{"Err"}},
	// ---- types/allowed_bidder.go
	{Group: "Pure", Name: "AllowedBidder_Validate", Pkg: typesP, Recv: "AllowedBidder", RecvLean: "AllowedArg", Func: "Validate",
		Params: []gparam{{Go: "ab", T: "AllowedArg"}}, Ret: []LT{"Err"}},
	// ---- types/msgs.go
	{Group: "Msgs", Name: "MsgCreateFixedPriceAuction_ValidateBasic", Pkg: typesP, Recv: "MsgCreateFixedPriceAuction", RecvLean: "CreateMsgF", Func: "ValidateBasic",
		Params: []gparam{{Go: "msg", T: "CreateMsg"}}, Ret: []LT{"Err"}},
	{Group: "Msgs", Name: "MsgCreateBatchAuction_ValidateBasic", Pkg: typesP, Recv: "MsgCreateBatchAuction", RecvLean: "CreateMsgB", Func: "ValidateBasic",
		Params: []gparam{{Go: "msg", T: "CreateMsg"}}, Ret: []LT{"Err"}},
	{Group: "Msgs", Name: "MsgCancelAuction_ValidateBasic", Pkg: typesP, Recv: "MsgCancelAuction", RecvLean: "CancelMsg", Func: "ValidateBasic",
		Params: []gparam{{Go: "msg", T: "CancelMsg"}}, Ret: []LT{"Err"}},
	{Group: "Msgs", Name: "MsgPlaceBid_ValidateBasic", Pkg: typesP, Recv: "MsgPlaceBid", RecvLean: "PlaceMsg", Func: "ValidateBasic",
		Params: []gparam{{Go: "msg", T: "PlaceMsg"}}, Ret: []LT{"Err"}},
	{Group: "Msgs", Name: "MsgModifyBid_ValidateBasic", Pkg: typesP, Recv: "MsgModifyBid", RecvLean: "ModifyMsg", Func: "ValidateBasic",
		Params: []gparam{{Go: "msg", T: "ModifyMsg"}}, Ret: []LT{"Err"}},
	{Group: "Msgs", Name: "MsgAddAllowedBidder_ValidateBasic", Pkg: typesP, Recv: "MsgAddAllowedBidder", RecvLean: "AddAllowedMsg", Func: "ValidateBasic",
		Params: []gparam{{Go: "msg", T: "AddAllowedMsg"}}, Ret: []LT{"Err"}},
	// ---- keeper/bid.go
	{Group: "Bids", Name: "ValidateFixedPriceBid", Pkg: keeperP, Recv: "Keeper", RecvLean: "Keeper", Func: "ValidateFixedPriceBid",
		Params: []gparam{{Go: "k", T: "Keeper"}, {Go: "ctx"}, {Go: "auction", T: "Auction"}, {Go: "bid", T: "Bid"},
			{Go: "bidsByBidder__", T: "Acc → List Bid", Oracle: true}, {Go: "abGet__", T: "Int → Acc → (Allowed × Bool)", Oracle: true}},
		Ret: []LT{"Err"},
		Calls: map[string]callSpec{
			"k.GetBidsByBidder":   {Value: V{"(bidsByBidder__ %2, false)", "(List Bid × Err)"}},
			"k.AllowedBidder.Get": {Value: V{"(abGet__ %2)", "(Allowed × Err)"}},
		}},
	{Group: "Bids", Name: "ValidateBatchWorthBid", Pkg: keeperP, Recv: "Keeper", RecvLean: "Keeper", Func: "ValidateBatchWorthBid",
		Params: []gparam{{Go: "k", T: "Keeper"}, {Go: "ctx"}, {Go: "auction", T: "Auction"}, {Go: "bid", T: "Bid"},
			{Go: "abGet__", T: "Int → Acc → (Allowed × Bool)", Oracle: true}},
		Ret:   []LT{"Err"},
		Calls: map[string]callSpec{"k.AllowedBidder.Get": {Value: V{"(abGet__ %2)", "(Allowed × Err)"}}}},
	{Group: "Bids", Name: "ValidateBatchManyBid", Pkg: keeperP, Recv: "Keeper", RecvLean: "Keeper", Func: "ValidateBatchManyBid",
		Params: []gparam{{Go: "k", T: "Keeper"}, {Go: "ctx"}, {Go: "auction", T: "Auction"}, {Go: "bid", T: "Bid"},
			{Go: "abGet__", T: "Int → Acc → (Allowed × Bool)", Oracle: true}},
		Ret:   []LT{"Err"},
		Calls: map[string]callSpec{"k.AllowedBidder.Get": {Value: V{"(abGet__ %2)", "(Allowed × Err)"}}}},
	{Group: "Bids", Name: "PlaceBid", Pkg: keeperP, Recv: "Keeper", RecvLean: "Keeper", Func: "PlaceBid",
		Params: []gparam{{Go: "k", T: "Keeper"}, {Go: "ctx"}, {Go: "msg", T: "PlaceMsgK"},
			{Go: "auctionGet__", T: "Int → (Auction × Bool)", Oracle: true},
			{Go: "bidID__", T: "Int → Int", Oracle: true},
			{Go: "bidsByBidder__", T: "Acc → List Bid", Oracle: true}, {Go: "abGet__", T: "Int → Acc → (Allowed × Bool)", Oracle: true}},
		Ret: []LT{"Bid", "Err"}, EffectsOn: true,
		Calls: map[string]callSpec{
			"k.Auction.Get":            {Value: V{"(auctionGet__ %2)", "(Auction × Err)"}},
			"k.AllowedBidder.Get":      {Value: V{"(abGet__ %2)", "(Allowed × Err)"}},
			"k.PayPlaceBidFee":         {Effect: "payPlaceBidFee", Args: []int{1}},
			"k.GetNextBidIdWithUpdate": {Value: V{"(bidID__ %2, false)", "(Int × Err)"}, Effect: "nextBidId", Args: []int{1}},
			"k.ReservePayingCoin":      {Effect: "reservePayingCoin", Args: []int{1, 2, 3}},
			"k.Auction.Set":            {Effect: "auctionSet", Args: []int{1, 2}},
			"k.BeforeBidPlaced":        {Effect: "beforeBidPlaced", Args: []int{1, 2, 3, 4, 5, 6}},
			"k.Bid.Set":                {Effect: "bidSet", Args: []int{1, 2}},
			"sdk.UnwrapSDKContext":     {Value: V{"()", "SdkCtx"}},
		}},
	{Group: "Bids", Name: "ModifyBid", Pkg: keeperP, Recv: "Keeper", RecvLean: "Keeper", Func: "ModifyBid",
		Params: []gparam{{Go: "k", T: "Keeper"}, {Go: "ctx"}, {Go: "msg", T: "ModifyMsg"},
			{Go: "auctionGet__", T: "Int → (Auction × Bool)", Oracle: true},
			{Go: "bidGet__", T: "Int → Int → (Bid × Bool)", Oracle: true}},
		Ret: []LT{"Err"}, EffectsOn: true,
		Calls: map[string]callSpec{
			"k.Auction.Get":       {Value: V{"(auctionGet__ %2)", "(Auction × Err)"}},
			"k.Bid.Get":           {Value: V{"(bidGet__ %2)", "(Bid × Err)"}},
			"k.ReservePayingCoin": {Effect: "reservePayingCoin", Args: []int{1, 2, 3}},
			"k.BeforeBidModified": {Effect: "beforeBidModified", Args: []int{1, 2, 3, 4, 5, 6}},
			"k.Bid.Set":           {Effect: "bidSet", Args: []int{1, 2}},
		}},
}

func init() {
	auctionGet := callSpec{Value: V{"(auctionGet__ %2)", "(Auction × Err)"}}
	auctionOr := []gparam{{Go: "auctionGet__", T: "Int → (Auction × Bool)", Oracle: true}}
	kctx := []gparam{{Go: "k", T: "Keeper"}, {Go: "ctx"}}
	mk := func(ps ...[]gparam) []gparam {
		var out []gparam
		for _, p := range ps {
			out = append(out, p...)
		}
		return out
	}
	createCalls := map[string]callSpec{
		"sdk.UnwrapSDKContext":             {Value: V{"()", "SdkCtx"}},
		"k.AuctionSeq.Next":                {Value: V{"(nextId__, false)", "(Int × Err)"}},
		"k.PayCreationFee":                 {Effect: "payCreationFee", Args: []int{1}},
		"k.ReserveSellingCoin":             {Effect: "reserveSellingCoin", Args: []int{1, 2, 3}},
		"k.Auction.Set":                    {Effect: "auctionSet", Args: []int{1, 2}},
		"k.BeforeFixedPriceAuctionCreated": {Effect: "beforeFixedCreated", Args: []int{1, 2, 3, 4, 5, 6, 7}},
		"k.AfterFixedPriceAuctionCreated":  {Effect: "afterFixedCreated", Args: []int{1, 2, 3, 4, 5, 6, 7, 8}},
		"k.BeforeBatchAuctionCreated":      {Effect: "beforeBatchCreated", Args: []int{1, 2, 3, 4, 5, 6, 7, 8, 9, 10}},
		"k.AfterBatchAuctionCreated":       {Effect: "afterBatchCreated", Args: []int{1, 2, 3, 4, 5, 6, 7, 8, 9, 10, 11}},
	}
	createOr := []gparam{{Go: "now__", T: "Time", Oracle: true}, {Go: "nextId__", T: "Int", Oracle: true}}
	units = append(units,
		// ---- keeper/auction.go: messages and the keeper API
		Unit{Group: "Auctions", Name: "CancelAuction", Pkg: keeperP, Recv: "Keeper", RecvLean: "Keeper", Func: "CancelAuction",
			Params: mk(kctx, []gparam{{Go: "msg", T: "CancelMsg"}}, auctionOr, []gparam{{Go: "bal__", T: "BankFn", Oracle: true}}),
			Ret:    []LT{"Err"}, EffectsOn: true,
			Calls: map[string]callSpec{
				"k.Auction.Get":               {Value: auctionGet.Value},
				"k.bankKeeper.SpendableCoins": {Value: V{"(bal__ %2)", "Bal"}},
				"k.bankKeeper.SendCoins":      {Effect: "sendCoins", Args: []int{1, 2, 3}},
				"k.BeforeAuctionCanceled":     {Effect: "beforeAuctionCanceled", Args: []int{1, 2}},
				"k.Auction.Set":               {Effect: "auctionSet", Args: []int{1, 2}},
				"sdk.UnwrapSDKContext":        {Value: V{"()", "SdkCtx"}},
			}},
		Unit{Group: "Auctions", Name: "AddAllowedBidders", Pkg: keeperP, Recv: "Keeper", RecvLean: "Keeper", Func: "AddAllowedBidders",
			Params: mk(kctx, []gparam{{Go: "auctionId", T: "Int"}, {Go: "allowedBidders", T: "List AllowedArg"}}, auctionOr),
			Ret:    []LT{"Err"}, EffectsOn: true,
			Calls: map[string]callSpec{
				"k.Auction.Get":               {Value: auctionGet.Value},
				"k.BeforeAllowedBiddersAdded": {Effect: "beforeAllowedBiddersAdded", Args: []int{1}},
				"k.AllowedBidder.Set":         {Effect: "allowedSet", Args: []int{1, 2}},
			}},
		Unit{Group: "Auctions", Name: "UpdateAllowedBidder", Pkg: keeperP, Recv: "Keeper", RecvLean: "Keeper", Func: "UpdateAllowedBidder",
			Params: mk(kctx, []gparam{{Go: "auctionId", T: "Int"}, {Go: "bidder", T: "Acc"}, {Go: "maxBidAmount", T: "Int"}}, auctionOr,
				[]gparam{{Go: "abGet__", T: "Int → Acc → (Allowed × Bool)", Oracle: true}}),
			Ret: []LT{"Err"}, EffectsOn: true,
			Calls: map[string]callSpec{
				"k.Auction.Get":                {Value: auctionGet.Value},
				"k.AllowedBidder.Get":          {Value: V{"(abGet__ %2)", "(Allowed × Err)"}},
				"k.BeforeAllowedBidderUpdated": {Effect: "beforeAllowedBidderUpdated", Args: []int{1, 2, 3}},
				"k.AllowedBidder.Set":          {Effect: "allowedSet", Args: []int{1, 2}},
			}},
		Unit{Group: "Auctions", Name: "MsgServer_AddAllowedBidder", Pkg: keeperP, Recv: "msgServer", RecvLean: "msgServer", Func: "AddAllowedBidder",
			Params: mk(kctx, []gparam{{Go: "msg", T: "AddAllowedMsg"}}, auctionOr, []gparam{{Go: "enableAdd__", T: "Bool", Oracle: true}}),
			Ret:    []LT{"Unit", "Err"}, EffectsOn: true,
			Idents: map[string]V{"EnableAddAllowedBidder": {"enableAdd__", "Bool"}},
			Calls: map[string]callSpec{
				"k.addressCodec.StringToBytes": {Value: V{"(%1, !validAcc %1)", "(Acc × Err)"}},
			}},
		Unit{Group: "Auctions", Name: "CreateFixedPriceAuction", Pkg: keeperP, Recv: "Keeper", RecvLean: "Keeper", Func: "CreateFixedPriceAuction",
			Params: mk(kctx, []gparam{{Go: "msg", T: "CreateMsg"}}, createOr), Ret: []LT{"Option Auction", "Err"}, EffectsOn: true, Calls: createCalls},
		Unit{Group: "Auctions", Name: "CreateBatchAuction", Pkg: keeperP, Recv: "Keeper", RecvLean: "Keeper", Func: "CreateBatchAuction",
			Params: mk(kctx, []gparam{{Go: "msg", T: "CreateMsg"}}, createOr), Ret: []LT{"Option Auction", "Err"}, EffectsOn: true, Calls: createCalls},

		// ---- keeper/abci.go, execution.go, auction.go (settlement), vesting.go
		Unit{Group: "Settle", Name: "ExecuteStandByStatus", Pkg: keeperP, Recv: "Keeper", RecvLean: "Keeper", Func: "ExecuteStandByStatus",
			Params: mk(kctx, []gparam{{Go: "auction", T: "Auction"}, {Go: "now__", T: "Time", Oracle: true}}), Ret: []LT{"Err"}, EffectsOn: true,
			Calls: map[string]callSpec{
				"k.Auction.Set": {Effect: "auctionSet", Args: []int{1, 2}},
			}},
		Unit{Group: "Settle", Name: "ExecuteStartedStatus", Pkg: keeperP, Recv: "Keeper", RecvLean: "Keeper", Func: "ExecuteStartedStatus",
			Params: mk(kctx, []gparam{{Go: "auction", T: "Auction"}, {Go: "now__", T: "Time", Oracle: true}}), Ret: []LT{"Err"}, EffectsOn: true,
			Calls: map[string]callSpec{
				"k.CloseFixedPriceAuction": {Effect: "closeFixed", Args: []int{1}},
				"k.CloseBatchAuction":      {Effect: "closeBatch", Args: []int{1}},
			}},
		Unit{Group: "Settle", Name: "BeginBlocker", Pkg: keeperP, Recv: "Keeper", RecvLean: "Keeper", Func: "BeginBlocker",
			Params: mk(kctx, []gparam{{Go: "auctions__", T: "List Auction", Oracle: true}}), Ret: []LT{"Err"}, EffectsOn: true,
			Calls: map[string]callSpec{
				"k.Auctions":             {Value: V{"(auctions__, false)", "(List Auction × Err)"}},
				"k.ExecuteStandByStatus": {Effect: "execStandBy", Args: []int{1}},
				"k.ExecuteStartedStatus": {Effect: "execStarted", Args: []int{1}},
				"k.ExecuteVestingStatus": {Effect: "execVesting", Args: []int{1}},
			}},
		Unit{Group: "Settle", Name: "publishedMatchedPrice", Pkg: keeperP, Func: "publishedMatchedPrice",
			Params: []gparam{{Go: "mInfo", T: "MInfo"}}, Ret: []LT{"Dec"}},
		Unit{Group: "Settle", Name: "ExtendRound", Pkg: keeperP, Recv: "Keeper", RecvLean: "Keeper", Func: "ExtendRound",
			Params: mk(kctx, []gparam{{Go: "ba", T: "Auction"}, {Go: "params__", T: "Params", Oracle: true}}), Ret: []LT{"Err"}, EffectsOn: true,
			Calls: map[string]callSpec{
				"k.Params.Get":  {Value: V{"(params__, false)", "(Params × Err)"}},
				"k.Auction.Set": {Effect: "auctionSet", Args: []int{1, 2}},
			}},
		Unit{Group: "Settle", Name: "CloseFixedPriceAuction", Pkg: keeperP, Recv: "Keeper", RecvLean: "Keeper", Func: "CloseFixedPriceAuction",
			Params: mk(kctx, []gparam{{Go: "auction", T: "Auction"}, {Go: "mInfo__", T: "MInfo", Oracle: true}}), Ret: []LT{"Err"}, EffectsOn: true,
			Calls: map[string]callSpec{
				"k.CalculateFixedPriceAllocation": {Value: V{"(mInfo__, false)", "(MInfo × Err)"}},
				"k.AllocateSellingCoin":           {Effect: "allocateSellingCoin", Args: []int{1, 2}},
				"k.RefundRemainingSellingCoin":    {Effect: "refundRemainingSellingCoin", Args: []int{1}},
				"k.ApplyVestingSchedules":         {Effect: "applyVestingSchedules", Args: []int{1}},
			}},
		Unit{Group: "Settle", Name: "CloseBatchAuction", Pkg: keeperP, Recv: "Keeper", RecvLean: "Keeper", Func: "CloseBatchAuction",
			Params: mk(kctx, []gparam{{Go: "auction", T: "Auction"}, {Go: "lastMatchedLen__", T: "Int → Int", Oracle: true}, {Go: "mInfo__", T: "MInfo", Oracle: true}}),
			Ret:    []LT{"Err"}, EffectsOn: true,
			Calls: map[string]callSpec{
				"k.GetLastMatchedBidsLen":      {Value: V{"(lastMatchedLen__ %2, false)", "(Int × Err)"}},
				"k.CalculateBatchAllocation":   {Value: V{"(mInfo__, false)", "(MInfo × Err)"}, Effect: "calcBatch", Args: []int{1}},
				"k.AllocateSellingCoin":        {Effect: "allocateSellingCoin", Args: []int{1, 2}},
				"k.RefundRemainingSellingCoin": {Effect: "refundRemainingSellingCoin", Args: []int{1}},
				"k.RefundPayingCoin":           {Effect: "refundPayingCoin", Args: []int{1, 2}},
				"k.ApplyVestingSchedules":      {Effect: "applyVestingSchedules", Args: []int{1}},
				"k.ExtendRound":                {Effect: "extendRound", Args: []int{1}},
			}},
		Unit{Group: "Settle", Name: "RefundRemainingSellingCoin", Pkg: keeperP, Recv: "Keeper", RecvLean: "Keeper", Func: "RefundRemainingSellingCoin",
			Params: mk(kctx, []gparam{{Go: "auction", T: "Auction"}, {Go: "bal__", T: "BankFn", Oracle: true}}), Ret: []LT{"Err"}, EffectsOn: true,
			Calls: map[string]callSpec{
				"k.bankKeeper.SpendableCoins": {Value: V{"(bal__ %2)", "Bal"}},
				"k.bankKeeper.SendCoins":      {Effect: "sendCoins", Args: []int{1, 2, 3}},
			}},
		Unit{Group: "Settle", Name: "ApplyVestingSchedules", Pkg: keeperP, Recv: "Keeper", RecvLean: "Keeper", Func: "ApplyVestingSchedules",
			Params: mk(kctx, []gparam{{Go: "auction", T: "Auction"}, {Go: "bal__", T: "BankFn", Oracle: true}}), Ret: []LT{"Err"}, EffectsOn: true,
			Calls: map[string]callSpec{
				"k.bankKeeper.SpendableCoins": {Value: V{"(bal__ %2)", "Bal"}},
				"k.bankKeeper.SendCoins":      {Effect: "sendCoins", Args: []int{1, 2, 3}},
				"k.VestingQueue.Set":          {Effect: "vqSet", Args: []int{1, 2}},
				"k.Auction.Set":               {Effect: "auctionSet", Args: []int{1, 2}},
			}},
		Unit{Group: "Settle", Name: "ReleaseVestingPayingCoin", Pkg: keeperP, Recv: "Keeper", RecvLean: "Keeper", Func: "ReleaseVestingPayingCoin",
			Params: mk(kctx, []gparam{{Go: "auction", T: "Auction"}, {Go: "vqs__", T: "Int → List VQ", Oracle: true}, {Go: "now__", T: "Time", Oracle: true}}),
			Ret:    []LT{"Err"}, EffectsOn: true,
			Calls: map[string]callSpec{
				"k.GetVestingQueuesByAuctionId": {Value: V{"(vqs__ %2, false)", "(List VQ × Err)"}},
				"k.bankKeeper.SendCoins":        {Effect: "sendCoins", Args: []int{1, 2, 3}},
				"k.VestingQueue.Set":            {Effect: "vqSet", Args: []int{1, 2}},
				"k.Auction.Set":                 {Effect: "auctionSet", Args: []int{1, 2}},
			}},
	)
}

func init() {
	units = append(units,
		Unit{Group: "Match", Name: "Match", Pkg: typesP, Func: "Match",
			Params: []gparam{{Go: "matchPrice", T: "Dec"}, {Go: "prices", T: "List Dec"}, {Go: "bidsByPrice", T: "Map Dec List Bid"},
				{Go: "sellingAmt", T: "Int"}, {Go: "allowedBidders", T: "List Allowed"}},
			Ret: []LT{"Option MState", "Bool"}, Named: []string{"res", "matched"}, NamedTypes: map[string]LT{"res": "MState", "matched": "Bool"},
			Alias: map[string]aliasSpec{"bidderRes": {Base: "res", Field: "MatchResultByBidder", Key: "bid", KeyField: ".bidder"}}},
		Unit{Group: "Match", Name: "CalculateFixedPriceAllocation", Pkg: keeperP, Recv: "Keeper", RecvLean: "Keeper", Func: "CalculateFixedPriceAllocation",
			Params: []gparam{{Go: "k", T: "Keeper"}, {Go: "ctx"}, {Go: "auction", T: "Auction"}, {Go: "bids__", T: "Int → List Bid", Oracle: true}},
			Ret:    []LT{"MInfoG", "Err"},
			Calls:  map[string]callSpec{"k.GetBidsByAuctionId": {Value: V{"(bids__ %2, false)", "(List Bid × Err)"}}}},
	)
}

func init() {
	kctx := []gparam{{Go: "k", T: "Keeper"}, {Go: "ctx"}}
	codec := callSpec{Value: V{"(%1, !validAcc %1)", "(Acc × Err)"}}
	auctionOr := []gparam{{Go: "auctionGet__", T: "Int → (Auction × Bool)", Oracle: true}}
	abOr := []gparam{{Go: "abGet__", T: "Int → Acc → (Allowed × Bool)", Oracle: true}}
	cat := func(ps ...[]gparam) []gparam {
		var out []gparam
		for _, p := range ps {
			out = append(out, p...)
		}
		return out
	}
	units = append(units,
		// ---- types/params.go, keeper/msg_update_params.go
		Unit{Group: "Msgs", Name: "validateAuctionCreationFee", Pkg: typesP, Func: "validateAuctionCreationFee",
			Params: []gparam{{Go: "v", T: "Coins"}}, Ret: []LT{"Err"}},
		Unit{Group: "Msgs", Name: "validatePlaceBidFee", Pkg: typesP, Func: "validatePlaceBidFee",
			Params: []gparam{{Go: "v", T: "Coins"}}, Ret: []LT{"Err"}},
		Unit{Group: "Msgs", Name: "validateExtendedPeriod", Pkg: typesP, Func: "validateExtendedPeriod",
			Params: []gparam{{Go: "_", T: "Int"}}, Ret: []LT{"Err"}},
		Unit{Group: "Msgs", Name: "Params_Validate", Pkg: typesP, Recv: "Params", RecvLean: "Params", Func: "Validate",
			Params: []gparam{{Go: "p", T: "Params"}}, Ret: []LT{"Err"}},
		Unit{Group: "Server", Name: "MsgServer_UpdateParams", Pkg: keeperP, Recv: "msgServer", RecvLean: "msgServer", Func: "UpdateParams",
			Params: cat(kctx, []gparam{{Go: "req", T: "UpdateParamsMsg"}}), Ret: []LT{"Unit", "Err"}, EffectsOn: true,
			Calls: map[string]callSpec{
				"k.addressCodec.StringToBytes": codec,
				"k.GetAuthority":               {Value: V{"AUTHORITY", "Acc"}},
				"k.Params.Set":                 {Effect: "paramsSet", Args: []int{1}},
			}},
		// ---- keeper/msg_server.go: the message server adds the address-codec check and calls the keeper
		Unit{Group: "Server", Name: "MsgServer_PlaceBid", Pkg: keeperP, Recv: "msgServer", RecvLean: "msgServer", Func: "PlaceBid",
			Params: cat(kctx, []gparam{{Go: "msg", T: "PlaceMsgK"}}, auctionOr, []gparam{{Go: "bidID__", T: "Int → Int", Oracle: true},
				{Go: "bidsByBidder__", T: "Acc → List Bid", Oracle: true}}, abOr),
			Ret: []LT{"Unit", "Err"}, EffectsOn: true, Calls: map[string]callSpec{"k.addressCodec.StringToBytes": codec}},
		Unit{Group: "Server", Name: "MsgServer_ModifyBid", Pkg: keeperP, Recv: "msgServer", RecvLean: "msgServer", Func: "ModifyBid",
			Params: cat(kctx, []gparam{{Go: "msg", T: "ModifyMsg"}}, auctionOr, []gparam{{Go: "bidGet__", T: "Int → Int → (Bid × Bool)", Oracle: true}}),
			Ret:    []LT{"Unit", "Err"}, EffectsOn: true, Calls: map[string]callSpec{"k.addressCodec.StringToBytes": codec}},
		Unit{Group: "Server", Name: "MsgServer_CancelAuction", Pkg: keeperP, Recv: "msgServer", RecvLean: "msgServer", Func: "CancelAuction",
			Params: cat(kctx, []gparam{{Go: "msg", T: "CancelMsg"}}, auctionOr, []gparam{{Go: "bal__", T: "BankFn", Oracle: true}}),
			Ret:    []LT{"Unit", "Err"}, EffectsOn: true, Calls: map[string]callSpec{"k.addressCodec.StringToBytes": codec}},
		Unit{Group: "Server", Name: "MsgServer_CreateFixedPriceAuction", Pkg: keeperP, Recv: "msgServer", RecvLean: "msgServer", Func: "CreateFixedPriceAuction",
			Params: cat(kctx, []gparam{{Go: "msg", T: "CreateMsg"}, {Go: "now__", T: "Time", Oracle: true}, {Go: "nextId__", T: "Int", Oracle: true}}),
			Ret:    []LT{"Unit", "Err"}, EffectsOn: true, Calls: map[string]callSpec{"k.addressCodec.StringToBytes": codec}},
		Unit{Group: "Server", Name: "MsgServer_CreateBatchAuction", Pkg: keeperP, Recv: "msgServer", RecvLean: "msgServer", Func: "CreateBatchAuction",
			Params: cat(kctx, []gparam{{Go: "msg", T: "CreateMsg"}, {Go: "now__", T: "Time", Oracle: true}, {Go: "nextId__", T: "Int", Oracle: true}}),
			Ret:    []LT{"Unit", "Err"}, EffectsOn: true, Calls: map[string]callSpec{"k.addressCodec.StringToBytes": codec}},
	)
}

func init() {
	units = append(units,
		Unit{Group: "Match", Name: "CalculateBatchAllocation", Pkg: keeperP, Recv: "Keeper", RecvLean: "Keeper", Func: "CalculateBatchAllocation",
			Params: []gparam{{Go: "k", T: "Keeper"}, {Go: "ctx"}, {Go: "auction", T: "Auction"},
				{Go: "bids__", T: "Int → List Bid", Oracle: true}, {Go: "prices__", T: "List Dec", Oracle: true},
				{Go: "byPrice__", T: "Map Dec List Bid", Oracle: true}, {Go: "allowed__", T: "Int → List Allowed", Oracle: true},
				{Go: "keysR__", T: "List Acc", Oracle: true}, {Go: "keysM__", T: "List Acc", Oracle: true}},
			Ret: []LT{"MInfoG", "Err"}, EffectsOn: true,
			Calls: map[string]callSpec{
				"k.GetBidsByAuctionId":         {Value: V{"(bids__ %2, false)", "(List Bid × Err)"}},
				"types.BidsByPrice":            {Value: V{"(prices__, byPrice__)", "(List Dec × Map Dec List Bid)"}},
				"k.GetAllowedBiddersByAuction": {Value: V{"(allowed__ %2, false)", "(List Allowed × Err)"}},
				"k.Bid.Set":                    {Effect: "bidSet", Args: []int{1, 2}},
				"k.SetMatchedBidsLen":          {Effect: "matchedLenSet", Args: []int{1, 2}},
			},
			MapKeyOrder: []string{"keysR__", "keysM__"}},
	)
}

func init() {
	pay := func(name, fn, mapExpr string) Unit {
		return Unit{Group: "Payout", Name: name, Pkg: keeperP, Recv: "Keeper", RecvLean: "Keeper", Func: fn,
			Params: []gparam{{Go: "k", T: "Keeper"}, {Go: "ctx"}, {Go: "auction", T: "Auction"}, {Go: "mInfo", T: "MInfoG"},
				{Go: "keys__", T: "List Acc", Oracle: true}},
			Ret: []LT{"Err"}, EffectsOn: true,
			Calls: map[string]callSpec{
				"k.BeforeSellingCoinsAllocated": {Effect: "beforeSellingCoinsAllocated", Args: []int{1, 2, 3}},
				"k.bankKeeper.InputOutputCoins": {Effect: "inputOutputCoins", Args: []int{1, 2}},
			},
			MapKeyOrder: []string{"keys__"}}
	}
	units = append(units,
		pay("AllocateSellingCoin", "AllocateSellingCoin", "mInfo.AllocationMap"),
		pay("RefundPayingCoin", "RefundPayingCoin", "mInfo.RefundMap"))
}

func init() {
	units = append(units,
		// ---- types/genesis.go, types/auction.go: validation of an exported genesis
		Unit{Group: "Genesis", Name: "Bid_Validate", Pkg: typesP, Recv: "Bid", RecvLean: "Bid", Func: "Validate",
			Params: []gparam{{Go: "b", T: "Bid"}}, Ret: []LT{"Err"}},
		Unit{Group: "Genesis", Name: "VestingQueue_Validate", Pkg: typesP, Recv: "VestingQueue", RecvLean: "VQ", Func: "Validate",
			Params: []gparam{{Go: "q", T: "VQ"}}, Ret: []LT{"Err"}},
		Unit{Group: "Genesis", Name: "BaseAuction_Validate", Pkg: typesP, Recv: "BaseAuction", RecvLean: "Auction", Func: "Validate",
			Params: []gparam{{Go: "ba", T: "Auction"}}, Ret: []LT{"Err"}},
		Unit{Group: "Genesis", Name: "GenesisState_Validate", Pkg: typesP, Recv: "GenesisState", RecvLean: "GenesisG", Func: "Validate",
			Params: []gparam{{Go: "gs", T: "GenesisG"}}, Ret: []LT{"Err"},
			Calls:     map[string]callSpec{"UnpackAuction": {Value: V{"(%1, false)", "(Auction × Err)"}}},
			TypeNames: map[string]LT{"string": "Key", "struct{}": "Unit"}},
	)
}

const moduleP = "github.com/tendermint/fundraising/x/fundraising/module"

func init() {
	units = append(units,
		// ---- module/genesis.go: InitGenesis, store-threaded (it reads back what it has written)
		Unit{Group: "Import", Name: "InitGenesis", Pkg: moduleP, Func: "InitGenesis", StoreOn: true, JoinIfs: true,
			Params: []gparam{{Go: "ctx"}, {Go: "k", T: "Keeper"}, {Go: "genState", T: "GenesisG"}}, Ret: []LT{"Err"},
			Calls: map[string]callSpec{
				"k.AuctionSeq.Next":        {Store: "(GStore.seqNext st__)", Kind: "rw", Value: V{T: "(Int × Err)"}},
				"k.Auction.Set":            {Store: "(GStore.auctionSet st__ %1 %2)", Kind: "w", Args: []int{1, 2}},
				"k.Auction.Get":            {Store: "(GStore.auctionGet st__ %1)", Kind: "r", Args: []int{1}, Value: V{T: "(Auction × Err)"}},
				"k.AllowedBidder.Set":      {Store: "(GStore.allowedSet st__ %1 %2 %3)", Kind: "w", Args: []int{1, 2}},
				"k.SetMatchedBidsLen":      {Store: "(GStore.matchedLenSet st__ %1 %2)", Kind: "w", Args: []int{1, 2}},
				"k.GetNextBidIdWithUpdate": {Store: "(GStore.nextBidId st__ %1)", Kind: "rw", Args: []int{1}, Value: V{T: "(Int × Err)"}},
				"k.Bid.Set":                {Store: "(GStore.bidSet st__ %1 %2 %3)", Kind: "w", Args: []int{1, 2}},
				"k.VestingQueue.Set":       {Store: "(GStore.vqSet st__ %1 %2 %3)", Kind: "w", Args: []int{1, 2}},
				"k.Params.Set":             {Store: "(GStore.paramsSet st__ %1)", Kind: "w", Args: []int{1}},
				"types.UnpackAuction":      {Value: V{"(%1, false)", "(Auction × Err)"}},
				"errors.Is":                {Value: V{"%1", "Bool"}},
			},
			TypeNames: map[string]LT{"int64": "Int"}},
	)
}

func init() {
	units = append(units,
		// ---- module/genesis.go: ExportGenesis (every collection walked in key order)
		Unit{Group: "Export", Name: "ExportGenesis", Pkg: moduleP, Func: "ExportGenesis", StoreOn: true, JoinIfs: true,
			Params: []gparam{{Go: "ctx"}, {Go: "k", T: "Keeper"}}, Ret: []LT{"GenesisG", "Err"},
			Calls: map[string]callSpec{
				"k.Params.Get":         {Store: "(GStore.paramsGet st__)", Kind: "r", Value: V{T: "(Params × Err)"}},
				"k.AllowedBidder.Walk": {Walk: "(GStore.allAllowed %s)", Value: V{T: "List AllowedArg"}},
				"k.VestingQueue.Walk":  {Walk: "(GStore.allVqs %s)", Value: V{T: "List VQ"}},
				"k.Bid.Walk":           {Walk: "(GStore.allBids %s)", Value: V{T: "List Bid"}},
				"k.Auction.Walk":       {Walk: "(GStore.allAuctions %s)", Value: V{T: "List Auction"}},
				"types.PackAuction":    {Value: V{"(%1, false)", "(Auction × Err)"}},
				"types.DefaultGenesis": {Value: V{"Go.defaultGenesis", "GenesisG"}},
			},
			TypeNames: map[string]LT{"*codectypes.Any": "Auction"}},
	)
}

func init() {
	// ---- the keeper's keyed getters (keeper/bid.go, match.go, vesting.go, allowed_bidder.go,
	// auction.go), store-threaded: what the oracle functions of the handlers ARE, read off the
	// code — a prefixed range, a filter in the Walk closure, "not found means 0"
	kctx := []gparam{{Go: "k", T: "Keeper"}, {Go: "ctx"}}
	errIs := callSpec{Value: V{"%1", "Bool"}} // the only error a Get on the model's store returns is not-found
	get := func(name, file string, params []gparam, ret []LT, calls map[string]callSpec, tn map[string]LT) Unit {
		return Unit{Group: "Getters", Name: name, Pkg: keeperP, Recv: "Keeper", RecvLean: "Keeper", Func: name, StoreOn: true, JoinIfs: true,
			Params: append(append([]gparam{}, kctx...), params...), Ret: ret, Calls: calls, TypeNames: tn}
	}
	units = append(units,
		get("GetNextBidIdWithUpdate", "bid.go", []gparam{{Go: "auctionId", T: "Int"}}, []LT{"Int", "Err"},
			map[string]callSpec{
				"k.BidSeq.Get": {Store: "(GStore.bidSeqGet st__ %1)", Kind: "r", Args: []int{1}, Value: V{T: "(Int × Err)"}},
				"k.BidSeq.Set": {Store: "(GStore.bidSeqSet st__ %1 %2)", Kind: "w", Args: []int{1, 2}},
				"errors.Is":    errIs,
			}, nil),
		get("GetBidsByAuctionId", "bid.go", []gparam{{Go: "auctionId", T: "Int"}}, []LT{"List Bid", "Err"},
			map[string]callSpec{"k.Bid.Walk": {Walk: "(GStore.allBids %s)", WalkPrefix: "(GStore.bidsOf %s %p)", Value: V{T: "List Bid"}}},
			map[string]LT{"types.Bid": "Bid"}),
		get("GetBidsByBidder", "bid.go", []gparam{{Go: "bidderAddr", T: "Acc"}}, []LT{"List Bid", "Err"},
			map[string]callSpec{"k.Bid.Walk": {Walk: "(GStore.allBids %s)", WalkPrefix: "(GStore.bidsOf %s %p)", Value: V{T: "List Bid"}}},
			map[string]LT{"types.Bid": "Bid"}),
		get("GetLastMatchedBidsLen", "match.go", []gparam{{Go: "auctionId", T: "Int"}}, []LT{"Int", "Err"},
			map[string]callSpec{
				"k.MatchedBidsLen.Get": {Store: "(GStore.matchedLenGet st__ %1)", Kind: "r", Args: []int{1}, Value: V{T: "(Int × Err)"}},
				"errors.Is":            errIs,
			}, nil),
		get("GetVestingQueuesByAuctionId", "vesting.go", []gparam{{Go: "auctionId", T: "Int"}}, []LT{"List VQ", "Err"},
			map[string]callSpec{"k.VestingQueue.Walk": {Walk: "(GStore.allVqs %s)", WalkPrefix: "(GStore.vqsOf %s %p)", Value: V{T: "List VQ"}}},
			map[string]LT{"types.VestingQueue": "VQ"}),
		get("Auctions", "auction.go", nil, []LT{"List Auction", "Err"},
			map[string]callSpec{"k.IterateAuctions": {Walk: "(GStore.allAuctions %s)", Value: V{T: "List Auction"}}},
			map[string]LT{"types.AuctionI": "Auction"}),
		get("Bids", "bid.go", nil, []LT{"List Bid", "Err"},
			map[string]callSpec{"k.IterateBids": {Walk: "(GStore.allBids %s)", Value: V{T: "List Bid"}}},
			map[string]LT{"types.Bid": "Bid"}),
		get("VestingQueues", "vesting.go", nil, []LT{"List VQ", "Err"},
			map[string]callSpec{"k.IterateVestingQueues": {Walk: "(GStore.allVqs %s)", Value: V{T: "List VQ"}}},
			map[string]LT{"types.VestingQueue": "VQ"}),
		get("AllowedBidders", "allowed_bidder.go", nil, []LT{"List AllowedArg", "Err"},
			map[string]callSpec{"k.IterateAllowedBidders": {Walk: "(GStore.allAllowed %s)", Value: V{T: "List AllowedArg"}}},
			map[string]LT{"types.AllowedBidder": "AllowedArg"}),
		get("GetAllowedBiddersByAuction", "allowed_bidder.go", []gparam{{Go: "auctionId", T: "Int"}}, []LT{"List Allowed", "Err"},
			map[string]callSpec{"k.AllowedBidder.Walk": {Walk: "(GStore.allAllowedRec %s)", WalkPrefix: "(GStore.allowedOf %s %p)", Value: V{T: "List Allowed"}}},
			map[string]LT{"types.AllowedBidder": "Allowed"}),
	)
}

func init() {
	// ---- the gRPC query handlers (keeper/query_*.go), store-threaded and read-only.  All pages of
	// a paginated listing together are `Go.paginate records pred transform`; how the SDK cuts the
	// list into pages is not modelled.
	errIs := callSpec{Value: V{"%1", "Bool"}}
	q := func(name string, req LT, resp LT, calls map[string]callSpec, tn map[string]LT) Unit {
		if calls == nil {
			calls = map[string]callSpec{}
		}
		calls["errors.Is"] = errIs
		return Unit{Group: "Queries", Name: "Query_" + name, Pkg: keeperP, Recv: "queryServer", RecvLean: "queryServer", Func: name, StoreOn: true, JoinIfs: true,
			Params: []gparam{{Go: "q", T: "Keeper"}, {Go: "ctx"}, {Go: "req", T: req}}, Ret: []LT{"Option " + resp, "Err"}, Calls: calls, TypeNames: tn}
	}
	units = append(units,
		q("ListBid", "ListBidReq", "ListBidResp", map[string]callSpec{
			"paginate:Bid":             {Walk: "(GStore.allBids %s)", WalkPrefix: "(GStore.bidsOf %s %p)", Value: V{T: "List Bid"}},
			"sdk.AccAddressFromBech32": {Value: V{"(Go.optAccParse %1)", "(Acc × Err)"}},
			"strconv.ParseBool":        {Value: V{"(Go.parseBoolStr %1)", "(Bool × Err)"}},
		}, map[string]LT{"types.Bid": "Bid"}),
		q("GetBid", "GetBidReq", "GetBidResp", map[string]callSpec{
			"k.k.Bid.Get": {Store: "(GStore.bidGet st__ %1 %2)", Kind: "r", Args: []int{1}, Value: V{T: "(Bid × Err)"}},
		}, nil),
		q("ListAuction", "ListAuctionReq", "ListAuctionResp", map[string]callSpec{
			"paginate:Auction":  {Walk: "(GStore.allAuctions %s)", Value: V{T: "List Auction"}},
			"types.PackAuction": {Value: V{"(%1, false)", "(Auction × Err)"}},
		}, map[string]LT{"*codectypes.Any": "Auction"}),
		q("GetAuction", "GetAuctionReq", "GetAuctionResp", map[string]callSpec{
			"k.k.Auction.Get":   {Store: "(GStore.auctionGet st__ %1)", Kind: "r", Args: []int{1}, Value: V{T: "(Auction × Err)"}},
			"types.PackAuction": {Value: V{"(%1, false)", "(Auction × Err)"}},
		}, nil),
		q("ListAllowedBidder", "ListAllowedReq", "ListAllowedResp", map[string]callSpec{
			"paginate:AllowedBidder": {Walk: "(GStore.allAllowed %s)", WalkPrefix: "(GStore.allowedArgsOf %s %p)", Value: V{T: "List AllowedArg"}},
		}, map[string]LT{"types.AllowedBidder": "AllowedArg"}),
		q("GetAllowedBidder", "GetAllowedReq", "GetAllowedResp", map[string]callSpec{
			"k.k.AllowedBidder.Get":    {Store: "(GStore.allowedGet st__ %1 %2)", Kind: "r", Args: []int{1}, Value: V{T: "(AllowedArg × Err)"}},
			"sdk.AccAddressFromBech32": {Value: V{"(%1, !validAcc %1)", "(Acc × Err)"}},
		}, nil),
		q("ListVestingQueue", "ListVqReq", "ListVqResp", map[string]callSpec{
			"paginate:VestingQueue": {Walk: "(GStore.allVqs %s)", WalkPrefix: "(GStore.vqsOf %s %p)", Value: V{T: "List VQ"}},
		}, map[string]LT{"types.VestingQueue": "VQ"}),
	)
}

func init() {
	// ---- keeper/keeper.go: the four functions through which a message moves coins; the handler
	// units record a call of them as ONE effect (`payPlaceBidFee`, …), Proofs/Tie/Fees.lean ties what
	// the interpreter does for that effect to the bank / distribution calls the function makes
	kctx := []gparam{{Go: "k", T: "Keeper"}, {Go: "ctx"}}
	par := gparam{Go: "params__", T: "Params", Oracle: true}
	fee := map[string]callSpec{
		"k.Params.Get":                    {Value: V{"(params__, false)", "(Params × Err)"}},
		"k.distrKeeper.FundCommunityPool": {Effect: "fundPool", Args: []int{1, 2}},
	}
	send := map[string]callSpec{"k.bankKeeper.SendCoins": {Effect: "sendCoins", Args: []int{1, 2, 3}}}
	units = append(units,
		Unit{Group: "Fees", Name: "PayCreationFee", Pkg: keeperP, Recv: "Keeper", RecvLean: "Keeper", Func: "PayCreationFee",
			Params: append(append([]gparam{}, kctx...), gparam{Go: "auctioneerAddr", T: "Acc"}, par), Ret: []LT{"Err"}, EffectsOn: true, Calls: fee},
		Unit{Group: "Fees", Name: "PayPlaceBidFee", Pkg: keeperP, Recv: "Keeper", RecvLean: "Keeper", Func: "PayPlaceBidFee",
			Params: append(append([]gparam{}, kctx...), gparam{Go: "bidderAddr", T: "Acc"}, par), Ret: []LT{"Err"}, EffectsOn: true, Calls: fee},
		Unit{Group: "Fees", Name: "ReserveSellingCoin", Pkg: keeperP, Recv: "Keeper", RecvLean: "Keeper", Func: "ReserveSellingCoin",
			Params: append(append([]gparam{}, kctx...), gparam{Go: "auctionId", T: "Int"}, gparam{Go: "auctioneerAddr", T: "Acc"}, gparam{Go: "sellingCoin", T: "Coin"}),
			Ret:    []LT{"Err"}, EffectsOn: true, Calls: send},
		Unit{Group: "Fees", Name: "ReservePayingCoin", Pkg: keeperP, Recv: "Keeper", RecvLean: "Keeper", Func: "ReservePayingCoin",
			Params: append(append([]gparam{}, kctx...), gparam{Go: "auctionId", T: "Int"}, gparam{Go: "bidderAddr", T: "Acc"}, gparam{Go: "payingCoin", T: "Coin"}),
			Ret:    []LT{"Err"}, EffectsOn: true, Calls: send},
	)
}

func init() {
	// ---- keeper/invariants.go: the module's own (crisis) invariants.  Each is a function returning
	// a closure over the context; the unit is the closure.  Store-threaded (they read through
	// k.Auctions / k.GetBidsByAuctionId / k.GetVestingQueuesByAuctionId, which are units), the bank
	// balance is an oracle function of the address the code passes.  The message string is dropped
	// (a poisoned local), the result is the `broken` flag.
	inv := func(name string) Unit {
		return Unit{Group: "Invariants", Name: name, Pkg: keeperP, Func: name, StoreOn: true, JoinIfs: true, Closure: true, DropText: true,
			Params: []gparam{{Go: "k", T: "Keeper"}, {Go: "ctx"}, {Go: "bal__", T: "BankFn", Oracle: true}}, Ret: []LT{"String", "Bool"},
			Calls: map[string]callSpec{
				"k.bankKeeper.SpendableCoins": {Value: V{"(bal__ %2)", "Bal"}},
				// the text of the report is not modelled: every formatted message is the empty string
				"sdk.FormatInvariant": {Value: V{"\"\"", "String"}},
				"fmt.Sprintf":         {Value: V{"\"\"", "String"}},
			}}
	}
	units = append(units,
		inv("SellingPoolReserveAmountInvariant"),
		inv("PayingPoolReserveAmountInvariant"),
		inv("VestingPoolReserveAmountInvariant"),
		// AllInvariants: `for _, inv := range []func(Keeper) sdk.Invariant{A, B, C} { res, stop := inv(k)(ctx); … }`
		inv("AllInvariants"))
}

func init() {
	// ---- types/utils.go: BidsByPrice.  What `SortBids` returns is an oracle (`sorted__`: its
	// comparator is not a strict weak order, so the result is whatever Go's sort makes of it); the
	// grouping by price, the distinct prices and their descending sort are translated.
	units = append(units,
		Unit{Group: "Match", Name: "BidsByPrice", Pkg: typesP, Func: "BidsByPrice",
			Params: []gparam{{Go: "bids", T: "List Bid"}, {Go: "sorted__", T: "List Bid", Oracle: true}, {Go: "keys__", T: "List Dec", Oracle: true}},
			Ret:    []LT{"List Dec", "Map Dec List Bid"}, Named: []string{"prices", "bidsByPrice"},
			NamedTypes:  map[string]LT{"prices": "List Dec", "bidsByPrice": "Map Dec List Bid"},
			Calls:       map[string]callSpec{"SortBids": {Value: V{"sorted__", "List Bid"}}},
			MapKeyOrder: []string{"keys__"}, MapLen: map[string]string{"bidsByPrice": "keys__"},
			TypeNames: map[string]LT{"string": "Dec", "[]Bid": "List Bid", "math.LegacyDec": "Dec"}})
}

// hookSigs: the ten hooks (types.FundraisingHooks), the effect name the handler units record a call
// of the keeper wrapper under, and the Lean types of the parameters after ctx, by position
var hookSigs = []struct {
	Name, Eff string
	Ts        []LT
}{
	{"BeforeFixedPriceAuctionCreated", "beforeFixedCreated", []LT{"Acc", "Dec", "Coin", "Denom", "List VS", "Time", "Time"}},
	{"AfterFixedPriceAuctionCreated", "afterFixedCreated", []LT{"Int", "Acc", "Dec", "Coin", "Denom", "List VS", "Time", "Time"}},
	{"BeforeBatchAuctionCreated", "beforeBatchCreated", []LT{"Acc", "Dec", "Dec", "Coin", "Denom", "List VS", "Int", "Dec", "Time", "Time"}},
	{"AfterBatchAuctionCreated", "afterBatchCreated", []LT{"Int", "Acc", "Dec", "Dec", "Coin", "Denom", "List VS", "Int", "Dec", "Time", "Time"}},
	{"BeforeAuctionCanceled", "beforeAuctionCanceled", []LT{"Int", "Acc"}},
	{"BeforeBidPlaced", "beforeBidPlaced", []LT{"Int", "Int", "Acc", "BidType", "Dec", "Coin"}},
	{"BeforeBidModified", "beforeBidModified", []LT{"Int", "Int", "Acc", "BidType", "Dec", "Coin"}},
	{"BeforeAllowedBiddersAdded", "beforeAllowedBiddersAdded", []LT{"List AllowedArg"}},
	{"BeforeAllowedBidderUpdated", "beforeAllowedBidderUpdated", []LT{"Int", "Acc", "Int"}},
	{"BeforeSellingCoinsAllocated", "beforeSellingCoinsAllocated", []LT{"Int", "Map Acc Int", "Map Acc Int"}},
}

func init() {
	// ---- types/hooks.go (MultiFundraisingHooks: the dispatch over the registered listeners) and
	// keeper/hooks.go (the keeper's wrappers: "call hook if registered").  A listener is its position
	// in the list the keeper was given; what a listener returns is an oracle function of it.  A call
	// of listener x is recorded as the hook's effect with x in front of the arguments.
	for _, h := range hookSigs {
		var ps []gparam
		var idx []int
		for i, ty := range h.Ts {
			ps = append(ps, gparam{Go: fmt.Sprintf("p%d", i), T: ty})
			idx = append(idx, i+1)
		}
		lerr := gparam{Go: "lerr__", T: "Nat → Bool", Oracle: true}
		units = append(units,
			Unit{Group: "Hooks", Name: "Multi_" + h.Name, Pkg: typesP, Recv: "MultiFundraisingHooks", RecvLean: "List Nat", Func: h.Name,
				Params: append(append([]gparam{{Go: "h", T: "List Nat"}, {Go: "ctx"}}, ps...), lerr), Ret: []LT{"Err"}, EffectsOn: true,
				Calls: map[string]callSpec{"k[]." + h.Name: {Effect: h.Eff, Args: idx, Value: V{"(lerr__ %0)", "Err"}}}},
			Unit{Group: "Hooks", Name: "Keeper_" + h.Name, Pkg: keeperP, Recv: "Keeper", RecvLean: "KeeperHooks", Func: h.Name,
				Params: append(append([]gparam{{Go: "k", T: "Keeper"}, {Go: "ctx"}}, ps...),
					gparam{Go: "hooks__", T: "Option List Nat", Oracle: true}, lerr), Ret: []LT{"Err"}, EffectsOn: true})
	}
}
