package main

// C17: hook interface, dispatchers, keeper wrappers, call sites.

import (
	"go/ast"
	"go/token"
	"path/filepath"
	"strings"
)

type HookSig struct {
	Name   string
	Params []string
}

type Forwarder struct {
	Name           string
	Params         []string
	Recognised     bool
	LoopsAll       bool
	Callee         string
	Args           []string
	ErrChecked     bool
	FallthroughNil bool
}

type HookSite struct {
	File         string // not emitted (schema has no field); used for ordering / diagnostics
	Func         string
	Hook         string
	ErrReturned  bool
	StmtIndex    int
	NextSetIndex int // -1 = none
	PrevSetIndex int
}

const (
	typesPkg  = modulePath + "/x/fundraising/types"
	keeperPkg = modulePath + "/x/fundraising/keeper"
	modulePkg = modulePath + "/x/fundraising/module"
)

func (w *World) hookInterface() []HookSig {
	p := w.mustPkg(typesPkg)
	f := p.file("expected_keepers.go")
	if f == nil {
		fatalf("x/fundraising/types/expected_keepers.go not found")
	}
	var out []HookSig
	found := false
	for _, d := range f.AST.Decls {
		gd, ok := d.(*ast.GenDecl)
		if !ok {
			continue
		}
		for _, s := range gd.Specs {
			ts, ok := s.(*ast.TypeSpec)
			if !ok || ts.Name.Name != "FundraisingHooks" {
				continue
			}
			it, ok := ts.Type.(*ast.InterfaceType)
			if !ok {
				fatalf("FundraisingHooks is not an interface type")
			}
			found = true
			for _, m := range it.Methods.List {
				ft, isFunc := m.Type.(*ast.FuncType)
				if !isFunc || len(m.Names) == 0 {
					// embedded interface: keep an entry nothing can match
					out = append(out, HookSig{Name: "<embedded " + w.render(m.Type) + ">"})
					continue
				}
				ps := paramNames(ft.Params)
				if len(ps) > 0 {
					ps = ps[1:]
				}
				for _, n := range m.Names {
					out = append(out, HookSig{Name: n.Name, Params: ps})
				}
			}
		}
	}
	if !found {
		fatalf("type FundraisingHooks interface not found in expected_keepers.go")
	}
	return out
}

// errNeNil: `err != nil`
func errNeNil(e ast.Expr) bool {
	b, ok := unparen(e).(*ast.BinaryExpr)
	return ok && b.Op == token.NEQ && isIdent(b.X, "err") && isIdent(b.Y, "nil")
}

// ifErrCall: s is `if err := <call>; err != nil { … }` without else; returns the call and
// the body.
func ifErrCall(s ast.Stmt) (*ast.CallExpr, *ast.BlockStmt, bool) {
	is, ok := s.(*ast.IfStmt)
	if !ok || is.Init == nil || is.Else != nil || !errNeNil(is.Cond) {
		return nil, nil, false
	}
	as, ok := is.Init.(*ast.AssignStmt)
	if !ok || as.Tok != token.DEFINE || len(as.Lhs) != 1 || len(as.Rhs) != 1 || !isIdent(as.Lhs[0], "err") {
		return nil, nil, false
	}
	call, ok := as.Rhs[0].(*ast.CallExpr)
	if !ok {
		return nil, nil, false
	}
	return call, is.Body, true
}

// singleReturn: block is exactly `return <results>`.
func singleReturn(b *ast.BlockStmt) ([]ast.Expr, bool) {
	if b == nil || len(b.List) != 1 {
		return nil, false
	}
	r, ok := b.List[0].(*ast.ReturnStmt)
	if !ok {
		return nil, false
	}
	return r.Results, true
}

func isReturnOf(b *ast.BlockStmt, name string) bool {
	rs, ok := singleReturn(b)
	return ok && len(rs) == 1 && isIdent(rs[0], name)
}

// callOfStmt: the call if s is `call`, `x = call` / `x := call`, or `if err := call; …`.
func callOfStmt(s ast.Stmt) *ast.CallExpr {
	switch x := s.(type) {
	case *ast.ExprStmt:
		if c, ok := x.X.(*ast.CallExpr); ok {
			return c
		}
	case *ast.AssignStmt:
		if len(x.Rhs) == 1 {
			if c, ok := x.Rhs[0].(*ast.CallExpr); ok {
				return c
			}
		}
	case *ast.IfStmt:
		if as, ok := x.Init.(*ast.AssignStmt); ok && len(as.Rhs) == 1 {
			if c, ok := as.Rhs[0].(*ast.CallExpr); ok {
				return c
			}
		}
	}
	return nil
}

func (w *World) argStrings(args []ast.Expr, ctxName string) []string {
	out := []string{}
	if len(args) > 0 && ctxName != "" && ctxName != "_" && isIdent(args[0], ctxName) {
		args = args[1:]
	}
	for _, a := range args {
		if id, ok := a.(*ast.Ident); ok {
			out = append(out, id.Name)
		} else {
			out = append(out, w.render(a))
		}
	}
	return out
}

// forwarder recognises a dispatcher (`dispatcher == true`, listeners are h[i]) or a keeper
// wrapper (listener is k.hooks).
func (w *World) forwarder(fd *ast.FuncDecl, dispatcher bool) Forwarder {
	all := paramNames(fd.Type.Params)
	ctxName := ""
	fw := Forwarder{Name: fd.Name.Name, Params: []string{}, Args: []string{}}
	if len(all) > 0 {
		ctxName = all[0]
		fw.Params = append(fw.Params, all[1:]...)
	}
	recv := ""
	if fd.Recv != nil && len(fd.Recv.List) == 1 && len(fd.Recv.List[0].Names) == 1 {
		recv = fd.Recv.List[0].Names[0].Name
	}
	if fd.Body == nil || recv == "" {
		return fw
	}
	body := fd.Body.List

	// the last statement
	if n := len(body); n > 0 {
		if r, ok := body[n-1].(*ast.ReturnStmt); ok && len(r.Results) == 1 && isIdent(r.Results[0], "nil") {
			fw.FallthroughNil = true
		}
	}

	// the guard-clause spelling of a keeper wrapper:
	//     if k.hooks == nil { return nil }
	//     return k.hooks.X(ctx, args…)
	// — same condition, same call, the hook's error returned as it is
	if !dispatcher && len(body) == 2 {
		if g, ok := body[0].(*ast.IfStmt); ok && g.Init == nil && g.Else == nil && len(g.Body.List) == 1 {
			b, okb := unparen(g.Cond).(*ast.BinaryExpr)
			r0, okr0 := g.Body.List[0].(*ast.ReturnStmt)
			r1, okr1 := body[1].(*ast.ReturnStmt)
			if okb && okr0 && okr1 && b.Op == token.EQL && isIdent(b.Y, "nil") && len(r0.Results) == 1 && isIdent(r0.Results[0], "nil") && len(r1.Results) == 1 {
				sx, oks := unparen(b.X).(*ast.SelectorExpr)
				c, okc := unparen(r1.Results[0]).(*ast.CallExpr)
				if oks && okc && isIdent(sx.X, recv) && sx.Sel.Name == "hooks" {
					if cs, ok := unparen(c.Fun).(*ast.SelectorExpr); ok {
						if ls, ok := unparen(cs.X).(*ast.SelectorExpr); ok && isIdent(ls.X, recv) && ls.Sel.Name == "hooks" {
							fw.Callee = cs.Sel.Name
							fw.Args = w.argStrings(c.Args, ctxName)
							fw.FallthroughNil, fw.Recognised, fw.LoopsAll, fw.ErrChecked = true, true, true, true
							return fw
						}
					}
				}
			}
		}
	}

	// onListener: is e the listener expression?
	var loopVar, loopVal string
	onListener := func(e ast.Expr) bool {
		if dispatcher {
			if loopVal != "" && isIdent(unparen(e), loopVal) {
				return true // `for _, l := range h { l.X(…) }`
			}
			ix, ok := unparen(e).(*ast.IndexExpr)
			return ok && isIdent(ix.X, recv) && loopVar != "" && isIdent(ix.Index, loopVar)
		}
		s, ok := unparen(e).(*ast.SelectorExpr)
		return ok && isIdent(s.X, recv) && s.Sel.Name == "hooks"
	}

	// the guard (first statement) and its single inner statement
	var inner []ast.Stmt
	guardOK := false
	if len(body) > 0 {
		switch g := body[0].(type) {
		case *ast.RangeStmt:
			if dispatcher {
				loopVar = identName(g.Key)
				guardOK = g.Tok == token.DEFINE && loopVar != "" && loopVar != "_" && g.Value == nil && isIdent(g.X, recv)
				if v := identName(g.Value); g.Value != nil && v != "" && v != "_" && g.Tok == token.DEFINE && isIdent(g.X, recv) {
					loopVal, guardOK = v, true // ranging over the listeners by value
				}
				inner = g.Body.List
			}
		case *ast.IfStmt:
			if !dispatcher {
				b, ok := unparen(g.Cond).(*ast.BinaryExpr)
				guardOK = ok && g.Init == nil && g.Else == nil && b.Op == token.NEQ && isIdent(b.Y, "nil")
				if guardOK {
					s, ok := unparen(b.X).(*ast.SelectorExpr)
					guardOK = ok && isIdent(s.X, recv) && s.Sel.Name == "hooks"
				}
				inner = g.Body.List
			}
		}
	}

	// the forwarded call: first call on the listener anywhere in the first statement
	var call *ast.CallExpr
	if len(body) > 0 {
		ast.Inspect(body[0], func(n ast.Node) bool {
			if call != nil {
				return false
			}
			if c, ok := n.(*ast.CallExpr); ok {
				if s, ok := unparen(c.Fun).(*ast.SelectorExpr); ok && onListener(s.X) {
					call = c
					return false
				}
			}
			return true
		})
	}
	if call != nil {
		fw.Callee = unparen(call.Fun).(*ast.SelectorExpr).Sel.Name
		fw.Args = w.argStrings(call.Args, ctxName)
	}

	shapeOK := len(body) == 2 && len(inner) == 1 && call != nil && callOfStmt(inner[0]) == call
	if shapeOK {
		if _, isRet := body[1].(*ast.ReturnStmt); !isRet {
			shapeOK = false
		}
	}
	fw.Recognised = shapeOK
	fw.LoopsAll = guardOK && len(inner) == 1 && call != nil && callOfStmt(inner[0]) == call
	if len(inner) == 1 && call != nil {
		if c, blk, ok := ifErrCall(inner[0]); ok && c == call && isReturnOf(blk, "err") {
			fw.ErrChecked = true
		}
	}
	return fw
}

func (w *World) dispatchers() []Forwarder {
	p := w.mustPkg(typesPkg)
	f := p.file("hooks.go")
	if f == nil {
		fatalf("x/fundraising/types/hooks.go not found")
	}
	var out []Forwarder
	for _, d := range f.AST.Decls {
		fd, ok := d.(*ast.FuncDecl)
		if !ok || fd.Recv == nil || len(fd.Recv.List) != 1 {
			continue
		}
		if baseTypeName(fd.Recv.List[0].Type) != "MultiFundraisingHooks" {
			continue
		}
		out = append(out, w.forwarder(fd, true))
	}
	return out
}

func (w *World) keeperWrappers(hooks map[string]bool) []Forwarder {
	p := w.mustPkg(keeperPkg)
	f := p.file("hooks.go")
	if f == nil {
		fatalf("x/fundraising/keeper/hooks.go not found")
	}
	var out []Forwarder
	for _, d := range f.AST.Decls {
		fd, ok := d.(*ast.FuncDecl)
		if !ok || fd.Recv == nil || len(fd.Recv.List) != 1 {
			continue
		}
		if baseTypeName(fd.Recv.List[0].Type) != "Keeper" || !hooks[fd.Name.Name] {
			continue
		}
		out = append(out, w.forwarder(fd, false))
	}
	return out
}

var announced = map[string]string{
	"BeforeFixedPriceAuctionCreated": "Auction",
	"AfterFixedPriceAuctionCreated":  "Auction",
	"BeforeBatchAuctionCreated":      "Auction",
	"AfterBatchAuctionCreated":       "Auction",
	"BeforeAuctionCanceled":          "Auction",
	"BeforeBidPlaced":                "Bid",
	"BeforeBidModified":              "Bid",
	"BeforeAllowedBiddersAdded":      "AllowedBidder",
	"BeforeAllowedBidderUpdated":     "AllowedBidder",
}

// containsMethodCall: is there a call `<…>.<field>.<method>(…)` under n?
func containsMethodCall(n ast.Node, field, method string) bool {
	found := false
	ast.Inspect(n, func(m ast.Node) bool {
		if found {
			return false
		}
		c, ok := m.(*ast.CallExpr)
		if !ok {
			return true
		}
		s, ok := unparen(c.Fun).(*ast.SelectorExpr)
		if !ok || s.Sel.Name != method {
			return true
		}
		if in, ok := unparen(s.X).(*ast.SelectorExpr); ok && in.Sel.Name == field {
			found = true
		}
		return !found
	})
	return found
}

func (w *World) hookSites(hooks map[string]bool) []HookSite {
	p := w.mustPkg(keeperPkg)
	var out []HookSite
	for _, f := range p.Files {
		base := filepath.Base(f.Abs)
		if base == "hooks.go" || strings.HasSuffix(base, "_test.go") {
			continue
		}
		for _, d := range f.AST.Decls {
			fd, ok := d.(*ast.FuncDecl)
			if !ok || fd.Body == nil {
				continue
			}
			top := fd.Body.List
			marks := func(stmt ast.Stmt, hook string) bool {
				if hook == "BeforeSellingCoinsAllocated" {
					return containsMethodCall(stmt, "bankKeeper", "InputOutputCoins")
				}
				coll, ok := announced[hook]
				return ok && containsMethodCall(stmt, coll, "Set")
			}
			for idx, stmt := range top {
				walkStack(stmt, func(n ast.Node, stack []ast.Node) bool {
					call, ok := n.(*ast.CallExpr)
					if !ok {
						return true
					}
					sel, ok := unparen(call.Fun).(*ast.SelectorExpr)
					if !ok || !hooks[sel.Sel.Name] {
						return true
					}
					site := HookSite{File: f.Rel, Func: fd.Name.Name, Hook: sel.Sel.Name, StmtIndex: idx, NextSetIndex: -1, PrevSetIndex: -1}
					// errReturned: parent is the init of `if err := call; err != nil { return …, err }`
					// and that `return` leaves the function itself (no closure in between)
					inClosure := false
					for _, a := range stack {
						if _, ok := a.(*ast.FuncLit); ok {
							inClosure = true
						}
					}
					if len(stack) >= 2 && !inClosure {
						if is, ok := stack[len(stack)-2].(*ast.IfStmt); ok && is.Init == stack[len(stack)-1] {
							if c, blk, ok := ifErrCall(is); ok && c == call {
								if rs, ok := singleReturn(blk); ok && len(rs) > 0 && isIdent(rs[len(rs)-1], "err") {
									site.ErrReturned = true
								}
							}
						}
					}
					for j := idx + 1; j < len(top); j++ {
						if marks(top[j], site.Hook) {
							site.NextSetIndex = j
							break
						}
					}
					for j := idx - 1; j >= 0; j-- {
						if marks(top[j], site.Hook) {
							site.PrevSetIndex = j
							break
						}
					}
					out = append(out, site)
					return true
				})
			}
		}
	}
	return out
}
