// Command extract re-extracts the finite tables the Lean theorems of
// /verif/lean/Fundraising decide over from the *source* of the fundraising module
// (Go, .proto, Makefile) and writes them as Lean 4 data.
//
//	go run . -repo /repo -out /verif/lean/Fundraising/Generated/Tables.lean
//
// Every recogniser is a pattern matcher over go/ast.  A construct that does not have the
// expected shape is still emitted (recognised := false / RangeClass.other / RhsKind.other
// / "<expr …>" strings) so that the Lean `decide` over the table fails instead of passing.
package main

import (
	"flag"
	"fmt"
	"os"
	"path/filepath"
)

func main() {
	repo := flag.String("repo", "/repo", "root of the fundraising repository")
	out := flag.String("out", "", "Lean file to write (default: stdout)")
	code := flag.String("code", "", "directory to write the GoLite translation of the unit table to (Generated/Code/<Group>.lean)")
	flag.BoolVar(&debugRanges, "debug-ranges", false, "print (stderr) how every range statement was resolved")
	flag.Parse()

	w, err := newWorld(*repo)
	if err != nil {
		fatalf("%v", err)
	}
	// the packages linked into the daemon (build constraints respected by `go list`)
	if err := w.goList(true, "./cmd/fundraisingd"); err != nil {
		fatalf("%v", err)
	}
	var missing []string
	for _, p := range []string{keeperPkg, typesPkg, modulePkg} {
		if w.pkgs[p] == nil {
			missing = append(missing, p)
		}
	}
	if len(missing) > 0 {
		if err := w.goList(false, missing...); err != nil {
			fatalf("%v", err)
		}
	}

	t := &Tables{}
	t.HookInterface = w.hookInterface()
	hooks := map[string]bool{}
	for _, h := range t.HookInterface {
		hooks[h.Name] = true
	}
	t.Dispatchers = w.dispatchers()
	t.KeeperWrappers = w.keeperWrappers(hooks)
	t.HookSites = w.hookSites(hooks)
	t.SwitchWrites = w.switchWrites()
	mk, err := w.repoFile("Makefile")
	if err != nil {
		// no Makefile: there is no "default build" we can vouch for
		fmt.Fprintf(os.Stderr, "extract: warning: %v; defaultBuildSetsLdflag := true\n", err)
		t.DefaultBuildSetsLdflag = true
	} else {
		t.DefaultBuildSetsLdflag = makefileSetsLdflag(string(mk))
	}
	t.MapRanges = w.mapRanges()
	t.Accessors = w.accessors()
	t.Iterators = w.iterators()
	t.Collections = w.collections()
	t.CliCmds = w.cliCmds()
	t.Rpcs = w.rpcs()
	t.SourceFiles = w.hashes

	if *code != "" {
		for _, p := range []string{keeperP, typesP, moduleP} {
			if err := w.load(w.mustPkg(p)); err != nil {
				fatalf("%v", err)
			}
		}
		if err := os.MkdirAll(*code, 0o755); err != nil {
			fatalf("%v", err)
		}
		for g, text := range w.translateUnits() {
			if err := os.WriteFile(filepath.Join(*code, g+".lean"), []byte(text), 0o644); err != nil {
				fatalf("%v", err)
			}
		}
	}

	text := t.Lean()
	if *out == "" {
		fmt.Print(text)
		return
	}
	if err := os.MkdirAll(filepath.Dir(*out), 0o755); err != nil {
		fatalf("%v", err)
	}
	if err := os.WriteFile(*out, []byte(text), 0o644); err != nil {
		fatalf("%v", err)
	}
	fmt.Fprintf(os.Stderr, "extract: wrote %s (%d hooks, %d dispatchers, %d wrappers, %d sites, %d switch writes, %d map ranges, %d collections, %d cli cmds, %d rpcs, %d files)\n",
		*out, len(t.HookInterface), len(t.Dispatchers), len(t.KeeperWrappers), len(t.HookSites), len(t.SwitchWrites),
		len(t.MapRanges), len(t.Collections), len(t.CliCmds), len(t.Rpcs), len(t.SourceFiles))
}
