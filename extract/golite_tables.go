package main

// Tables of the GoLite translator: what each Go field, method, function and constant of
// the SDK / module types means in the Lean model (Fundraising/Model/*.lean,
// Fundraising/Tables/GoSem.lean).  All of it is keyed by the LEAN type the translator has
// assigned to the receiver, so an expression is translatable only if every step of it is
// listed here; the meaning given to the SDK primitives (LegacyDec arithmetic, Coin
// validation, address parsing) is the modelling boundary stated in DESIGN.md §4.

type fld struct {
	L string // %s = receiver
	T LT
}

type fnSpec struct {
	L     string // %1 … %n = arguments (receiver first)
	T     LT
	Arity int  // -1: not checked
	Args  []LT // expected argument types ("" = any)
	Note  string
}

var constants = map[string]V{
	"AuctionStatusStandBy":   {"Status.standby", "Status"},
	"AuctionStatusStarted":   {"Status.started", "Status"},
	"AuctionStatusVesting":   {"Status.vesting", "Status"},
	"AuctionStatusFinished":  {"Status.finished", "Status"},
	"AuctionStatusCancelled": {"Status.cancelled", "Status"},
	"AuctionTypeFixedPrice":  {"AType.fixed", "AType"},
	"AuctionTypeBatch":       {"AType.batch", "AType"},
	"BidTypeFixedPrice":      {"BidType.fixed", "BidType"},
	"BidTypeBatchWorth":      {"BidType.worth", "BidType"},
	"BidTypeBatchMany":       {"BidType.many", "BidType"},
	"MaxNumVestingSchedules": {"(100 : Int)", "Int"},
	"MaxExtendedRound":       {"(30 : Int)", "Int"},
}

var fields = map[LT]map[string]fld{
	// gRPC query requests (Tables/GoStore.lean): a string field is modelled by what it denotes
	"ListBidReq":     {"AuctionId": {"%s.aid", "Int"}, "Bidder": {"%s.bidder", "Option Acc"}, "IsMatched": {"%s.isMatched", "Option BoolStr"}},
	"GetBidReq":      {"AuctionId": {"%s.aid", "Int"}, "BidId": {"%s.bidId", "Int"}},
	"ListAuctionReq": {"Status": {"%s.status", "Option StatusStr"}, "Type": {"%s.type", "Option ATypeStr"}},
	"GetAuctionReq":  {"AuctionId": {"%s.aid", "Int"}},
	"ListAllowedReq": {"AuctionId": {"%s.aid", "Int"}},
	"GetAllowedReq":  {"AuctionId": {"%s.aid", "Int"}, "Bidder": {"%s.bidder", "Acc"}},
	"ListVqReq":      {"AuctionId": {"%s.aid", "Int"}},
	"Bid": {
		"AuctionId": {"(%s.auction : Int)", "Int"}, "Id": {"(%s.id : Int)", "Int"}, "Bidder": {"%s.bidder", "Acc"},
		"Type": {"%s.type", "BidType"}, "Price": {"%s.price", "Dec"}, "Coin": {"(Go.bidCoin %s)", "Coin"},
		"IsMatched": {"%s.matched", "Bool"},
	},
	"Coin": {"Denom": {"%s.denom", "Denom"}, "Amount": {"%s.amt", "Int"}},
	"Auction": {
		"MinBidPrice": {"%s.minBid", "Dec"}, "MatchedPrice": {"%s.matchedPrice", "Dec"},
		"MaxExtendedRound": {"(%s.maxExt : Int)", "Int"}, "ExtendedRoundRate": {"%s.rate", "Dec"},
		"RemainingSellingCoin": {"(Go.remainingCoin %s)", "Coin"},
		"StartTime":            {"%s.startTime", "Time"}, "EndTimes": {"%s.endTimes", "List Time"},
		"Type": {"%s.type", "AType"}, "Status": {"%s.status", "Status"}, "StartPrice": {"%s.startPrice", "Dec"},
		"SellingCoin": {"(Go.sellingCoin %s)", "Coin"}, "PayingCoinDenom": {"%s.payDenom", "Denom"},
		"VestingSchedules": {"%s.schedules", "List VS"}, "Auctioneer": {"%s.auctioneer", "Acc"},
		"Id": {"(%s.id : Int)", "Int"},
		// the three reserve addresses are functions of the id in the model (always well-formed)
		"SellingReserveAddress": {"(0 : Acc)", "Acc"}, "PayingReserveAddress": {"(0 : Acc)", "Acc"}, "VestingReserveAddress": {"(0 : Acc)", "Acc"},
	},
	// `k.hooks`: the keeper's listener list (an interface that is nil until SetHooks), an oracle of the wrapper units
	"Keeper": {"Keeper": {"%s", "Keeper"}, "hooks": {"hooks__", "Option List Nat"}},
	"Params": {"ExtendedPeriod": {"(%s.period : Int)", "Int"}, "AuctionCreationFee": {"%s.creationFee", "Coins"}, "PlaceBidFee": {"%s.bidFee", "Coins"}},
	"GenesisG": {"Params": {"%s.params", "Params"}, "AuctionList": {"%s.auctions", "List Auction"}, "AllowedBidderList": {"%s.allowed", "List AllowedArg"},
		"BidList": {"%s.bids", "List Bid"}, "VestingQueueList": {"%s.vqs", "List VQ"}},
	"UpdateParamsMsg": {"Authority": {"%s.signer", "Acc"}, "Params": {"%s.params", "Params"}},
	"MInfo":           {"MatchedLen": {"%s.matchedLen", "Int"}, "MatchedPrice": {"%s.price", "Dec"}, "TotalMatchedAmount": {"%s.total", "Int"}},
	"VS":              {"ReleaseTime": {"%s.release", "Time"}, "Weight": {"%s.weight", "Dec"}},
	"VQ": {"Auctioneer": {"%s.auctioneer", "Acc"}, "ReleaseTime": {"%s.release", "Time"}, "Released": {"%s.released", "Bool"}, "PayingCoin": {"(Go.vqCoin %s)", "Coin"},
		"AuctionId": {"(%s.auction : Int)", "Int"}},
	"Allowed": {"Bidder": {"%s.bidder", "Acc"}, "MaxBidAmount": {"%s.cap", "Int"}},
	"AllowedArg": {"Bidder": {"%s.bidder", "Acc"}, "MaxBidAmount": {"%s.cap", "Int"},
		"AuctionId": {"(%s.recAuction : Int)", "Int"}},
	"CreateMsg": {
		"Auctioneer": {"%s.auctioneer", "Acc"}, "StartPrice": {"%s.startPrice", "Dec"}, "MinBidPrice": {"%s.minBid", "Dec"},
		"SellingCoin": {"(Coin.mk %s.sellDenom %s.sellAmt)", "Coin"}, "PayingCoinDenom": {"%s.payDenom", "Denom"},
		"VestingSchedules": {"%s.schedules", "List VS"}, "MaxExtendedRound": {"(%s.maxExt : Int)", "Int"},
		"ExtendedRoundRate": {"%s.rate", "Dec"}, "StartTime": {"%s.startTime", "Time"}, "EndTime": {"%s.endTime", "Time"},
	},
	"PlaceMsg": {
		"Bidder": {"%s.bidder", "Acc"}, "AuctionId": {"(%s.aid : Int)", "Int"}, "BidType": {"%s.bidType", "Option BidType"},
		"Price": {"%s.price", "Dec"}, "Coin": {"(Coin.mk %s.denom %s.amt)", "Coin"},
	},
	"ModifyMsg": {
		"Bidder": {"%s.bidder", "Acc"}, "AuctionId": {"(%s.aid : Int)", "Int"}, "BidId": {"(%s.bidId : Int)", "Int"},
		"Price": {"%s.price", "Dec"}, "Coin": {"(Coin.mk %s.denom %s.amt)", "Coin"},
	},
	"PlaceMsgK": {
		"Bidder": {"%s.bidder", "Acc"}, "AuctionId": {"(%s.aid : Int)", "Int"}, "BidType": {"%s.bidType", "BidType"},
		"Price": {"%s.price", "Dec"}, "Coin": {"(Coin.mk %s.denom %s.amt)", "Coin"},
	},
	"CancelMsg":     {"Auctioneer": {"%s.signer", "Acc"}, "AuctionId": {"(%s.aid : Int)", "Int"}},
	"AddAllowedMsg": {"AuctionId": {"(%s.aid : Int)", "Int"}, "AllowedBidder": {"%s.ab", "AllowedArg"}},
	"MState": {
		"MatchPrice": {"%s.price", "Dec"}, "MatchedAmount": {"%s.total", "Int"}, "MatchedBids": {"%s.matched", "List Bid"},
		"MatchResultByBidder": {"%s.byBidder", "Map Acc BRes"},
	},
	"BRes":   {"PayingAmount": {"%s.pay", "Int"}, "MatchedAmount": {"%s.matched", "Int"}},
	"IOC":    {"bidder": {"%s.bidder", "Acc"}, "input": {"%s.input", "BankIn"}, "outputs": {"%s.outputs", "List BankOut"}},
	"BankIn": {"Coins": {"%s.coins", "Coin"}, "Address": {"%s.addr", "Addr"}},
	"MInfoG": {"MatchedLen": {"%s.matchedLen", "Int"}, "MatchedPrice": {"%s.price", "Dec"}, "TotalMatchedAmount": {"%s.total", "Int"},
		"AllocationMap": {"%s.alloc", "Map Acc Int"}, "ReservedMatchedMap": {"%s.reservedMatched", "Map Acc Int"}, "RefundMap": {"%s.refund", "Map Acc Int"}},
}

// setters: `x.F = e` on a local struct value.  %1 = the struct, %2 = the new value
var setters = map[string]fld{
	"Bid.Price":                    {"{ %1 with price := %2 }", "Dec"},
	"Bid.Coin":                     {"{ %1 with denom := (%2).denom, amt := (%2).amt }", "Coin"},
	"Bid.Id":                       {"{ %1 with id := (%2).toNat }", "Int"},
	"GenesisG.AllowedBidderList":   {"{ %1 with allowed := %2 }", "List AllowedArg"},
	"GenesisG.VestingQueueList":    {"{ %1 with vqs := %2 }", "List VQ"},
	"GenesisG.BidList":             {"{ %1 with bids := %2 }", "List Bid"},
	"GenesisG.AuctionList":         {"{ %1 with auctions := %2 }", "List Auction"},
	"GenesisG.Params":              {"{ %1 with params := %2 }", "Params"},
	"Params.AuctionCreationFee":    {"{ %1 with creationFee := %2 }", "Coins"},
	"Params.PlaceBidFee":           {"{ %1 with bidFee := %2 }", "Coins"},
	"Bid.IsMatched":                {"{ %1 with matched := %2 }", "Bool"},
	"Auction.RemainingSellingCoin": {"{ %1 with remaining := (%2).amt }", "Coin"},
	"Auction.MatchedPrice":         {"{ %1 with matchedPrice := %2 }", "Dec"},
	"AllowedArg.AuctionId":         {"{ %1 with recAuction := (%2).toNat }", "Int"},
	"MState.MatchedAmount":         {"{ %1 with total := %2 }", "Int"},
	"MState.MatchedBids":           {"{ %1 with matched := %2 }", "List Bid"},
	"MState.MatchResultByBidder":   {"{ %1 with byBidder := %2 }", "Map Acc BRes"},
	"BRes.MatchedAmount":           {"{ %1 with matched := %2 }", "Int"},
	"BRes.PayingAmount":            {"{ %1 with pay := %2 }", "Int"},
	"MInfoG.AllocationMap":         {"{ %1 with alloc := %2 }", "Map Acc Int"},
	"MInfoG.TotalMatchedAmount":    {"{ %1 with total := %2 }", "Int"},
	"IOC.input":                    {"{ %1 with input := %2 }", "BankIn"},
	"IOC.outputs":                  {"{ %1 with outputs := %2 }", "List BankOut"},
	"BankIn.Coins":                 {"{ %1 with coins := %2 }", "Coin"},
	"MInfoG.MatchedLen":            {"{ %1 with matchedLen := %2 }", "Int"},
	"MInfoG.MatchedPrice":          {"{ %1 with price := %2 }", "Dec"},
	"MInfoG.ReservedMatchedMap":    {"{ %1 with reservedMatched := %2 }", "Map Acc Int"},
	"MInfoG.RefundMap":             {"{ %1 with refund := %2 }", "Map Acc Int"},
}

func cmp(op string) fnSpec {
	return fnSpec{L: "decide (%1 " + op + " %2)", T: "Bool", Arity: 2}
}

var methods = map[string]fnSpec{}

func init() {
	for _, ty := range []LT{"Int", "Dec"} {
		methods[ty+".GT"] = fnSpec{L: "decide (%1 > %2)", T: "Bool", Arity: 2, Args: []LT{ty, ty}}
		methods[ty+".GTE"] = fnSpec{L: "decide (%1 ≥ %2)", T: "Bool", Arity: 2, Args: []LT{ty, ty}}
		methods[ty+".LT"] = fnSpec{L: "decide (%1 < %2)", T: "Bool", Arity: 2, Args: []LT{ty, ty}}
		methods[ty+".LTE"] = fnSpec{L: "decide (%1 ≤ %2)", T: "Bool", Arity: 2, Args: []LT{ty, ty}}
		methods[ty+".Equal"] = fnSpec{L: "decide (%1 = %2)", T: "Bool", Arity: 2, Args: []LT{ty, ty}}
		methods[ty+".IsPositive"] = fnSpec{L: "decide (%1 > 0)", T: "Bool", Arity: 1}
		methods[ty+".IsNegative"] = fnSpec{L: "decide (%1 < 0)", T: "Bool", Arity: 1}
		methods[ty+".IsZero"] = fnSpec{L: "decide (%1 = 0)", T: "Bool", Arity: 1}
		methods[ty+".Add"] = fnSpec{L: "(%1 + %2)", T: ty, Arity: 2, Args: []LT{ty, ty}}
		methods[ty+".Sub"] = fnSpec{L: "(%1 - %2)", T: ty, Arity: 2, Args: []LT{ty, ty}}
		methods[ty+".Neg"] = fnSpec{L: "(-%1)", T: ty, Arity: 1}
		methods[ty+".IsNil"] = fnSpec{L: "false", T: "Bool", Arity: 1, Note: "nil math.Int / LegacyDec values are outside the model (IsNil() = false)"}
	}
	methods["Int.Mul"] = fnSpec{L: "(%1 * %2)", T: "Int", Arity: 2, Args: []LT{"Int", "Int"}}
	methods["Int.ToLegacyDec"] = fnSpec{L: "(Dec.ofInt %1)", T: "Dec", Arity: 1}
	methods["Dec.Mul"] = fnSpec{L: "(Dec.mul %1 %2)", T: "Dec", Arity: 2, Args: []LT{"Dec", "Dec"}}
	methods["Dec.MulTruncate"] = fnSpec{L: "(Dec.mulTrunc %1 %2)", T: "Dec", Arity: 2, Args: []LT{"Dec", "Dec"}}
	methods["Dec.Quo"] = fnSpec{L: "(Dec.quo %1 %2)", T: "Dec", Arity: 2, Args: []LT{"Dec", "Dec"}}
	methods["Dec.QuoTruncate"] = fnSpec{L: "(Dec.quoTrunc %1 %2)", T: "Dec", Arity: 2, Args: []LT{"Dec", "Dec"}}
	methods["Dec.MulInt"] = fnSpec{L: "(Dec.mulInt %1 %2)", T: "Dec", Arity: 2, Args: []LT{"Dec", "Int"}}
	methods["Dec.Ceil"] = fnSpec{L: "(Dec.ceil %1)", T: "Dec", Arity: 1}
	methods["Dec.TruncateInt"] = fnSpec{L: "(Dec.truncInt %1)", T: "Int", Arity: 1}
	methods["Dec.String"] = fnSpec{L: "%1", T: "Dec", Arity: 1, Note: "LegacyDec.String() is injective (18 fixed decimals): the price itself is used as the map key"}

	methods["Time.After"] = fnSpec{L: "decide (%1 > %2)", T: "Bool", Arity: 2, Args: []LT{"Time", "Time"}}
	methods["Time.Before"] = fnSpec{L: "decide (%1 < %2)", T: "Bool", Arity: 2, Args: []LT{"Time", "Time"}}
	methods["Time.Equal"] = fnSpec{L: "decide (%1 = %2)", T: "Bool", Arity: 2, Args: []LT{"Time", "Time"}}
	methods["Time.UnixNano"] = fnSpec{L: "%1", T: "Int", Arity: 1, Note: "UnixNano is injective on the times of the model (whole seconds)"}
	methods["Time.AddDate"] = fnSpec{L: "(Go.addDate %1 %2 %3 %4)", T: "Time", Arity: 4}

	methods["Coin.Validate"] = fnSpec{L: "(!validCoin %1.denom %1.amt)", T: "Err", Arity: 1}
	methods["Coin.IsLT"] = fnSpec{L: "decide (%1.amt < %2.amt)", T: "Bool", Arity: 2, Args: []LT{"Coin", "Coin"},
		Note: "Coin.IsLT panics on different denominations: both coins are in the selling denomination at the call site"}
	methods["Coin.IsGTE"] = fnSpec{L: "(decide (%1.denom = %2.denom) && decide (%1.amt ≥ %2.amt))", T: "Bool", Arity: 2, Args: []LT{"Coin", "Coin"},
		Note: "Coin.IsGTE panics on different denominations: translated as `false` (an invariant that panics counts as broken)"}
	methods["Coin.IsPositive"] = fnSpec{L: "decide (%1.amt > 0)", T: "Bool", Arity: 1}
	methods["Coin.IsZero"] = fnSpec{L: "decide (%1.amt = 0)", T: "Bool", Arity: 1}
	methods["Coin.Sub"] = fnSpec{L: "(Coin.mk %1.denom (%1.amt - %2.amt))", T: "Coin", Arity: 2, Args: []LT{"Coin", "Coin"},
		Note: "Coin.Sub panics on a negative result or different denominations (handled by the model's mkCoins)"}
	methods["Coin.Add"] = fnSpec{L: "(Coin.mk %1.denom (%1.amt + %2.amt))", T: "Coin", Arity: 2, Args: []LT{"Coin", "Coin"},
		Note: "Coins.Add of two one-coin sets of the same denomination"}
	methods["Coin.SubAmount"] = fnSpec{L: "(Coin.mk %1.denom (%1.amt - %2))", T: "Coin", Arity: 2, Args: []LT{"Coin", "Int"}}
	methods["Coin.AddAmount"] = fnSpec{L: "(Coin.mk %1.denom (%1.amt + %2))", T: "Coin", Arity: 2, Args: []LT{"Coin", "Int"}}

	// AuctionI getters
	for g, f := range map[string]string{"GetStatus": "Status", "GetType": "Type", "GetStartPrice": "StartPrice",
		"GetSellingCoin": "SellingCoin", "GetPayingCoinDenom": "PayingCoinDenom", "GetStartTime": "StartTime",
		"GetEndTimes": "EndTimes", "GetVestingSchedules": "VestingSchedules", "GetAuctioneer": "Auctioneer"} {
		fl := fields["Auction"][f]
		methods["Auction."+g] = fnSpec{L: replaceRecv(fl.L), T: fl.T, Arity: 1}
	}
	methods["Auction.GetId"] = fnSpec{L: "(%1.id : Int)", T: "Int", Arity: 1}
	methods["Auction.GetSellingReserveAddress"] = fnSpec{L: "(Addr.sell %1.id)", T: "Addr", Arity: 1}
	methods["Auction.GetPayingReserveAddress"] = fnSpec{L: "(Addr.pay %1.id)", T: "Addr", Arity: 1}
	methods["Auction.GetVestingReserveAddress"] = fnSpec{L: "(Addr.vest %1.id)", T: "Addr", Arity: 1}
	methods["VQ.GetReleaseTime"] = fnSpec{L: "%1.release", T: "Time", Arity: 1}
	methods["Bid.GetBidder"] = fnSpec{L: "%1.bidder", T: "Acc", Arity: 1}
	methods["Allowed.GetBidder"] = fnSpec{L: "(%1.bidder, !validAcc %1.bidder)", T: "(Acc × Err)", Arity: 1}
	methods["AllowedArg.GetBidder"] = fnSpec{L: "(%1.bidder, !validAcc %1.bidder)", T: "(Acc × Err)", Arity: 1}
	methods["Acc.Equals"] = fnSpec{L: "decide (%1 = %2)", T: "Bool", Arity: 2, Args: []LT{"Acc", "Acc"}}
	methods["SdkCtx.BlockTime"] = fnSpec{L: "now__", T: "Time", Arity: 1, Note: "the block time is the oracle parameter now__"}
	methods["Acc.String"] = fnSpec{L: "%1", T: "Acc", Arity: 1}
	// the NAME of an enum constant, as a request string is modelled (Tables/GoStore.lean)
	methods["AType.String"] = fnSpec{L: "(some (ATypeStr.is %1))", T: "Option ATypeStr", Arity: 1}
	methods["Status.String"] = fnSpec{L: "(some (StatusStr.is %1))", T: "Option StatusStr", Arity: 1}
	methods["Coins.Validate"] = fnSpec{L: "(!validCoins %1)", T: "Err", Arity: 1}
	methods["Addr.String"] = fnSpec{L: "%1", T: "Addr", Arity: 1}
	methods["Bal.AmountOf"] = fnSpec{L: "(%1 %2)", T: "Int", Arity: 2, Args: []LT{"Bal", "Denom"}}
	methods["CreateMsg.GetAuctioneer"] = fnSpec{L: "%1.auctioneer", T: "Acc", Arity: 1}
	methods["Dec.IsNil"] = fnSpec{L: "false", T: "Bool", Arity: 1, Note: "nil LegacyDec values are outside the model (IsNil() = false)"}
	for _, m := range []string{"PlaceMsg", "ModifyMsg", "PlaceMsgK"} {
		methods[m+".GetBidder"] = fnSpec{L: "%1.bidder", T: "Acc", Arity: 1}
	}
}

func replaceRecv(s string) string {
	out := ""
	for i := 0; i < len(s); i++ {
		if s[i] == '%' && i+1 < len(s) && s[i+1] == 's' {
			out += "%1"
			i++
		} else {
			out += string(s[i])
		}
	}
	return out
}

var funcs = map[string]fnSpec{
	"math.LegacyNewDecFromInt": {L: "(Dec.ofInt %1)", T: "Dec", Arity: 1, Args: []LT{"Int"}},
	"math.LegacyOneDec":        {L: "Dec.one", T: "Dec", Arity: 0},
	"math.LegacyZeroDec":       {L: "(0 : Dec)", T: "Dec", Arity: 0},
	"math.ZeroInt":             {L: "(0 : Int)", T: "Int", Arity: 0},
	"math.OneInt":              {L: "(1 : Int)", T: "Int", Arity: 0},
	"math.MinInt":              {L: "(min %1 %2)", T: "Int", Arity: 2, Args: []LT{"Int", "Int"}},
	"math.MaxInt":              {L: "(max %1 %2)", T: "Int", Arity: 2, Args: []LT{"Int", "Int"}},
	"math.NewInt":              {L: "%1", T: "Int", Arity: 1, Args: []LT{"Int"}},
	"math.LegacyMustNewDecFromStr": {L: "%1", T: "Dec", Arity: 1, Args: []LT{"Dec"},
		Note: "LegacyMustNewDecFromStr(d.String()) = d: a price string that came from LegacyDec.String() is modelled by the price"},
	"sdk.NewCoin": {L: "(Coin.mk %1 %2)", T: "Coin", Arity: 2, Args: []LT{"Denom", "Int"},
		Note: "sdk.NewCoin panics on a negative amount (handled by the model's mkCoins)"},
	"sdk.AccAddressFromBech32": {L: "(%1, !validAcc %1)", T: "(Acc × Err)", Arity: 1, Args: []LT{"Acc"}},
	"sdk.ValidateDenom":        {L: "(!validDenom %1)", T: "Err", Arity: 1, Args: []LT{"Denom"}},
	"fmt.Sprint":               {L: "(Go.keyPart %1)", T: "Key", Arity: 1},
	"MustParseRFC3339":         {L: "(Go.parseTime %1)", T: "Time", Arity: 1, Args: []LT{"String"}},
	"math.LegacyNewDec":        {L: "(Dec.ofInt %1)", T: "Dec", Arity: 1, Args: []LT{"Int"}},
	"sdk.NewCoins": {L: "%1", T: "Coin", Arity: 1, Args: []LT{"Coin"},
		Note: "sdk.NewCoins(c) of one coin: a zero coin is dropped, a negative one panics — the interpreter applies the model's mkCoins"},
	"types.SellingReserveAddress": {L: "(Addr.sell (%1).toNat)", T: "Addr", Arity: 1, Args: []LT{"Int"}},
	"types.PayingReserveAddress":  {L: "(Addr.pay (%1).toNat)", T: "Addr", Arity: 1, Args: []LT{"Int"}},
	"types.VestingReserveAddress": {L: "(Addr.vest (%1).toNat)", T: "Addr", Arity: 1, Args: []LT{"Int"}},
	"types.NewBaseAuction": {L: "(Go.newBaseAuction %1 %2 %3 %4 %5 %6 %7 %8 %9 %10 %11 %12 %13)", T: "Auction", Arity: 13,
		Args: []LT{"Int", "AType", "Acc", "Addr", "Addr", "Dec", "Coin", "Denom", "Addr", "List VS", "Time", "List Time", "Status"}},
	"types.NewFixedPriceAuction": {L: "(Go.newFixedPriceAuction %1 %2)", T: "Auction", Arity: 2, Args: []LT{"Auction", "Coin"}},
	"types.NewBatchAuction":      {L: "(Go.newBatchAuction %1 %2 %3 %4 %5)", T: "Auction", Arity: 5, Args: []LT{"Auction", "Dec", "Dec", "Int", "Dec"}},
	"banktypes.NewOutput":        {L: "(BankOut.mk %1 %2)", T: "BankOut", Arity: 2, Args: []LT{"Acc", "Coin"}},
	"banktypes.NewInput":         {L: "(BankIn.mk %1 %2)", T: "BankIn", Arity: 2, Args: []LT{"Addr", "Coin"}},
	"types.NewAllowedBidder":     {L: "(AllowedArg.mk (%1).toNat %2 %3)", T: "AllowedArg", Arity: 3, Args: []LT{"Int", "Acc", "Int"}},
}

var zeroValues = map[string]V{
	"error":    {"false", "Err"},
	"[]string": {"([] : List Acc)", "List Acc"},
	"math.Int": {"(0 : Int)", "Int"}, // nil Int; every use in the translated code assigns before reading
	"int64":    {"(0 : Int)", "Int"},
	"bool":     {"false", "Bool"},
}

var zeroByLean = map[LT]string{
	"Unit": "()", "Int": "(0 : Int)", "Dec": "(0 : Dec)", "Bool": "false", "Err": "false", "Time": "(0 : Int)", "Acc": "(default : Acc)", "BRes": "(default : BRes)", "MState": "(default : MState)", "IOC": "(default : IOC)",
	"Map Dec List Bid": "(fun _ => none)", "List Bid": "[]", "List Dec": "[]", "List VQ": "[]", "List Allowed": "[]", "List AllowedArg": "[]", "List Auction": "[]",
}

type compositeSpec struct {
	T      LT
	Fields map[string]string // Go field -> "leanField := %s" ("" = dropped)
}

var composites = map[string]compositeSpec{
	"QueryAllBidResponse":           {T: "ListBidResp", Fields: map[string]string{"Bid": "bid := %s", "Pagination": ""}},
	"QueryGetBidResponse":           {T: "GetBidResp", Fields: map[string]string{"Bid": "bid := %s"}},
	"QueryAllAuctionResponse":       {T: "ListAuctionResp", Fields: map[string]string{"Auction": "auction := %s", "Pagination": ""}},
	"QueryGetAuctionResponse":       {T: "GetAuctionResp", Fields: map[string]string{"Auction": "auction := %s"}},
	"QueryAllAllowedBidderResponse": {T: "ListAllowedResp", Fields: map[string]string{"AllowedBidder": "allowed := %s", "Pagination": ""}},
	"QueryGetAllowedBidderResponse": {T: "GetAllowedResp", Fields: map[string]string{"AllowedBidder": "allowed := %s"}},
	"QueryAllVestingQueueResponse":  {T: "ListVqResp", Fields: map[string]string{"VestingQueue": "vqs := %s", "Pagination": ""}},
	"Bid": {T: "Bid", Fields: map[string]string{"AuctionId": "auction := (%s).toNat", "Id": "id := (%s).toNat", "Bidder": "bidder := %s",
		"Type": "type := %s", "Price": "price := %s", "Coin": "denom := (%s).denom, amt := (%s).amt", "IsMatched": "matched := %s"}},
	"VestingQueue": {T: "VQ", Fields: map[string]string{"AuctionId": "auction := (%s).toNat", "Auctioneer": "auctioneer := %s",
		"PayingCoin": "denom := (%s).denom, amt := (%s).amt", "ReleaseTime": "release := %s", "Released": "released := %s"}},
	"BidderMatchResult": {T: "BRes", Fields: map[string]string{"PayingAmount": "pay := %s", "MatchedAmount": "matched := %s"}},
	"Coins":             {T: "Coins", Fields: map[string]string{}},
	"inOutCoins":        {T: "IOC", Fields: map[string]string{"bidder": "bidder := %s", "outputs": "outputs := %s", "input": "input := %s"}},
	"LegacyDec":         {T: "Dec", Fields: map[string]string{}},
	"MatchResult": {T: "MState", Fields: map[string]string{"MatchPrice": "price := %s", "MatchedAmount": "total := %s",
		"MatchedBids": "matched := %s", "MatchResultByBidder": "byBidder := %s"}},
	"MatchingInfo": {T: "MInfoG", Fields: map[string]string{"MatchedPrice": "price := %s", "TotalMatchedAmount": "total := %s", "MatchedLen": "matchedLen := %s",
		"AllocationMap": "alloc := %s", "ReservedMatchedMap": "reservedMatched := %s", "RefundMap": "refund := %s"}},
}

var ignoredCalls = map[string]bool{}

// calls that only observe (logging, metrics, printing): statements calling them are skipped
// textTypes: Go types of buffers that only ever hold human-readable text
var textTypes = map[string]bool{"strings.Builder": true, "bytes.Buffer": true}

var ignoredPrefixes = []string{"telemetry.", "fmt.Print", "fmt.Fprint", "log.", "k.Logger", "ctx.Logger", "sdkCtx.Logger", "logger."}

// goTypeNames: Go type expressions (as rendered) -> Lean types, for map literals
var goTypeNames = map[string]LT{"inOutCoins": "IOC", "int64": "Int", "string": "Acc", "math.Int": "Int", "*BidderMatchResult": "BRes", "*types.BidderMatchResult": "BRes", "uint64": "Int", "bool": "Bool"}

// struct types for which a nil pointer result is rendered as the default value
var defaultable = map[LT]bool{"GenesisG": true}

var mutatorNames = map[string]bool{"SetId": true, "SetMatched": true, "SetReleased": true, "SetStatus": true, "SetEndTimes": true}

// assertKinds: `x, ok := auction.(*types.T)` succeeds iff the auction is of this kind
var assertKinds = map[string]string{"BatchAuction": "AType.batch", "FixedPriceAuction": "AType.fixed"}

// mutators: pointer-receiver setters called on a local variable.  %1 = the variable, %2 = the argument
var mutators = map[string]fld{
	"Bid.SetMatched":      {"{ %1 with matched := %2 }", "Bool"},
	"VQ.SetReleased":      {"{ %1 with released := %2 }", "Bool"},
	"Auction.SetId":       {"{ %1 with id := (%2).toNat }", "Int"},
	"Auction.SetStatus":   {"{ %1 with status := %2 }", "Status"},
	"Auction.SetEndTimes": {"{ %1 with endTimes := %2 }", "List Time"},
}

// renderers: how a value is recorded in an effect (GVal)
var renderers = map[LT]string{
	"Int": "GVal.int %s", "Dec": "GVal.int %s", "Time": "GVal.int %s", "Bool": "GVal.bool %s",
	"Denom": "GVal.nat %s", "Acc": "GVal.nat %s", "Nat": "GVal.nat %s", "Coin": "GVal.coin %s", "Bid": "GVal.bid %s",
	"Addr": "GVal.addr %s", "Status": "GVal.status %s", "BidType": "GVal.bidType %s",
	"Auction": "GVal.auction %s", "VQ": "GVal.vq %s", "List Time": "GVal.ints %s",
	"List VS": "GVal.sched %s", "BankIn": "GVal.bankIn %s", "List BankOut": "GVal.bankOuts %s", "Map Acc Int": "GVal.amap %s", "MInfo": "GVal.minfo %s", "Params": "GVal.params %s", "List AllowedArg": "GVal.allowed %s", "AllowedArg": "GVal.allowed1 %s",
	"Coins": "GVal.coins %s",
}

// aliasSpec: a Go variable that is a POINTER obtained from / stored into a map entry
// (`p, ok := base.Field[key.KeyField]; if !ok { p = &T{}; base.Field[…] = p }; p.F = …`):
// every field write through the pointer is written back into the map entry.
type aliasSpec struct {
	Base     string // Go variable holding the struct with the map field
	Field    string // the map field (Go name)
	Key      string // Go variable whose field is the key
	KeyField string // e.g. ".bidder"
}
