package main

// C15: collections of the Keeper and their coverage by Init/ExportGenesis and by
// GenesisState.Validate's duplicate checks.

import (
	"go/ast"
	"go/token"
	"strings"
)

type CollectionRow struct {
	Name         string
	KeyFields    []string
	Exported     bool
	Imported     bool
	DupKeyFields []string
}

var keyFieldsOf = map[string][]string{
	"Params":         {},
	"MatchedBidsLen": {},
	"BidSeq":         {},
	"AuctionSeq":     {},
	"AllowedBidder":  {"AuctionId", "Bidder"},
	"VestingQueue":   {"AuctionId", "ReleaseTime"},
	"Bid":            {"AuctionId", "Id"},
	"Auction":        {"Id"},
}

// collectionFields: fields of `Keeper` whose type is collections.<X> (except Schema).
func (w *World) collectionFields() []string {
	p := w.mustPkg(keeperPkg)
	td, ok := p.types["Keeper"]
	if !ok {
		fatalf("type Keeper not found in x/fundraising/keeper")
	}
	st, ok := td.spec.Type.(*ast.StructType)
	if !ok {
		fatalf("Keeper is not a struct")
	}
	var out []string
	for _, f := range st.Fields.List {
		t := f.Type
		switch x := t.(type) {
		case *ast.IndexExpr:
			t = x.X
		case *ast.IndexListExpr:
			t = x.X
		}
		if s, ok := t.(*ast.StarExpr); ok {
			t = s.X
		}
		sel, ok := t.(*ast.SelectorExpr)
		if !ok {
			continue
		}
		id, ok := sel.X.(*ast.Ident)
		if !ok || td.file.imports[id.Name] != "cosmossdk.io/collections" || sel.Sel.Name == "Schema" {
			continue
		}
		for _, n := range f.Names {
			out = append(out, n.Name)
		}
	}
	return out
}

// keeperParam: the name of the parameter of type keeper.Keeper / Keeper.
func keeperParam(fd *ast.FuncDecl) string {
	for _, f := range fd.Type.Params.List {
		if baseTypeName(f.Type) == "Keeper" && len(f.Names) > 0 {
			return f.Names[0].Name
		}
	}
	return ""
}

// collCalls: set of collection names c such that `<k>.<c>.<m>(` with m in methods occurs
// under n (k any expression when kname == "").
func collCalls(n ast.Node, kname string, methods ...string) map[string]bool {
	out := map[string]bool{}
	ast.Inspect(n, func(m ast.Node) bool {
		c, ok := m.(*ast.CallExpr)
		if !ok {
			return true
		}
		s, ok := unparen(c.Fun).(*ast.SelectorExpr)
		if !ok {
			return true
		}
		hit := false
		for _, mm := range methods {
			if s.Sel.Name == mm {
				hit = true
			}
		}
		if !hit {
			return true
		}
		in, ok := unparen(s.X).(*ast.SelectorExpr)
		if !ok {
			return true
		}
		if kname == "" || isIdent(in.X, kname) {
			out[in.Sel.Name] = true
		}
		return true
	})
	return out
}

func (w *World) collections() []CollectionRow {
	names := w.collectionFields()
	mp := w.mustPkg(modulePkg)
	kp := w.mustPkg(keeperPkg)
	tp := w.mustPkg(typesPkg)

	initG, okI := mp.funcs["InitGenesis"]
	expG, okE := mp.funcs["ExportGenesis"]
	if !okI || !okE {
		fatalf("InitGenesis / ExportGenesis not found in x/fundraising/module")
	}
	exported := map[string]bool{}
	if k := keeperParam(expG.decl); k != "" {
		exported = collCalls(expG.decl.Body, k, "Walk", "Get", "Peek", "Iterate", "IterateRaw")
		// … and what the Keeper methods it calls read (`k.Bids(ctx)`, `k.IterateAuctions(ctx, cb)`), two levels
		var follow func(body *ast.BlockStmt, recv string, depth int)
		follow = func(body *ast.BlockStmt, recv string, depth int) {
			if body == nil || depth > 2 {
				return
			}
			ast.Inspect(body, func(n ast.Node) bool {
				c, ok := n.(*ast.CallExpr)
				if !ok {
					return true
				}
				s, ok := unparen(c.Fun).(*ast.SelectorExpr)
				if !ok || !isIdent(s.X, recv) {
					return true
				}
				if m, ok := kp.methods["Keeper"][s.Sel.Name]; ok && m.decl.Body != nil && len(m.decl.Recv.List[0].Names) > 0 {
					r2 := m.decl.Recv.List[0].Names[0].Name
					for c := range collCalls(m.decl.Body, r2, "Walk", "Get", "Peek", "Iterate", "IterateRaw") {
						exported[c] = true
					}
					follow(m.decl.Body, r2, depth+1)
				}
				return true
			})
		}
		follow(expG.decl.Body, k, 0)
	}
	imported := map[string]bool{}
	// InitGenesis itself, the Keeper methods it calls, and (a long function split into helpers)
	// the functions of its own package it hands the keeper to — two levels deep
	var scan func(fd *ast.FuncDecl, depth int)
	scan = func(fd *ast.FuncDecl, depth int) {
		k := keeperParam(fd)
		if k == "" || fd.Body == nil || depth > 2 {
			return
		}
		for c := range collCalls(fd.Body, k, "Set", "Next") {
			imported[c] = true
		}
		ast.Inspect(fd.Body, func(n ast.Node) bool {
			c, ok := n.(*ast.CallExpr)
			if !ok {
				return true
			}
			if id, ok := unparen(c.Fun).(*ast.Ident); ok {
				if h, ok := mp.funcs[id.Name]; ok && h.decl != fd {
					scan(h.decl, depth+1)
				}
				return true
			}
			s, ok := unparen(c.Fun).(*ast.SelectorExpr)
			if !ok || !isIdent(s.X, k) {
				return true
			}
			if m, ok := kp.methods["Keeper"][s.Sel.Name]; ok && m.decl.Body != nil {
				recv := ""
				if len(m.decl.Recv.List[0].Names) > 0 {
					recv = m.decl.Recv.List[0].Names[0].Name
				}
				if recv != "" {
					for c := range collCalls(m.decl.Body, recv, "Set", "Next") {
						imported[c] = true
					}
				}
			}
			return true
		})
	}
	scan(initG.decl, 0)

	dups := w.dupKeyFields(tp)

	var out []CollectionRow
	for _, n := range names {
		row := CollectionRow{Name: n, KeyFields: []string{"?"}, Exported: exported[n], Imported: imported[n], DupKeyFields: []string{}}
		if kf, ok := keyFieldsOf[n]; ok {
			row.KeyFields = append([]string{}, kf...)
		}
		if d, ok := dups[n]; ok {
			row.DupKeyFields = d
		}
		out = append(out, row)
	}
	return out
}

// dupKeyFields: for each `for _, elem := range gs.<Name>List` in GenesisState.Validate with
// the shape
//
//	[index := <expr>]
//	if _, ok := M[<idx>]; ok { return <error> }
//	M[<idx>] = …
//
// the record fields that flow into <idx>.
func (w *World) dupKeyFields(tp *Pkg) map[string][]string {
	out := map[string][]string{}
	m, ok := tp.methods["GenesisState"]["Validate"]
	if !ok || m.decl.Body == nil {
		return out
	}
	recv := ""
	if len(m.decl.Recv.List[0].Names) > 0 {
		recv = m.decl.Recv.List[0].Names[0].Name
	}
	// the loops over `gs.XList`: in Validate itself, or in a helper of the package that Validate
	// hands `gs.XList` to (a long Validate split into one helper per list)
	type listLoop struct {
		rs   *ast.RangeStmt
		coll string
	}
	var loops []listLoop
	for _, s := range m.decl.Body.List {
		if rs, ok := s.(*ast.RangeStmt); ok {
			if sel, ok := unparen(rs.X).(*ast.SelectorExpr); ok && isIdent(sel.X, recv) && strings.HasSuffix(sel.Sel.Name, "List") {
				loops = append(loops, listLoop{rs, strings.TrimSuffix(sel.Sel.Name, "List")})
			}
			continue
		}
		ast.Inspect(s, func(n ast.Node) bool {
			c, ok := n.(*ast.CallExpr)
			if !ok {
				return true
			}
			id, ok := unparen(c.Fun).(*ast.Ident)
			if !ok {
				return true
			}
			h, ok := tp.funcs[id.Name]
			if !ok || h.decl.Body == nil {
				return true
			}
			hp := paramNames(h.decl.Type.Params)
			for i, a := range c.Args {
				sel, ok := unparen(a).(*ast.SelectorExpr)
				if !ok || !isIdent(sel.X, recv) || !strings.HasSuffix(sel.Sel.Name, "List") || i >= len(hp) {
					continue
				}
				for _, hs := range h.decl.Body.List {
					if rs, ok := hs.(*ast.RangeStmt); ok && isIdent(unparen(rs.X), hp[i]) {
						loops = append(loops, listLoop{rs, strings.TrimSuffix(sel.Sel.Name, "List")})
					}
				}
			}
			return true
		})
	}
	for _, ll := range loops {
		rs, coll := ll.rs, ll.coll
		elem := identName(rs.Value)
		if elem == "" || elem == "_" {
			continue
		}
		// variables derived from the element, in order of definition
		derived := map[string]ast.Expr{}
		isDerived := func(e ast.Expr) bool {
			hit := false
			ast.Inspect(e, func(n ast.Node) bool {
				if id, ok := n.(*ast.Ident); ok {
					if _, d := derived[id.Name]; d || id.Name == elem {
						hit = true
					}
				}
				return !hit
			})
			return hit
		}
		var check *ast.IfStmt
		var idxExpr ast.Expr
		var mapName string
		stored := false
		for _, bs := range rs.Body.List {
			switch x := bs.(type) {
			case *ast.AssignStmt:
				if x.Tok == token.DEFINE && len(x.Rhs) >= 1 {
					for i, l := range x.Lhs {
						if id := identName(l); id != "" && id != "_" && id != "err" {
							r := x.Rhs[0]
							if len(x.Rhs) == len(x.Lhs) {
								r = x.Rhs[i]
							}
							if isDerived(r) {
								derived[id] = r
							}
						}
					}
				}
				if check != nil && x.Tok == token.ASSIGN && len(x.Lhs) == 1 {
					if ix, ok := unparen(x.Lhs[0]).(*ast.IndexExpr); ok && isIdent(ix.X, mapName) && w.render(ix.Index) == w.render(idxExpr) {
						stored = true
					}
				}
			case *ast.IfStmt:
				if check != nil {
					continue
				}
				// if _, ok := M[idx]; ok { return <non-nil> }
				as, ok := x.Init.(*ast.AssignStmt)
				if !ok || as.Tok != token.DEFINE || len(as.Lhs) != 2 || len(as.Rhs) != 1 || x.Else != nil {
					continue
				}
				okName := identName(as.Lhs[1])
				ix, isIx := unparen(as.Rhs[0]).(*ast.IndexExpr)
				if !isIx || okName == "" || !isIdent(x.Cond, okName) || identName(ix.X) == "" {
					continue
				}
				rsl, isRet := singleReturn(x.Body)
				if !isRet || len(rsl) == 0 || isIdent(rsl[len(rsl)-1], "nil") {
					continue
				}
				check, idxExpr, mapName = x, ix.Index, identName(ix.X)
			}
		}
		if check == nil || !stored {
			out[coll] = []string{}
			continue
		}
		// expand a derived index variable once (index := …)
		expr := idxExpr
		if id := identName(expr); id != "" {
			if r, ok := derived[id]; ok {
				expr = r
			}
		}
		fields := []string{}
		seen := map[string]bool{}
		add := func(f string) {
			if !seen[f] {
				seen[f] = true
				fields = append(fields, f)
			}
		}
		isElemVar := func(e ast.Expr) bool {
			id := identName(e)
			if id == "" {
				return false
			}
			_, d := derived[id]
			return d || id == elem
		}
		walkStack(expr, func(n ast.Node, stack []ast.Node) bool {
			s, ok := n.(*ast.SelectorExpr)
			if !ok || !isElemVar(s.X) {
				return true
			}
			// elem.GetX() -> X ; elem.X -> X
			if len(stack) > 0 {
				if c, ok := stack[len(stack)-1].(*ast.CallExpr); ok && c.Fun == ast.Expr(s) {
					if len(c.Args) == 0 && strings.HasPrefix(s.Sel.Name, "Get") && len(s.Sel.Name) > 3 {
						add(strings.TrimPrefix(s.Sel.Name, "Get"))
					} else {
						add("<call " + s.Sel.Name + ">")
					}
					return true
				}
			}
			add(s.Sel.Name)
			return true
		})
		out[coll] = fields
	}
	return out
}
