package main

// Loading: `go list` for the package graph, go/parser for the files, sha256 of every
// file read.  No type checker: everything downstream is syntactic.

import (
	"bytes"
	"crypto/sha256"
	"encoding/hex"
	"fmt"
	"go/ast"
	"go/parser"
	"go/printer"
	"go/token"
	"os"
	"os/exec"
	"path/filepath"
	"sort"
	"strconv"
	"strings"
)

const modulePath = "github.com/tendermint/fundraising"

// File is one parsed Go source file.
type File struct {
	Abs     string
	Rel     string // relative to the repo root ("<modcache>/…" / "<goroot>/…" for files outside)
	AST     *ast.File
	Pkg     *Pkg
	imports map[string]string // local name -> import path
}

type typeDecl struct {
	spec *ast.TypeSpec
	file *File
}

type funcDecl struct {
	decl *ast.FuncDecl
	file *File
}

type varDecl struct {
	spec *ast.ValueSpec
	idx  int
	file *File
}

// Pkg is one package known from `go list`; parsed lazily.
type Pkg struct {
	Path    string
	Dir     string
	Name    string
	GoFiles []string
	Linked  bool // in the dependency closure of ./cmd/fundraisingd

	loaded  bool
	Files   []*File
	types   map[string]typeDecl
	funcs   map[string]funcDecl
	methods map[string]map[string]funcDecl // receiver base type name -> method name
	vars    map[string]varDecl
}

type World struct {
	repo     string
	modcache string
	goroot   string
	fset     *token.FileSet
	pkgs     map[string]*Pkg
	hashes   map[string]string // rel path -> sha256
	locals   map[*ast.FuncDecl][]localDecl
}

func newWorld(repo string) (*World, error) {
	abs, err := filepath.Abs(repo)
	if err != nil {
		return nil, err
	}
	if r, err := filepath.EvalSymlinks(abs); err == nil {
		abs = r
	}
	w := &World{
		repo:   abs,
		fset:   token.NewFileSet(),
		pkgs:   map[string]*Pkg{},
		hashes: map[string]string{},
		locals: map[*ast.FuncDecl][]localDecl{},
	}
	out, err := w.goCmd("env", "GOMODCACHE", "GOROOT")
	if err != nil {
		return nil, err
	}
	lines := strings.Split(strings.TrimSpace(out), "\n")
	if len(lines) >= 2 {
		w.modcache = strings.TrimSpace(lines[0])
		w.goroot = strings.TrimSpace(lines[1])
	}
	return w, nil
}

func (w *World) goCmd(args ...string) (string, error) {
	cmd := exec.Command("go", args...)
	cmd.Dir = w.repo
	var stdout, stderr bytes.Buffer
	cmd.Stdout = &stdout
	cmd.Stderr = &stderr
	if err := cmd.Run(); err != nil {
		return "", fmt.Errorf("go %s: %v\n%s", strings.Join(args, " "), err, stderr.String())
	}
	return stdout.String(), nil
}

// goList runs `go list -deps` on the patterns and records the packages.
func (w *World) goList(linked bool, patterns ...string) error {
	const f = "{{.ImportPath}}\t{{.Dir}}\t{{.Name}}\t{{join .GoFiles \",\"}}\t{{join .CgoFiles \",\"}}"
	args := append([]string{"list", "-deps", "-f", f}, patterns...)
	out, err := w.goCmd(args...)
	if err != nil {
		return err
	}
	for _, line := range strings.Split(out, "\n") {
		if strings.TrimSpace(line) == "" {
			continue
		}
		parts := strings.Split(line, "\t")
		if len(parts) < 5 {
			return fmt.Errorf("unexpected `go list` line %q", line)
		}
		p, ok := w.pkgs[parts[0]]
		if !ok {
			p = &Pkg{Path: parts[0], Dir: parts[1], Name: parts[2]}
			for _, fs := range parts[3:5] {
				if fs != "" {
					p.GoFiles = append(p.GoFiles, strings.Split(fs, ",")...)
				}
			}
			sort.Strings(p.GoFiles)
			w.pkgs[p.Path] = p
		}
		if linked {
			p.Linked = true
		}
	}
	return nil
}

func (w *World) relName(abs string) string {
	if rel, err := filepath.Rel(w.repo, abs); err == nil && !strings.HasPrefix(rel, "..") {
		return filepath.ToSlash(rel)
	}
	if w.modcache != "" {
		if rel, err := filepath.Rel(w.modcache, abs); err == nil && !strings.HasPrefix(rel, "..") {
			return "<modcache>/" + filepath.ToSlash(rel)
		}
	}
	if w.goroot != "" {
		if rel, err := filepath.Rel(w.goroot, abs); err == nil && !strings.HasPrefix(rel, "..") {
			return "<goroot>/" + filepath.ToSlash(rel)
		}
	}
	return filepath.ToSlash(abs)
}

// readFile reads a file and records its hash in sourceFiles.
func (w *World) readFile(abs string) ([]byte, error) {
	b, err := os.ReadFile(abs)
	if err != nil {
		return nil, err
	}
	sum := sha256.Sum256(b)
	w.hashes[w.relName(abs)] = hex.EncodeToString(sum[:])
	return b, nil
}

func (w *World) repoFile(rel string) ([]byte, error) {
	return w.readFile(filepath.Join(w.repo, filepath.FromSlash(rel)))
}

// pkg returns the (parsed) package with the given import path, or nil.
func (w *World) pkg(path string) *Pkg {
	p := w.pkgs[path]
	if p == nil {
		return nil
	}
	if !p.loaded {
		if err := w.load(p); err != nil {
			fatalf("loading %s: %v", path, err)
		}
	}
	return p
}

func (w *World) mustPkg(path string) *Pkg {
	p := w.pkg(path)
	if p == nil {
		fatalf("package %s is not in `go list -deps` output", path)
	}
	return p
}

func (w *World) load(p *Pkg) error {
	p.loaded = true
	p.types = map[string]typeDecl{}
	p.funcs = map[string]funcDecl{}
	p.methods = map[string]map[string]funcDecl{}
	p.vars = map[string]varDecl{}
	for _, name := range p.GoFiles {
		abs := filepath.Join(p.Dir, name)
		src, err := w.readFile(abs)
		if err != nil {
			return err
		}
		af, err := parser.ParseFile(w.fset, abs, src, parser.ParseComments|parser.SkipObjectResolution)
		if err != nil {
			return err
		}
		f := &File{Abs: abs, Rel: w.relName(abs), AST: af, Pkg: p, imports: map[string]string{}}
		for _, is := range af.Imports {
			ipath, err := strconv.Unquote(is.Path.Value)
			if err != nil {
				continue
			}
			local := ""
			if is.Name != nil {
				local = is.Name.Name
			} else if q := w.pkgs[ipath]; q != nil {
				local = q.Name
			} else {
				local = ipath[strings.LastIndex(ipath, "/")+1:]
			}
			if local != "_" && local != "." {
				f.imports[local] = ipath
			}
		}
		p.Files = append(p.Files, f)
		for _, d := range af.Decls {
			switch d := d.(type) {
			case *ast.FuncDecl:
				if d.Recv == nil || len(d.Recv.List) == 0 {
					if _, dup := p.funcs[d.Name.Name]; !dup {
						p.funcs[d.Name.Name] = funcDecl{d, f}
					}
					continue
				}
				rn := baseTypeName(d.Recv.List[0].Type)
				if p.methods[rn] == nil {
					p.methods[rn] = map[string]funcDecl{}
				}
				if _, dup := p.methods[rn][d.Name.Name]; !dup {
					p.methods[rn][d.Name.Name] = funcDecl{d, f}
				}
			case *ast.GenDecl:
				for _, s := range d.Specs {
					switch s := s.(type) {
					case *ast.TypeSpec:
						if _, dup := p.types[s.Name.Name]; !dup {
							p.types[s.Name.Name] = typeDecl{s, f}
						}
					case *ast.ValueSpec:
						for i, n := range s.Names {
							if _, dup := p.vars[n.Name]; !dup {
								p.vars[n.Name] = varDecl{s, i, f}
							}
						}
					}
				}
			}
		}
	}
	return nil
}

// file returns the parsed file with the given base name in the package, or nil.
func (p *Pkg) file(base string) *File {
	for _, f := range p.Files {
		if filepath.Base(f.Abs) == base {
			return f
		}
	}
	return nil
}

func isGenerated(name string) bool {
	return strings.HasSuffix(name, ".pb.go") || strings.HasSuffix(name, ".pb.gw.go") ||
		strings.HasSuffix(name, ".pulsar.go")
}

// ---------------------------------------------------------------- ast helpers

func unparen(e ast.Expr) ast.Expr {
	for {
		p, ok := e.(*ast.ParenExpr)
		if !ok {
			return e
		}
		e = p.X
	}
}

// baseTypeName: T, *T, T[...], pkg.T -> "T"
func baseTypeName(e ast.Expr) string {
	switch x := unparen(e).(type) {
	case *ast.Ident:
		return x.Name
	case *ast.StarExpr:
		return baseTypeName(x.X)
	case *ast.IndexExpr:
		return baseTypeName(x.X)
	case *ast.IndexListExpr:
		return baseTypeName(x.X)
	case *ast.SelectorExpr:
		return x.Sel.Name
	}
	return ""
}

func isIdent(e ast.Expr, name string) bool {
	id, ok := unparen(e).(*ast.Ident)
	return ok && id.Name == name
}

func identName(e ast.Expr) string {
	if e == nil {
		return ""
	}
	if id, ok := unparen(e).(*ast.Ident); ok {
		return id.Name
	}
	return ""
}

// render prints a node on one line.
func (w *World) render(n ast.Node) string {
	if n == nil {
		return ""
	}
	var buf bytes.Buffer
	if err := printer.Fprint(&buf, w.fset, n); err != nil {
		return "<unprintable>"
	}
	return strings.Join(strings.Fields(buf.String()), " ")
}

// walkStack is ast.Inspect with the stack of ancestors (not including n).
func walkStack(root ast.Node, fn func(n ast.Node, stack []ast.Node) bool) {
	var stack []ast.Node
	ast.Inspect(root, func(n ast.Node) bool {
		if n == nil {
			stack = stack[:len(stack)-1]
			return true
		}
		if !fn(n, stack) {
			return false
		}
		stack = append(stack, n)
		return true
	})
}

// mentions reports whether the identifier occurs anywhere under n.
func mentions(n ast.Node, name string) bool {
	found := false
	ast.Inspect(n, func(m ast.Node) bool {
		if id, ok := m.(*ast.Ident); ok && id.Name == name {
			found = true
		}
		return !found
	})
	return found
}

// paramNames lists all parameter names of a field list, expanding groups.
func paramNames(fl *ast.FieldList) []string {
	var out []string
	if fl == nil {
		return out
	}
	for _, f := range fl.List {
		if len(f.Names) == 0 {
			out = append(out, "_")
			continue
		}
		for _, n := range f.Names {
			out = append(out, n.Name)
		}
	}
	return out
}

func fatalf(format string, args ...any) {
	fmt.Fprintf(os.Stderr, "extract: "+format+"\n", args...)
	os.Exit(1)
}
