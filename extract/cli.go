package main

// C20: AutoCLI command descriptors (module/autocli.go) and the rpc / request-message
// descriptors of the .proto files.

import (
	"fmt"
	"go/ast"
	"go/token"
	"strconv"
	"strings"
)

type CliCmd struct {
	Service     string
	Rpc         string
	Use         string
	Skip        bool
	Positional  []string
	Varargs     []bool
	Optional    []bool
	Conditional bool
	// FlagOptions of the command: the proto fields it configures, those it gives a
	// DefaultValue (sent although the user typed nothing), and the RpcCommandOptions keys
	// this extractor does not know to be cosmetic
	FlagFields   []string
	FlagDefaults []string
	OtherKeys    []string
}

type RpcDesc struct {
	Service string
	Rpc     string
	Request string
	Fields  []string
	// Repeated lists the fields of the request message declared `repeated`
	Repeated []string
}

func (w *World) strValue(e ast.Expr) string {
	if bl, ok := unparen(e).(*ast.BasicLit); ok && bl.Kind == token.STRING {
		if s, err := strconv.Unquote(bl.Value); err == nil {
			return s
		}
	}
	return "<expr " + w.render(e) + ">"
}

func boolValue(e ast.Expr) bool { return isIdent(e, "true") }

func isSwitchCond(e ast.Expr) bool {
	switch x := unparen(e).(type) {
	case *ast.Ident:
		return x.Name == "EnableAddAllowedBidder"
	case *ast.SelectorExpr:
		return x.Sel.Name == "EnableAddAllowedBidder"
	}
	return false
}

// serviceOfSelector: moduloOpts.Tx.RpcCommandOptions -> "Msg", ….Query.… -> "Query"
func serviceOfSelector(e ast.Expr) string {
	for {
		s, ok := unparen(e).(*ast.SelectorExpr)
		if !ok {
			return ""
		}
		switch s.Sel.Name {
		case "Tx":
			return "Msg"
		case "Query":
			return "Query"
		}
		e = s.X
	}
}

func (w *World) cliCmds() []CliCmd {
	p := w.mustPkg(modulePkg)
	f := p.file("autocli.go")
	if f == nil {
		fatalf("x/fundraising/module/autocli.go not found")
	}
	var out []CliCmd
	isOptsType := func(e ast.Expr) bool { return e != nil && baseTypeName(e) == "RpcCommandOptions" }
	walkStack(f.AST, func(n ast.Node, stack []ast.Node) bool {
		cl, ok := n.(*ast.CompositeLit)
		if !ok {
			return true
		}
		is := false
		if cl.Type != nil {
			if _, isArr := cl.Type.(*ast.ArrayType); !isArr {
				is = isOptsType(cl.Type)
			}
		} else if len(stack) > 0 {
			if parent, ok := stack[len(stack)-1].(*ast.CompositeLit); ok {
				if at, ok := parent.Type.(*ast.ArrayType); ok {
					is = isOptsType(at.Elt)
				}
			}
		}
		if !is {
			return true
		}
		cmd := CliCmd{Service: "?", Positional: []string{}, Varargs: []bool{}, Optional: []bool{}}
		// context: service and condition
		for i := len(stack) - 1; i >= 0; i-- {
			switch a := stack[i].(type) {
			case *ast.KeyValueExpr:
				if cmd.Service == "?" {
					switch identName(a.Key) {
					case "Query":
						cmd.Service = "Query"
					case "Tx":
						cmd.Service = "Msg"
					case "SubCommands":
						cmd.Service = "?subcommand"
					}
				}
			case *ast.AssignStmt:
				if cmd.Service == "?" && len(a.Lhs) == 1 {
					if s := serviceOfSelector(a.Lhs[0]); s != "" {
						cmd.Service = s
					}
				}
			case *ast.IfStmt:
				if isSwitchCond(a.Cond) && i+1 < len(stack) && stack[i+1] == ast.Node(a.Body) {
					cmd.Conditional = true
				}
			}
		}
		for _, el := range cl.Elts {
			kv, ok := el.(*ast.KeyValueExpr)
			if !ok {
				continue
			}
			switch k := identName(kv.Key); k {
			case "RpcMethod", "Use", "Skip", "Short", "Long", "Example", "Alias", "SuggestFor", "Deprecated", "Version", "FlagOptions", "PositionalArgs":
			default:
				cmd.OtherKeys = append(cmd.OtherKeys, k)
			}
			switch identName(kv.Key) {
			case "RpcMethod":
				cmd.Rpc = w.strValue(kv.Value)
			case "Use":
				cmd.Use = w.strValue(kv.Value)
			case "Skip":
				cmd.Skip = boolValue(kv.Value)
			case "Short", "Long", "Example", "Alias", "SuggestFor", "Deprecated", "Version":
				// cosmetic
			case "FlagOptions":
				fl, ok := unparen(kv.Value).(*ast.CompositeLit)
				if !ok {
					cmd.OtherKeys = append(cmd.OtherKeys, "FlagOptions:<expr>")
					continue
				}
				for _, fe := range fl.Elts {
					fkv, ok := fe.(*ast.KeyValueExpr)
					if !ok {
						cmd.OtherKeys = append(cmd.OtherKeys, "FlagOptions:<elt>")
						continue
					}
					name := w.strValue(fkv.Key)
					cmd.FlagFields = append(cmd.FlagFields, name)
					fv := fkv.Value
					if u, ok := fv.(*ast.UnaryExpr); ok && u.Op == token.AND {
						fv = u.X
					}
					fo, ok := fv.(*ast.CompositeLit)
					if !ok {
						cmd.FlagDefaults = append(cmd.FlagDefaults, name) // cannot see: assume the worst
						continue
					}
					for _, oe := range fo.Elts {
						okv, ok := oe.(*ast.KeyValueExpr)
						if !ok {
							cmd.FlagDefaults = append(cmd.FlagDefaults, name)
							continue
						}
						if identName(okv.Key) == "DefaultValue" {
							if bl, ok := okv.Value.(*ast.BasicLit); !ok || bl.Value != `""` {
								cmd.FlagDefaults = append(cmd.FlagDefaults, name)
							}
						}
					}
				}
			case "PositionalArgs":
				args, ok := unparen(kv.Value).(*ast.CompositeLit)
				if !ok {
					cmd.Positional = append(cmd.Positional, "<expr "+w.render(kv.Value)+">")
					continue
				}
				for _, a := range args.Elts {
					if u, ok := a.(*ast.UnaryExpr); ok && u.Op == token.AND {
						a = u.X
					}
					al, ok := a.(*ast.CompositeLit)
					if !ok {
						cmd.Positional = append(cmd.Positional, "<expr "+w.render(a)+">")
						cmd.Varargs = append(cmd.Varargs, false)
						cmd.Optional = append(cmd.Optional, false)
						continue
					}
					field, va, opt := "", false, false
					for _, e := range al.Elts {
						akv, ok := e.(*ast.KeyValueExpr)
						if !ok {
							continue
						}
						switch identName(akv.Key) {
						case "ProtoField":
							field = w.strValue(akv.Value)
						case "Varargs":
							va = boolValue(akv.Value)
						case "Optional":
							opt = boolValue(akv.Value)
						}
					}
					cmd.Positional = append(cmd.Positional, field)
					cmd.Varargs = append(cmd.Varargs, va)
					cmd.Optional = append(cmd.Optional, opt)
				}
			}
		}
		out = append(out, cmd)
		return false // do not descend (SubCommands etc. are not modelled)
	})
	return out
}

// ------------------------------------------------------------------ .proto scanner

func protoTokens(src string) []string {
	var toks []string
	i := 0
	isWord := func(c byte) bool {
		return c == '_' || c == '.' || (c >= '0' && c <= '9') || (c >= 'a' && c <= 'z') || (c >= 'A' && c <= 'Z')
	}
	for i < len(src) {
		c := src[i]
		switch {
		case c == ' ' || c == '\t' || c == '\n' || c == '\r':
			i++
		case c == '/' && i+1 < len(src) && src[i+1] == '/':
			for i < len(src) && src[i] != '\n' {
				i++
			}
		case c == '/' && i+1 < len(src) && src[i+1] == '*':
			j := strings.Index(src[i+2:], "*/")
			if j < 0 {
				i = len(src)
			} else {
				i += 2 + j + 2
			}
		case c == '"' || c == '\'':
			j := i + 1
			for j < len(src) && src[j] != c {
				if src[j] == '\\' {
					j++
				}
				j++
			}
			toks = append(toks, "\"str\"")
			i = j + 1
		case isWord(c):
			j := i
			for j < len(src) && isWord(src[j]) {
				j++
			}
			toks = append(toks, src[i:j])
			i = j
		default:
			toks = append(toks, string(c))
			i++
		}
	}
	return toks
}

type protoFile struct {
	rpcs     []RpcDesc // Fields not yet filled
	messages map[string][]string
	// repeated: per message, its fields declared `repeated`; repeatedFields: scratch while
	// a message body is being parsed
	repeated       map[string][]string
	repeatedFields map[string]bool
}

func lastComponent(s string) string { return s[strings.LastIndex(s, ".")+1:] }

func parseProto(src string) (*protoFile, error) {
	t := protoTokens(src)
	pf := &protoFile{messages: map[string][]string{}, repeated: map[string][]string{}, repeatedFields: map[string]bool{}}
	i := 0
	// skipBalanced: t[i] == "{" ; returns index after the matching "}"
	skipBalanced := func(i int) int {
		depth := 0
		for ; i < len(t); i++ {
			switch t[i] {
			case "{":
				depth++
			case "}":
				depth--
				if depth == 0 {
					return i + 1
				}
			}
		}
		return i
	}
	skipStmt := func(i int) int { // to after the next ";" at depth 0, or a balanced block
		depth := 0
		for ; i < len(t); i++ {
			switch t[i] {
			case "{", "[", "(":
				depth++
			case "}", "]", ")":
				depth--
			case ";":
				if depth <= 0 {
					return i + 1
				}
			}
		}
		return i
	}
	var parseMessage func(i int, name string) (int, error)
	// parseBody parses field statements until the matching "}", appending field names
	var parseBody func(i int, fields *[]string) (int, error)
	parseBody = func(i int, fields *[]string) (int, error) {
		for i < len(t) {
			switch t[i] {
			case "}":
				return i + 1, nil
			case ";":
				i++
			case "option", "reserved", "extensions":
				i = skipStmt(i)
			case "enum", "extend":
				for i < len(t) && t[i] != "{" {
					i++
				}
				i = skipBalanced(i)
			case "message":
				if i+2 >= len(t) || t[i+2] != "{" {
					return i, fmt.Errorf("malformed nested message near token %d", i)
				}
				var err error
				if i, err = parseMessage(i+3, t[i+1]); err != nil {
					return i, err
				}
			case "oneof":
				if i+2 >= len(t) || t[i+2] != "{" {
					return i, fmt.Errorf("malformed oneof near token %d", i)
				}
				var err error
				if i, err = parseBody(i+3, fields); err != nil {
					return i, err
				}
			default:
				// a field: … name = N [ … ] ;
				depth, name := 0, ""
				j := i
			field:
				for ; j < len(t); j++ {
					switch t[j] {
					case "[", "(", "{":
						depth++
					case "]", ")", "}":
						depth--
					case "=":
						if depth == 0 && name == "" && j > i {
							name = t[j-1]
						}
					case ";":
						if depth <= 0 {
							break field
						}
					}
				}
				if name == "" {
					return j, fmt.Errorf("cannot find a field name in statement starting at %q", t[i])
				}
				*fields = append(*fields, name)
				if t[i] == "repeated" {
					pf.repeatedFields[name] = true
				}
				i = j + 1
			}
		}
		return i, fmt.Errorf("unterminated message body")
	}
	parseMessage = func(i int, name string) (int, error) {
		fields := []string{}
		j, err := parseBody(i, &fields)
		if err != nil {
			return j, fmt.Errorf("message %s: %v", name, err)
		}
		pf.messages[lastComponent(name)] = fields
		rep := []string{}
		for _, f := range fields {
			if pf.repeatedFields[f] {
				rep = append(rep, f)
			}
		}
		pf.repeated[lastComponent(name)] = rep
		pf.repeatedFields = map[string]bool{}
		return j, nil
	}
	for i < len(t) {
		switch t[i] {
		case "service":
			if i+2 >= len(t) || t[i+2] != "{" {
				return nil, fmt.Errorf("malformed service")
			}
			svc := t[i+1]
			i += 3
			for i < len(t) && t[i] != "}" {
				switch t[i] {
				case "rpc":
					// rpc Name ( [stream] Req ) returns ( [stream] Resp ) ; | { … }
					j := i + 1
					if j+1 >= len(t) || t[j+1] != "(" {
						return nil, fmt.Errorf("malformed rpc in service %s", svc)
					}
					name := t[j]
					j += 2
					if j < len(t) && t[j] == "stream" {
						j++
					}
					if j+1 >= len(t) || t[j+1] != ")" {
						return nil, fmt.Errorf("malformed rpc %s.%s", svc, name)
					}
					pf.rpcs = append(pf.rpcs, RpcDesc{Service: svc, Rpc: name, Request: lastComponent(t[j])})
					// skip to the end of the rpc statement
					for j < len(t) && t[j] != ";" && t[j] != "{" {
						j++
					}
					if j < len(t) && t[j] == "{" {
						i = skipBalanced(j)
						if i < len(t) && t[i] == ";" {
							i++
						}
					} else {
						i = j + 1
					}
				case "option":
					i = skipStmt(i)
				default:
					i++
				}
			}
			i++
		case "message":
			if i+2 >= len(t) || t[i+2] != "{" {
				return nil, fmt.Errorf("malformed message")
			}
			var err error
			if i, err = parseMessage(i+3, t[i+1]); err != nil {
				return nil, err
			}
		case "enum", "extend":
			for i < len(t) && t[i] != "{" {
				i++
			}
			i = skipBalanced(i)
		default:
			i = skipStmt(i)
		}
	}
	return pf, nil
}

func (w *World) rpcs() []RpcDesc {
	var out []RpcDesc
	messages := map[string][]string{}
	repeated := map[string][]string{}
	var files []*protoFile
	for _, rel := range []string{
		"proto/fundraising/fundraising/v1/query.proto",
		"proto/fundraising/fundraising/v1/tx.proto",
	} {
		src, err := w.repoFile(rel)
		if err != nil {
			fatalf("%v", err)
		}
		pf, err := parseProto(string(src))
		if err != nil {
			fatalf("%s: %v", rel, err)
		}
		files = append(files, pf)
		for k, v := range pf.messages {
			messages[k] = v
		}
		for k, v := range pf.repeated {
			repeated[k] = v
		}
	}
	for _, pf := range files {
		for _, r := range pf.rpcs {
			if fs, ok := messages[r.Request]; ok {
				r.Fields = fs
				r.Repeated = repeated[r.Request]
				if r.Repeated == nil {
					r.Repeated = []string{}
				}
			} else {
				// request message not defined in these files: no field can resolve
				r.Fields = []string{}
				r.Repeated = []string{}
				r.Request = "<undefined " + r.Request + ">"
			}
			out = append(out, r)
		}
	}
	return out
}
