package main

// A small *syntactic* type resolver: given an expression inside a function, find the
// type expression it was declared with (parameters, `var`, `:=` from composite literals /
// make / calls of functions and methods whose declarations we can find, struct fields,
// interface methods, range variables), following named types across packages by parsing
// the package directory reported by `go list`.  It answers "unknown" whenever it cannot
// follow a step; callers must treat "unknown" pessimistically.

import (
	"go/ast"
	"go/token"
)

// TypeRef is a type expression together with the file it is written in (for resolving
// identifiers and import names).  F == nil only for synthesised predeclared types.
type TypeRef struct {
	E ast.Expr
	F *File
}

// Scope is where an expression is evaluated.
type Scope struct {
	F  *File
	Fn *ast.FuncDecl // nil outside functions
}

var predeclared = map[string]bool{
	"bool": true, "string": true, "error": true, "any": true, "byte": true, "rune": true,
	"int": true, "int8": true, "int16": true, "int32": true, "int64": true,
	"uint": true, "uint8": true, "uint16": true, "uint32": true, "uint64": true, "uintptr": true,
	"float32": true, "float64": true, "complex64": true, "complex128": true,
}

func basic(name string) []TypeRef { return []TypeRef{{E: &ast.Ident{Name: name}}} }

const maxDepth = 60

// ------------------------------------------------------------------ local declarations

const (
	kField = iota
	kAssign
	kRangeKey
	kRangeVal
	kUnknown
)

type localDecl struct {
	name     string
	pos      token.Pos // in scope from here …
	lo, hi   token.Pos // … within this node
	kind     int
	typ      ast.Expr // kField
	variadic bool
	rhs      ast.Expr // kAssign
	idx      int      // kAssign: -1 = the value itself, i = i-th result of a tuple
	rng      ast.Expr // kRange*
}

func isScopeNode(n ast.Node) bool {
	switch n.(type) {
	case *ast.BlockStmt, *ast.IfStmt, *ast.ForStmt, *ast.RangeStmt, *ast.SwitchStmt,
		*ast.TypeSwitchStmt, *ast.CaseClause, *ast.CommClause, *ast.FuncLit, *ast.FuncDecl:
		return true
	}
	return false
}

func (w *World) localsOf(fn *ast.FuncDecl) []localDecl {
	if ds, ok := w.locals[fn]; ok {
		return ds
	}
	var out []localDecl
	addFields := func(fl *ast.FieldList, lo, hi token.Pos) {
		if fl == nil {
			return
		}
		for _, f := range fl.List {
			for _, n := range f.Names {
				d := localDecl{name: n.Name, pos: lo, lo: lo, hi: hi, kind: kField, typ: f.Type}
				if el, ok := f.Type.(*ast.Ellipsis); ok {
					d.typ = &ast.ArrayType{Elt: el.Elt}
					d.variadic = true
				}
				out = append(out, d)
			}
		}
	}
	addFields(fn.Recv, fn.Pos(), fn.End())
	addFields(fn.Type.Params, fn.Pos(), fn.End())
	addFields(fn.Type.Results, fn.Pos(), fn.End())
	if fn.Body != nil {
		walkStack(fn.Body, func(n ast.Node, stack []ast.Node) bool {
			var scope ast.Node = fn
			for i := len(stack) - 1; i >= 0; i-- {
				if isScopeNode(stack[i]) {
					scope = stack[i]
					break
				}
			}
			switch x := n.(type) {
			case *ast.FuncLit:
				addFields(x.Type.Params, x.Pos(), x.End())
				addFields(x.Type.Results, x.Pos(), x.End())
			case *ast.AssignStmt:
				if x.Tok != token.DEFINE {
					break
				}
				_, inTypeSwitch := scope.(*ast.TypeSwitchStmt)
				for i, l := range x.Lhs {
					id, ok := l.(*ast.Ident)
					if !ok || id.Name == "_" {
						continue
					}
					d := localDecl{name: id.Name, pos: x.End(), lo: scope.Pos(), hi: scope.End(), kind: kAssign}
					switch {
					case inTypeSwitch:
						d.kind = kUnknown
					case len(x.Rhs) == len(x.Lhs):
						d.rhs, d.idx = x.Rhs[i], -1
					case len(x.Rhs) == 1:
						d.rhs, d.idx = x.Rhs[0], i
					default:
						d.kind = kUnknown
					}
					out = append(out, d)
				}
			case *ast.DeclStmt:
				gd, ok := x.Decl.(*ast.GenDecl)
				if !ok || (gd.Tok != token.VAR && gd.Tok != token.CONST) {
					break
				}
				for _, s := range gd.Specs {
					vs, ok := s.(*ast.ValueSpec)
					if !ok {
						continue
					}
					for i, id := range vs.Names {
						d := localDecl{name: id.Name, pos: x.End(), lo: scope.Pos(), hi: scope.End()}
						switch {
						case vs.Type != nil:
							d.kind, d.typ = kField, vs.Type
						case len(vs.Values) == len(vs.Names):
							d.kind, d.rhs, d.idx = kAssign, vs.Values[i], -1
						case len(vs.Values) == 1:
							d.kind, d.rhs, d.idx = kAssign, vs.Values[0], i
						default:
							d.kind = kUnknown
						}
						out = append(out, d)
					}
				}
			case *ast.RangeStmt:
				if x.Tok != token.DEFINE {
					break
				}
				if id, ok := x.Key.(*ast.Ident); ok && id.Name != "_" {
					out = append(out, localDecl{name: id.Name, pos: x.Body.Pos(), lo: x.Pos(), hi: x.End(), kind: kRangeKey, rng: x.X})
				}
				if id, ok := x.Value.(*ast.Ident); ok && id.Name != "_" {
					out = append(out, localDecl{name: id.Name, pos: x.Body.Pos(), lo: x.Pos(), hi: x.End(), kind: kRangeVal, rng: x.X})
				}
			}
			return true
		})
	}
	w.locals[fn] = out
	return out
}

// lookupLocal finds the innermost declaration of name visible at pos.
func (w *World) lookupLocal(sc *Scope, name string, pos token.Pos) *localDecl {
	if sc == nil || sc.Fn == nil {
		return nil
	}
	ds := w.localsOf(sc.Fn)
	var best *localDecl
	for i := range ds {
		d := &ds[i]
		if d.name != name || d.pos > pos || pos < d.lo || pos >= d.hi {
			continue
		}
		if best == nil || d.pos >= best.pos {
			best = d
		}
	}
	return best
}

// ------------------------------------------------------------------ named types

// namedOf: the declaration of the named type t refers to (through parens, pointers are
// NOT stripped, generic instantiation is).
func (w *World) namedOf(t TypeRef) (typeDecl, bool) {
	if t.F == nil {
		return typeDecl{}, false
	}
	switch x := unparen(t.E).(type) {
	case *ast.Ident:
		if td, ok := t.F.Pkg.types[x.Name]; ok {
			return td, true
		}
	case *ast.SelectorExpr:
		if id, ok := x.X.(*ast.Ident); ok {
			if ipath, ok := t.F.imports[id.Name]; ok {
				if p := w.pkg(ipath); p != nil {
					if td, ok := p.types[x.Sel.Name]; ok {
						return td, true
					}
				}
			}
		}
	case *ast.IndexExpr:
		return w.namedOf(TypeRef{x.X, t.F})
	case *ast.IndexListExpr:
		return w.namedOf(TypeRef{x.X, t.F})
	}
	return typeDecl{}, false
}

// underlying follows names to a type literal (or a predeclared identifier).
func (w *World) underlying(t TypeRef) (TypeRef, bool) {
	for i := 0; i < maxDepth; i++ {
		if t.E == nil {
			return t, false
		}
		switch x := unparen(t.E).(type) {
		case *ast.MapType, *ast.ArrayType, *ast.StructType, *ast.InterfaceType, *ast.StarExpr,
			*ast.FuncType, *ast.ChanType:
			return TypeRef{x.(ast.Expr), t.F}, true
		case *ast.Ellipsis:
			return TypeRef{&ast.ArrayType{Elt: x.Elt}, t.F}, true
		case *ast.Ident:
			if td, ok := w.namedOf(t); ok {
				t = TypeRef{td.spec.Type, td.file}
				continue
			}
			if predeclared[x.Name] {
				return TypeRef{x, nil}, true
			}
			return t, false
		case *ast.SelectorExpr, *ast.IndexExpr, *ast.IndexListExpr:
			td, ok := w.namedOf(t)
			if !ok {
				return t, false
			}
			t = TypeRef{td.spec.Type, td.file}
		default:
			return t, false
		}
	}
	return t, false
}

func stripPtr(t TypeRef) TypeRef {
	if s, ok := unparen(t.E).(*ast.StarExpr); ok {
		return TypeRef{s.X, t.F}
	}
	return t
}

// declaredIn: the import path of the package in which the named type of t is declared
// (after stripping one pointer), and its name.
func (w *World) declaredIn(t TypeRef) (string, string) {
	td, ok := w.namedOf(stripPtr(t))
	if !ok {
		return "", ""
	}
	return td.file.Pkg.Path, td.spec.Name.Name
}

func (w *World) lookupField(t TypeRef, name string, depth int) (TypeRef, bool) {
	if depth > 8 {
		return TypeRef{}, false
	}
	t = stripPtr(t)
	u, ok := w.underlying(t)
	if !ok {
		return TypeRef{}, false
	}
	st, ok := u.E.(*ast.StructType)
	if !ok {
		return TypeRef{}, false
	}
	for _, f := range st.Fields.List {
		for _, n := range f.Names {
			if n.Name == name {
				return TypeRef{f.Type, u.F}, true
			}
		}
		if len(f.Names) == 0 && baseTypeName(f.Type) == name {
			return TypeRef{f.Type, u.F}, true
		}
	}
	for _, f := range st.Fields.List {
		if len(f.Names) == 0 {
			if r, ok := w.lookupField(TypeRef{f.Type, u.F}, name, depth+1); ok {
				return r, true
			}
		}
	}
	return TypeRef{}, false
}

// lookupMethod finds the signature of method name on t (declared methods, interface
// methods, methods promoted from embedded fields).
func (w *World) lookupMethod(t TypeRef, name string, depth int) (*ast.FuncType, *File, bool) {
	if depth > 8 {
		return nil, nil, false
	}
	t = stripPtr(t)
	if td, ok := w.namedOf(t); ok {
		if ms := td.file.Pkg.methods[td.spec.Name.Name]; ms != nil {
			if fd, ok := ms[name]; ok {
				return fd.decl.Type, fd.file, true
			}
		}
	}
	u, ok := w.underlying(t)
	if !ok {
		return nil, nil, false
	}
	switch x := u.E.(type) {
	case *ast.InterfaceType:
		for _, f := range x.Methods.List {
			for _, n := range f.Names {
				if n.Name == name {
					if ft, ok := f.Type.(*ast.FuncType); ok {
						return ft, u.F, true
					}
				}
			}
		}
		for _, f := range x.Methods.List {
			if len(f.Names) == 0 {
				if ft, file, ok := w.lookupMethod(TypeRef{f.Type, u.F}, name, depth+1); ok {
					return ft, file, true
				}
			}
		}
	case *ast.StructType:
		for _, f := range x.Fields.List {
			if len(f.Names) == 0 {
				if ft, file, ok := w.lookupMethod(TypeRef{f.Type, u.F}, name, depth+1); ok {
					return ft, file, true
				}
			}
		}
	}
	return nil, nil, false
}

func results(ft *ast.FuncType, f *File) []TypeRef {
	var out []TypeRef
	if ft == nil || ft.Results == nil {
		return out
	}
	for _, fld := range ft.Results.List {
		n := len(fld.Names)
		if n == 0 {
			n = 1
		}
		for i := 0; i < n; i++ {
			out = append(out, TypeRef{fld.Type, f})
		}
	}
	return out
}

// ------------------------------------------------------------------ expressions

func (w *World) one(e ast.Expr, sc *Scope, depth int) (TypeRef, bool) {
	ts := w.typeOf(e, sc, depth)
	if len(ts) != 1 || ts[0].E == nil {
		return TypeRef{}, false
	}
	return ts[0], true
}

// importOf: if id (used at pos) names an imported package, its import path.
func (w *World) importOf(id *ast.Ident, sc *Scope) (string, bool) {
	if w.lookupLocal(sc, id.Name, id.Pos()) != nil {
		return "", false
	}
	if _, ok := sc.F.Pkg.vars[id.Name]; ok {
		return "", false
	}
	p, ok := sc.F.imports[id.Name]
	return p, ok
}

func (w *World) elemTypes(rng ast.Expr, sc *Scope, depth int) (key, val []TypeRef) {
	t, ok := w.one(rng, sc, depth+1)
	if !ok {
		return nil, nil
	}
	u, ok := w.underlying(t)
	if !ok {
		return nil, nil
	}
	if s, isPtr := u.E.(*ast.StarExpr); isPtr {
		if u, ok = w.underlying(TypeRef{s.X, u.F}); !ok {
			return nil, nil
		}
	}
	switch x := u.E.(type) {
	case *ast.MapType:
		return []TypeRef{{x.Key, u.F}}, []TypeRef{{x.Value, u.F}}
	case *ast.ArrayType:
		return basic("int"), []TypeRef{{x.Elt, u.F}}
	case *ast.ChanType:
		return []TypeRef{{x.Value, u.F}}, nil
	case *ast.Ident:
		if x.Name == "string" {
			return basic("int"), basic("rune")
		}
		return []TypeRef{u}, nil
	}
	return nil, nil
}

func (w *World) identType(id *ast.Ident, sc *Scope, depth int) []TypeRef {
	if d := w.lookupLocal(sc, id.Name, id.Pos()); d != nil {
		switch d.kind {
		case kField:
			return []TypeRef{{d.typ, sc.F}}
		case kAssign:
			ts := w.typeOf(d.rhs, sc, depth+1)
			if d.idx < 0 {
				if len(ts) == 1 {
					return ts
				}
				return nil
			}
			if len(ts) > 1 {
				if d.idx < len(ts) {
					return ts[d.idx : d.idx+1]
				}
				return nil
			}
			// comma-ok forms
			if d.idx == 1 {
				return basic("bool")
			}
			if d.idx == 0 && len(ts) == 1 {
				return ts
			}
			return nil
		case kRangeKey:
			k, _ := w.elemTypes(d.rng, sc, depth)
			return k
		case kRangeVal:
			_, v := w.elemTypes(d.rng, sc, depth)
			return v
		}
		return nil
	}
	switch id.Name {
	case "true", "false":
		return basic("bool")
	case "iota":
		return basic("int")
	case "nil":
		return nil
	}
	if vd, ok := sc.F.Pkg.vars[id.Name]; ok {
		return w.varType(vd, depth)
	}
	if fd, ok := sc.F.Pkg.funcs[id.Name]; ok {
		return []TypeRef{{fd.decl.Type, fd.file}}
	}
	return nil
}

func (w *World) varType(vd varDecl, depth int) []TypeRef {
	if vd.spec.Type != nil {
		return []TypeRef{{vd.spec.Type, vd.file}}
	}
	sc := &Scope{F: vd.file}
	if len(vd.spec.Values) == len(vd.spec.Names) {
		ts := w.typeOf(vd.spec.Values[vd.idx], sc, depth+1)
		if len(ts) == 1 {
			return ts
		}
		return nil
	}
	if len(vd.spec.Values) == 1 {
		ts := w.typeOf(vd.spec.Values[0], sc, depth+1)
		if vd.idx < len(ts) {
			return ts[vd.idx : vd.idx+1]
		}
	}
	return nil
}

// isTypeExpr: does e (in sc) syntactically denote a type?  Only the cases needed to tell
// conversions from calls.
func (w *World) isTypeExpr(e ast.Expr, sc *Scope) bool {
	switch x := unparen(e).(type) {
	case *ast.ArrayType, *ast.MapType, *ast.ChanType, *ast.FuncType, *ast.InterfaceType, *ast.StructType:
		return true
	case *ast.StarExpr:
		return w.isTypeExpr(x.X, sc)
	case *ast.Ident:
		if w.lookupLocal(sc, x.Name, x.Pos()) != nil {
			return false
		}
		if _, ok := sc.F.Pkg.types[x.Name]; ok {
			return true
		}
		if _, ok := sc.F.Pkg.funcs[x.Name]; ok {
			return false
		}
		return predeclared[x.Name]
	case *ast.SelectorExpr:
		if id, ok := x.X.(*ast.Ident); ok {
			if ipath, ok := w.importOf(id, sc); ok {
				if p := w.pkg(ipath); p != nil {
					_, isType := p.types[x.Sel.Name]
					return isType
				}
			}
		}
	case *ast.IndexExpr:
		return w.isTypeExpr(x.X, sc)
	case *ast.IndexListExpr:
		return w.isTypeExpr(x.X, sc)
	}
	return false
}

func (w *World) callType(call *ast.CallExpr, sc *Scope, depth int) []TypeRef {
	fun := unparen(call.Fun)
	if w.isTypeExpr(fun, sc) {
		return []TypeRef{{fun, sc.F}}
	}
	switch ix := fun.(type) { // explicit instantiation of a generic function
	case *ast.IndexExpr:
		fun = unparen(ix.X)
	case *ast.IndexListExpr:
		fun = unparen(ix.X)
	}
	switch f := fun.(type) {
	case *ast.FuncLit:
		return results(f.Type, sc.F)
	case *ast.Ident:
		if w.lookupLocal(sc, f.Name, f.Pos()) == nil {
			if _, isPkgFunc := sc.F.Pkg.funcs[f.Name]; !isPkgFunc {
				switch f.Name {
				case "make":
					if len(call.Args) > 0 {
						return []TypeRef{{call.Args[0], sc.F}}
					}
					return nil
				case "new":
					if len(call.Args) > 0 {
						return []TypeRef{{&ast.StarExpr{X: call.Args[0]}, sc.F}}
					}
					return nil
				case "append", "min", "max":
					if len(call.Args) > 0 {
						return w.typeOf(call.Args[0], sc, depth+1)
					}
					return nil
				case "len", "cap", "copy":
					return basic("int")
				case "recover":
					return basic("any")
				case "delete", "panic", "print", "println", "close", "clear":
					return []TypeRef{}
				}
			}
		}
	case *ast.SelectorExpr:
		if id, ok := f.X.(*ast.Ident); ok {
			if ipath, ok := w.importOf(id, sc); ok {
				p := w.pkg(ipath)
				if p == nil {
					return nil
				}
				if fd, ok := p.funcs[f.Sel.Name]; ok {
					return results(fd.decl.Type, fd.file)
				}
				if vd, ok := p.vars[f.Sel.Name]; ok {
					if ts := w.varType(vd, depth); len(ts) == 1 {
						if u, ok := w.underlying(ts[0]); ok {
							if ft, ok := u.E.(*ast.FuncType); ok {
								return results(ft, u.F)
							}
						}
					}
				}
				return nil
			}
		}
		if rt, ok := w.one(f.X, sc, depth+1); ok {
			if ft, file, ok := w.lookupMethod(rt, f.Sel.Name, 0); ok {
				return results(ft, file)
			}
		}
	}
	// a value of function type (local closure, func-typed field, package func value)
	if t, ok := w.one(fun, sc, depth+1); ok {
		if u, ok := w.underlying(t); ok {
			if ft, ok := u.E.(*ast.FuncType); ok {
				return results(ft, u.F)
			}
		}
	}
	return nil
}

// typeOf returns the type(s) of e: one entry normally, several for a multi-value call,
// nil for "unknown".
func (w *World) typeOf(e ast.Expr, sc *Scope, depth int) []TypeRef {
	if depth > maxDepth || e == nil {
		return nil
	}
	switch x := e.(type) {
	case *ast.ParenExpr:
		return w.typeOf(x.X, sc, depth+1)
	case *ast.BasicLit:
		switch x.Kind {
		case token.INT:
			return basic("int")
		case token.FLOAT:
			return basic("float64")
		case token.IMAG:
			return basic("complex128")
		case token.CHAR:
			return basic("rune")
		case token.STRING:
			return basic("string")
		}
		return nil
	case *ast.CompositeLit:
		if x.Type != nil {
			return []TypeRef{{x.Type, sc.F}}
		}
		return nil
	case *ast.FuncLit:
		return []TypeRef{{x.Type, sc.F}}
	case *ast.Ident:
		return w.identType(x, sc, depth)
	case *ast.SelectorExpr:
		if id, ok := x.X.(*ast.Ident); ok {
			if ipath, ok := w.importOf(id, sc); ok {
				p := w.pkg(ipath)
				if p == nil {
					return nil
				}
				if vd, ok := p.vars[x.Sel.Name]; ok {
					return w.varType(vd, depth)
				}
				if fd, ok := p.funcs[x.Sel.Name]; ok {
					return []TypeRef{{fd.decl.Type, fd.file}}
				}
				return nil
			}
		}
		t, ok := w.one(x.X, sc, depth+1)
		if !ok {
			return nil
		}
		if ft, ok := w.lookupField(t, x.Sel.Name, 0); ok {
			return []TypeRef{ft}
		}
		if ft, file, ok := w.lookupMethod(t, x.Sel.Name, 0); ok {
			return []TypeRef{{ft, file}}
		}
		return nil
	case *ast.CallExpr:
		return w.callType(x, sc, depth)
	case *ast.IndexExpr:
		t, ok := w.one(x.X, sc, depth+1)
		if !ok {
			return nil
		}
		u, ok := w.underlying(t)
		if !ok {
			return nil
		}
		if s, isPtr := u.E.(*ast.StarExpr); isPtr {
			if u, ok = w.underlying(TypeRef{s.X, u.F}); !ok {
				return nil
			}
		}
		switch y := u.E.(type) {
		case *ast.MapType:
			return []TypeRef{{y.Value, u.F}}
		case *ast.ArrayType:
			return []TypeRef{{y.Elt, u.F}}
		case *ast.FuncType:
			return []TypeRef{t}
		case *ast.Ident:
			if y.Name == "string" {
				return basic("byte")
			}
		}
		return nil
	case *ast.IndexListExpr:
		return w.typeOf(x.X, sc, depth+1)
	case *ast.SliceExpr:
		t, ok := w.one(x.X, sc, depth+1)
		if !ok {
			return nil
		}
		if u, ok := w.underlying(stripPtr(t)); ok {
			if at, ok := u.E.(*ast.ArrayType); ok && at.Len != nil {
				return []TypeRef{{&ast.ArrayType{Elt: at.Elt}, u.F}}
			}
		}
		return []TypeRef{t}
	case *ast.StarExpr:
		t, ok := w.one(x.X, sc, depth+1)
		if !ok {
			return nil
		}
		u, ok := w.underlying(t)
		if !ok {
			return nil
		}
		if s, ok := u.E.(*ast.StarExpr); ok {
			return []TypeRef{{s.X, u.F}}
		}
		return nil
	case *ast.UnaryExpr:
		switch x.Op {
		case token.AND:
			if t, ok := w.one(x.X, sc, depth+1); ok {
				return []TypeRef{{&ast.StarExpr{X: t.E}, t.F}}
			}
			return nil
		case token.NOT:
			return basic("bool")
		case token.ARROW:
			if t, ok := w.one(x.X, sc, depth+1); ok {
				if u, ok := w.underlying(t); ok {
					if c, ok := u.E.(*ast.ChanType); ok {
						return []TypeRef{{c.Value, u.F}}
					}
				}
			}
			return nil
		}
		return w.typeOf(x.X, sc, depth+1)
	case *ast.BinaryExpr:
		switch x.Op {
		case token.EQL, token.NEQ, token.LSS, token.LEQ, token.GTR, token.GEQ, token.LAND, token.LOR:
			return basic("bool")
		case token.SHL, token.SHR:
			return w.typeOf(x.X, sc, depth+1)
		}
		if ts := w.typeOf(x.X, sc, depth+1); len(ts) == 1 {
			return ts
		}
		return w.typeOf(x.Y, sc, depth+1)
	case *ast.TypeAssertExpr:
		if x.Type != nil {
			return []TypeRef{{x.Type, sc.F}}
		}
		return nil
	}
	return nil
}

// ------------------------------------------------------------------ classification

const (
	isMap = iota
	notMap
	unknownType
)

// rangeKind decides whether ranging over e iterates a map.
func (w *World) rangeKind(e ast.Expr, sc *Scope) int {
	t, ok := w.one(e, sc, 0)
	if !ok {
		return unknownType
	}
	u, ok := w.underlying(t)
	if !ok {
		return unknownType
	}
	switch x := u.E.(type) {
	case *ast.MapType:
		return isMap
	case *ast.ArrayType, *ast.ChanType, *ast.FuncType:
		return notMap
	case *ast.StarExpr: // only pointers to arrays can be ranged
		if uu, ok := w.underlying(TypeRef{x.X, u.F}); ok {
			if _, ok := uu.E.(*ast.ArrayType); ok {
				return notMap
			}
		}
		return unknownType
	case *ast.Ident:
		if predeclared[x.Name] && u.F == nil {
			return notMap // string / integer
		}
	}
	return unknownType
}
