package main

// C10: every write to EnableAddAllowedBidder / enableAddAllowedBidder in the packages of
// this module that are linked into ./cmd/fundraisingd, and whether the default Makefile
// build passes an -X flag for the ldflag variable.

import (
	"go/ast"
	"go/token"
	"regexp"
	"sort"
	"strconv"
	"strings"
)

type SwitchWrite struct {
	Pkg     string
	File    string
	Context string
	Target  string
	Rhs     string // RhsKind constructor name
	pos     token.Pos
}

func switchTarget(e ast.Expr) string {
	switch x := unparen(e).(type) {
	case *ast.Ident:
		if x.Name == "EnableAddAllowedBidder" || x.Name == "enableAddAllowedBidder" {
			return x.Name
		}
	case *ast.SelectorExpr:
		if x.Sel.Name == "EnableAddAllowedBidder" || x.Sel.Name == "enableAddAllowedBidder" {
			return x.Sel.Name
		}
	case *ast.StarExpr: // *(&X) = …
		return switchTarget(x.X)
	case *ast.UnaryExpr:
		if x.Op == token.AND {
			return switchTarget(x.X)
		}
	}
	return ""
}

func rhsKind(e ast.Expr) string {
	switch x := unparen(e).(type) {
	case *ast.Ident:
		switch x.Name {
		case "true":
			return "litTrue"
		case "false":
			return "litFalse"
		}
	case *ast.BasicLit:
		if x.Kind == token.STRING {
			if s, err := strconv.Unquote(x.Value); err == nil {
				switch s {
				case "true":
					return "strTrue"
				case "false":
					return "strFalse"
				}
			}
		}
	}
	return "other"
}

// isParseOfLdflagVar: strconv.ParseBool(enableAddAllowedBidder)
func isParseOfLdflagVar(e ast.Expr) bool {
	c, ok := unparen(e).(*ast.CallExpr)
	if !ok || len(c.Args) != 1 || !isIdent(c.Args[0], "enableAddAllowedBidder") {
		return false
	}
	s, ok := unparen(c.Fun).(*ast.SelectorExpr)
	return ok && isIdent(s.X, "strconv") && s.Sel.Name == "ParseBool"
}

func (w *World) switchWrites() []SwitchWrite {
	var out []SwitchWrite
	var paths []string
	for path, p := range w.pkgs {
		if p.Linked && (path == modulePath || strings.HasPrefix(path, modulePath+"/")) {
			paths = append(paths, path)
		}
	}
	sort.Strings(paths)
	for _, path := range paths {
		p := w.mustPkg(path)
		for _, f := range p.Files {
			if strings.HasSuffix(f.Abs, "_test.go") {
				continue
			}
			add := func(ctx, target, rhs string, pos token.Pos) {
				out = append(out, SwitchWrite{Pkg: path, File: f.Rel, Context: ctx, Target: target, Rhs: rhs, pos: pos})
			}
			valueSpec := func(vs *ast.ValueSpec, ctx string) {
				for i, n := range vs.Names {
					t := switchTarget(n)
					if t == "" {
						continue
					}
					switch {
					case len(vs.Values) == len(vs.Names):
						add(ctx, t, rhsKind(vs.Values[i]), n.Pos())
					case len(vs.Values) == 0 && isIdent(vs.Type, "bool"):
						add(ctx, t, "litFalse", n.Pos()) // zero value
					default:
						add(ctx, t, "other", n.Pos())
					}
				}
			}
			for _, d := range f.AST.Decls {
				switch d := d.(type) {
				case *ast.GenDecl:
					if d.Tok != token.VAR && d.Tok != token.CONST {
						continue
					}
					for _, s := range d.Specs {
						if vs, ok := s.(*ast.ValueSpec); ok {
							valueSpec(vs, "var-init")
							// writes hidden in initialiser closures
							for _, v := range vs.Values {
								w.scanWrites(v, "var-init:"+identName(vs.Names[0]), add, valueSpec)
							}
						}
					}
				case *ast.FuncDecl:
					if d.Body == nil {
						continue
					}
					ctx := d.Name.Name
					if d.Recv == nil && ctx == "init" {
						ctx = "init"
					} else if d.Recv != nil && ctx == "init" {
						ctx = baseTypeName(d.Recv.List[0].Type) + ".init" // a method called init is not func init()
					}
					w.scanWrites(d.Body, ctx, add, valueSpec)
				}
			}
		}
	}
	sort.SliceStable(out, func(i, j int) bool {
		if out[i].Pkg != out[j].Pkg {
			return out[i].Pkg < out[j].Pkg
		}
		if out[i].File != out[j].File {
			return out[i].File < out[j].File
		}
		return out[i].pos < out[j].pos
	})
	return out
}

func (w *World) scanWrites(root ast.Node, ctx string, add func(ctx, target, rhs string, pos token.Pos), valueSpec func(*ast.ValueSpec, string)) {
	ast.Inspect(root, func(n ast.Node) bool {
		switch x := n.(type) {
		case *ast.AssignStmt:
			for i, l := range x.Lhs {
				t := switchTarget(l)
				if t == "" {
					continue
				}
				switch {
				case x.Tok != token.ASSIGN && x.Tok != token.DEFINE: // +=, |=, …
					add(ctx, t, "other", l.Pos())
				case len(x.Rhs) == len(x.Lhs):
					add(ctx, t, rhsKind(x.Rhs[i]), l.Pos())
				case len(x.Rhs) == 1 && i == 0 && len(x.Lhs) == 2 && t == "EnableAddAllowedBidder" && isParseOfLdflagVar(x.Rhs[0]):
					add(ctx, t, "parseOfLdflagVar", l.Pos())
				default:
					add(ctx, t, "other", l.Pos())
				}
			}
		case *ast.IncDecStmt:
			if t := switchTarget(x.X); t != "" {
				add(ctx, t, "other", x.Pos())
			}
		case *ast.DeclStmt:
			if gd, ok := x.Decl.(*ast.GenDecl); ok && gd.Tok == token.VAR {
				for _, s := range gd.Specs {
					if vs, ok := s.(*ast.ValueSpec); ok {
						valueSpec(vs, ctx)
					}
				}
			}
		case *ast.RangeStmt:
			for _, e := range []ast.Expr{x.Key, x.Value} {
				if e != nil {
					if t := switchTarget(e); t != "" {
						add(ctx, t, "other", e.Pos())
					}
				}
			}
		case *ast.UnaryExpr:
			// address taken: the variable can be written through the pointer
			if x.Op == token.AND {
				if t := switchTarget(x.X); t != "" {
					add(ctx, t, "other", x.Pos())
				}
			}
		}
		return true
	})
}

var (
	mkAssign = regexp.MustCompile(`^\s*(?:override\s+|export\s+)*([A-Za-z_][A-Za-z0-9_.-]*)\s*(\+=|::=|:=|\?=|=)(.*)$`)
	mkRef    = regexp.MustCompile(`\$[({]([A-Za-z_][A-Za-z0-9_.-]*)[)}]`)
)

// makefileSetsLdflag: does any Makefile line that contributes to ldflags / BUILD_FLAGS
// (directly, or through a variable referenced from them), or any line carrying -X /
// -ldflags itself, mention enableAddAllowedBidder?
func makefileSetsLdflag(src string) bool {
	src = strings.ReplaceAll(src, "\\\r\n", " ")
	src = strings.ReplaceAll(src, "\\\n", " ")
	type assign struct{ name, val string }
	var assigns []assign
	var lines []string
	for _, line := range strings.Split(src, "\n") {
		if i := strings.Index(line, "#"); i >= 0 {
			line = line[:i]
		}
		if strings.TrimSpace(line) == "" {
			continue
		}
		lines = append(lines, line)
		if strings.HasPrefix(line, "\t") {
			continue // recipe line
		}
		if m := mkAssign.FindStringSubmatch(line); m != nil {
			assigns = append(assigns, assign{strings.ToLower(m[1]), m[3]})
		}
	}
	contributing := map[string]bool{"ldflags": true, "build_flags": true}
	for changed := true; changed; {
		changed = false
		for _, a := range assigns {
			if !contributing[a.name] {
				continue
			}
			for _, r := range mkRef.FindAllStringSubmatch(a.val, -1) {
				n := strings.ToLower(r[1])
				if !contributing[n] {
					contributing[n] = true
					changed = true
				}
			}
		}
	}
	has := func(s string) bool { return strings.Contains(strings.ToLower(s), "enableaddallowedbidder") }
	for _, a := range assigns {
		if contributing[a.name] && has(a.val) {
			return true
		}
	}
	for _, l := range lines {
		if has(l) && (strings.Contains(l, "-X") || strings.Contains(strings.ToLower(l), "ldflags")) {
			return true
		}
	}
	return false
}
