package main

// The getters and setters of the module's record types (types/auction.go, bid.go, vesting.go,
// allowed_bidder.go).  The translator gives `x.GetF()` the meaning "field F of x" and
// `x.SetF(v)` the meaning "x with F := v" through its field / mutator tables; this table records,
// from the source, which fields of the receiver each accessor really reads and writes, and
// `Fundraising.Tables.Accessor.faithful` (Schema.lean) states that it is exactly its own field.

import (
	"go/ast"
	"go/token"
	"sort"
	"strings"
)

type Accessor struct {
	Recv   string
	Name   string
	Reads  []string // fields of the receiver read
	Writes []string // fields of the receiver assigned
	// the value written is the (single) parameter, possibly converted by a method call on it
	// (`addr.String()`); the value returned is built from the fields read only
	FromParam bool
	Plain     bool // no calls except conversions (`X.String()`, `sdk.AccAddressFromBech32`, `panic`), no loops
}

var accessorRecvs = map[string]bool{"BaseAuction": true, "BatchAuction": true, "FixedPriceAuction": true, "Bid": true, "VestingQueue": true, "AllowedBidder": true}

func (w *World) accessors() []Accessor {
	p := w.mustPkg(typesPkg)
	var out []Accessor
	for _, f := range p.Files {
		if strings.HasSuffix(f.Rel, "_test.go") || strings.Contains(f.Rel, ".pb.") {
			continue
		}
		for _, d := range f.AST.Decls {
			fd, ok := d.(*ast.FuncDecl)
			if !ok || fd.Recv == nil || len(fd.Recv.List) != 1 || fd.Body == nil {
				continue
			}
			rt := baseTypeName(fd.Recv.List[0].Type)
			if !accessorRecvs[rt] || !(strings.HasPrefix(fd.Name.Name, "Get") || strings.HasPrefix(fd.Name.Name, "Set")) {
				continue
			}
			recv := ""
			if len(fd.Recv.List[0].Names) == 1 {
				recv = fd.Recv.List[0].Names[0].Name
			}
			a := Accessor{Recv: rt, Name: fd.Name.Name, Reads: []string{}, Writes: []string{}, Plain: true}
			params := paramNames(fd.Type.Params)
			reads, writes := map[string]bool{}, map[string]bool{}
			lhs := map[ast.Expr]bool{}
			ast.Inspect(fd.Body, func(n ast.Node) bool {
				switch s := n.(type) {
				case *ast.AssignStmt:
					for i, l := range s.Lhs {
						if se, ok := l.(*ast.SelectorExpr); ok && isIdent(se.X, recv) && s.Tok == token.ASSIGN {
							writes[se.Sel.Name] = true
							lhs[l] = true
							if len(params) == 1 && i < len(s.Rhs) {
								// the right-hand side mentions the parameter and no field of the receiver
								okp, bad := false, false
								ast.Inspect(s.Rhs[i], func(m ast.Node) bool {
									if id, ok := m.(*ast.Ident); ok && id.Name == params[0] {
										okp = true
									}
									if se2, ok := m.(*ast.SelectorExpr); ok && isIdent(se2.X, recv) {
										bad = true
									}
									return true
								})
								if okp && !bad {
									a.FromParam = true
								}
							}
						}
					}
				case *ast.SelectorExpr:
					if isIdent(s.X, recv) && !lhs[s] {
						reads[s.Sel.Name] = true
					}
				case *ast.RangeStmt, *ast.ForStmt, *ast.GoStmt, *ast.DeferStmt:
					a.Plain = false
				case *ast.CallExpr:
					c := w.render(s.Fun)
					if !(strings.HasSuffix(c, ".String") || c == "sdk.AccAddressFromBech32" || c == "panic" || c == "sdk.AccAddress") {
						a.Plain = false
					}
				}
				return true
			})
			for k := range reads {
				a.Reads = append(a.Reads, k)
			}
			for k := range writes {
				a.Writes = append(a.Writes, k)
			}
			sort.Strings(a.Reads)
			sort.Strings(a.Writes)
			out = append(out, a)
		}
	}
	sort.Slice(out, func(i, j int) bool {
		if out[i].Recv != out[j].Recv {
			return out[i].Recv < out[j].Recv
		}
		return out[i].Name < out[j].Name
	})
	return out
}

// Iterator: a Keeper method `IterateX(ctx, cb)`; WalksAll = its body is exactly a walk of the whole
// collection with the callback handed through (`k.C.Walk(ctx, nil, cb)`, error returned)
type Iterator struct {
	Name     string
	Coll     string
	WalksAll bool
}

func (w *World) iterators() []Iterator {
	kp := w.mustPkg(keeperPkg)
	var out []Iterator
	for name, m := range kp.methods["Keeper"] {
		if !strings.HasPrefix(name, "Iterate") || m.decl.Body == nil {
			continue
		}
		it := Iterator{Name: name}
		ps := paramNames(m.decl.Type.Params)
		recv := ""
		if len(m.decl.Recv.List[0].Names) == 1 {
			recv = m.decl.Recv.List[0].Names[0].Name
		}
		var walk *ast.CallExpr
		calls := 0
		ast.Inspect(m.decl.Body, func(n ast.Node) bool {
			if c, ok := n.(*ast.CallExpr); ok {
				calls++
				if se, ok := unparen(c.Fun).(*ast.SelectorExpr); ok && se.Sel.Name == "Walk" {
					walk = c
				}
			}
			return true
		})
		if walk != nil && calls == 1 && len(ps) == 2 && len(walk.Args) == 3 {
			se := unparen(walk.Fun).(*ast.SelectorExpr)
			if cs, ok := unparen(se.X).(*ast.SelectorExpr); ok && isIdent(cs.X, recv) {
				it.Coll = cs.Sel.Name
				it.WalksAll = isIdent(walk.Args[0], ps[0]) && isIdent(walk.Args[1], "nil") && isIdent(walk.Args[2], ps[1])
				// nothing else than returning the walk's error
				for _, st := range m.decl.Body.List {
					switch x := st.(type) {
					case *ast.AssignStmt, *ast.ReturnStmt:
					case *ast.IfStmt:
						if len(x.Body.List) != 1 {
							it.WalksAll = false
						} else if _, ok := x.Body.List[0].(*ast.ReturnStmt); !ok {
							it.WalksAll = false
						}
					default:
						it.WalksAll = false
					}
				}
			}
		}
		out = append(out, it)
	}
	sort.Slice(out, func(i, j int) bool { return out[i].Name < out[j].Name })
	return out
}
