package main

// C14: `range` over maps and the class of each loop body.

import (
	"fmt"
	"go/ast"
	"go/token"
	"os"
	"path/filepath"
	"strings"
)

type MapRange struct {
	File string
	Func string
	Expr string
	Cls  string // RangeClass constructor
	pos  token.Pos
}

const mathPkg = "cosmossdk.io/math"

// debugRanges (-debug-ranges) prints how every range statement was resolved.
var debugRanges bool

func (w *World) mapRanges() []MapRange {
	var out []MapRange
	for _, path := range []string{keeperPkg, modulePkg, typesPkg} {
		p := w.mustPkg(path)
		for _, f := range p.Files {
			base := filepath.Base(f.Abs)
			if strings.HasSuffix(base, "_test.go") || isGenerated(base) {
				continue
			}
			walkStack(f.AST, func(n ast.Node, stack []ast.Node) bool {
				if as, ok := n.(*ast.AssignStmt); ok {
					// `xs := maps.Keys(m)` / `maps.Values(m)`: a slice in the map's iteration order — the
					// same hazard as a `range` over the map.  Order-independent only if the slice (or a
					// plain alias of it) is sorted before anything else looks at it.
					if xs, expr, ok := mapKeysCall(as); ok {
						var fn *ast.FuncDecl
						for _, a := range stack {
							if fd, ok := a.(*ast.FuncDecl); ok {
								fn = fd
							}
						}
						name := ""
						if fn != nil {
							name = fn.Name.Name
						}
						out = append(out, MapRange{File: f.Rel, Func: name, Expr: expr, Cls: classifyKeysSlice(as, xs, stack), pos: as.Pos()})
					}
					return true
				}
				rs, ok := n.(*ast.RangeStmt)
				if !ok {
					return true
				}
				var fn *ast.FuncDecl
				for _, a := range stack {
					if fd, ok := a.(*ast.FuncDecl); ok {
						fn = fd
					}
				}
				sc := &Scope{F: f, Fn: fn}
				name := ""
				if fn != nil {
					name = fn.Name.Name
				}
				kind := w.rangeKind(rs.X, sc)
				if debugRanges {
					ty := "?"
					if t, ok := w.one(rs.X, sc, 0); ok {
						ty = w.render(t.E)
					}
					fmt.Fprintf(os.Stderr, "range %s:%d %s: %s : %s -> %s\n", f.Rel, w.fset.Position(rs.Pos()).Line, name,
						w.render(rs.X), ty, [...]string{"map", "not a map", "UNRESOLVED"}[kind])
				}
				switch kind {
				case notMap:
					return true
				case unknownType:
					out = append(out, MapRange{File: f.Rel, Func: name, Expr: "<unresolved> " + w.render(rs.X), Cls: "other", pos: rs.Pos()})
					return true
				}
				out = append(out, MapRange{File: f.Rel, Func: name, Expr: w.render(rs.X), Cls: w.classifyRange(rs, stack, sc), pos: rs.Pos()})
				return true
			})
		}
	}
	return out
}

// mapKeysCall: `xs := maps.Keys(m)` or `maps.Values(m)` (x/exp/maps or the standard library's maps
// via slices.Collect is not recognised: it is classified `other`)
func mapKeysCall(as *ast.AssignStmt) (string, string, bool) {
	if len(as.Lhs) != 1 || len(as.Rhs) != 1 {
		return "", "", false
	}
	c, ok := unparen(as.Rhs[0]).(*ast.CallExpr)
	if !ok || len(c.Args) != 1 {
		return "", "", false
	}
	sel, ok := unparen(c.Fun).(*ast.SelectorExpr)
	if !ok || identName(sel.X) != "maps" || (sel.Sel.Name != "Keys" && sel.Sel.Name != "Values") {
		return "", "", false
	}
	xs := identName(as.Lhs[0])
	if xs == "" {
		xs = "<expr>"
	}
	return xs, "maps." + sel.Sel.Name + "(..)", true
}

// classifyKeysSlice: after `xs := maps.Keys(m)`, plain aliases `ys := xs` may follow; the first
// other statement that mentions xs or an alias must sort it (strict order), else the site is `other`.
func classifyKeysSlice(as *ast.AssignStmt, xs string, stack []ast.Node) string {
	if xs == "<expr>" || as.Tok != token.DEFINE {
		return "other"
	}
	rest, ok := following(as, stack)
	if !ok {
		return "other"
	}
	alias := map[string]bool{xs: true}
	for _, s := range rest {
		if a, ok := s.(*ast.AssignStmt); ok && len(a.Lhs) == 1 && len(a.Rhs) == 1 && a.Tok == token.DEFINE {
			if r := identName(a.Rhs[0]); r != "" && alias[r] && identName(a.Lhs[0]) != "" {
				alias[identName(a.Lhs[0])] = true
				continue
			}
		}
		hit := false
		for n := range alias {
			if mentions(s, n) {
				hit = true
			}
		}
		if !hit {
			continue
		}
		for n := range alias {
			if isSortOf(s, n) {
				return "collectThenSort"
			}
		}
		return "other" // looked at before it is sorted
	}
	return "other" // never sorted in this statement list
}

// following returns the statements after s in its enclosing statement list.
func following(s ast.Stmt, stack []ast.Node) ([]ast.Stmt, bool) {
	if len(stack) == 0 {
		return nil, false
	}
	var list []ast.Stmt
	switch p := stack[len(stack)-1].(type) {
	case *ast.BlockStmt:
		list = p.List
	case *ast.CaseClause:
		list = p.Body
	case *ast.CommClause:
		list = p.Body
	default:
		return nil, false
	}
	for i, t := range list {
		if t == s {
			return list[i+1:], true
		}
	}
	return nil, false
}

// strictLess: fn is `func(i, j int) bool { return xs[i] < xs[j] }` (or >, or a method
// call xs[i].GT(xs[j]) / LT): a comparison of the two elements themselves.
func strictLess(e ast.Expr, xs string) bool {
	fl, ok := unparen(e).(*ast.FuncLit)
	if !ok {
		return false
	}
	ps := paramNames(fl.Type.Params)
	if len(ps) != 2 {
		return false
	}
	rs, ok := singleReturn(fl.Body)
	if !ok || len(rs) != 1 {
		return false
	}
	elem := func(e ast.Expr, v string) bool {
		ix, ok := unparen(e).(*ast.IndexExpr)
		return ok && isIdent(ix.X, xs) && isIdent(ix.Index, v)
	}
	pair := func(a, b ast.Expr) bool {
		return (elem(a, ps[0]) && elem(b, ps[1])) || (elem(a, ps[1]) && elem(b, ps[0]))
	}
	switch x := unparen(rs[0]).(type) {
	case *ast.BinaryExpr:
		return (x.Op == token.LSS || x.Op == token.GTR) && pair(x.X, x.Y)
	case *ast.CallExpr:
		s, ok := unparen(x.Fun).(*ast.SelectorExpr)
		if !ok || len(x.Args) != 1 {
			return false
		}
		return (s.Sel.Name == "GT" || s.Sel.Name == "LT") && pair(s.X, x.Args[0])
	}
	return false
}

// isSortOf: stmt is a call that sorts the slice xs with a strict order.
func isSortOf(s ast.Stmt, xs string) bool {
	es, ok := s.(*ast.ExprStmt)
	if !ok {
		return false
	}
	c, ok := es.X.(*ast.CallExpr)
	if !ok || len(c.Args) == 0 || !isIdent(c.Args[0], xs) {
		return false
	}
	sel, ok := unparen(c.Fun).(*ast.SelectorExpr)
	if !ok {
		return false
	}
	pkg := identName(sel.X)
	switch {
	case pkg == "sort" && (sel.Sel.Name == "Strings" || sel.Sel.Name == "Ints" || sel.Sel.Name == "Float64s"):
		return len(c.Args) == 1
	case pkg == "slices" && sel.Sel.Name == "Sort":
		return len(c.Args) == 1
	case pkg == "sort" && (sel.Sel.Name == "Slice" || sel.Sel.Name == "SliceStable"):
		return len(c.Args) == 2 && strictLess(c.Args[1], xs)
	}
	return false
}

func (w *World) classifyRange(rs *ast.RangeStmt, stack []ast.Node, sc *Scope) string {
	key := identName(rs.Key)
	if key == "" || key == "_" || rs.Tok != token.DEFINE {
		return "other"
	}
	if xs, ok := w.collectsKeys(rs, key, sc); ok {
		rest, ok := following(rs, stack)
		if !ok {
			return "other"
		}
		for _, s := range rest {
			if isSortOf(s, xs) {
				return "collectThenSort"
			}
			if mentions(s, xs) {
				return "other" // used before it is sorted
			}
		}
		return "other" // never sorted in this statement list
	}
	if w.pointwiseWrites(rs, key, sc) {
		return "pointwiseMapWrite"
	}
	return "other"
}

// collectsKeys: body is `xs = append(xs, key)`, `xs = append(xs, f(key))` or `xs[i] = f(key); i++` (f a package-level
// function, not a method of the keeper); the value variable is unused.  Returns xs.
func (w *World) collectsKeys(rs *ast.RangeStmt, key string, sc *Scope) (string, bool) {
	if rs.Value != nil && !isIdent(rs.Value, "_") {
		return "", false
	}
	body := rs.Body.List
	switch len(body) {
	case 1:
		as, ok := body[0].(*ast.AssignStmt)
		if !ok || as.Tok != token.ASSIGN || len(as.Lhs) != 1 || len(as.Rhs) != 1 {
			return "", false
		}
		xs := identName(as.Lhs[0])
		c, ok := as.Rhs[0].(*ast.CallExpr)
		if xs == "" || !ok || !isIdent(c.Fun, "append") || len(c.Args) != 2 || c.Ellipsis.IsValid() {
			return "", false
		}
		if !isIdent(c.Args[0], xs) || !w.keyImage(c.Args[1], key, sc) {
			return "", false
		}
		return xs, true
	case 2:
		as, ok := body[0].(*ast.AssignStmt)
		inc, ok2 := body[1].(*ast.IncDecStmt)
		if !ok || !ok2 || as.Tok != token.ASSIGN || len(as.Lhs) != 1 || len(as.Rhs) != 1 || inc.Tok != token.INC {
			return "", false
		}
		ix, ok := unparen(as.Lhs[0]).(*ast.IndexExpr)
		if !ok {
			return "", false
		}
		xs, i := identName(ix.X), identName(ix.Index)
		if xs == "" || i == "" || !isIdent(inc.X, i) || i == key || xs == key {
			return "", false
		}
		// the slice must not be the ranged map
		if w.render(ix.X) == w.render(rs.X) {
			return "", false
		}
		if w.keyImage(as.Rhs[0], key, sc) {
			return xs, true
		}
		return "", false
	}
	return "", false
}

// keyImage: the key itself, or `f(key)` with f a package-level function (not a local, not a method)
func (w *World) keyImage(e ast.Expr, key string, sc *Scope) bool {
	rhs := unparen(e)
	if isIdent(rhs, key) {
		return true
	}
	c, ok := rhs.(*ast.CallExpr)
	if !ok || len(c.Args) != 1 || !isIdent(c.Args[0], key) {
		return false
	}
	switch f := unparen(c.Fun).(type) {
	case *ast.Ident:
		return w.lookupLocal(sc, f.Name, f.Pos()) == nil
	case *ast.SelectorExpr:
		if id, ok := f.X.(*ast.Ident); ok {
			if _, isImport := w.importOf(id, sc); isImport {
				return true
			}
		}
	}
	return false
}

// pointwiseWrites: every statement is `m[key] = expr` into a map other than the ranged
// one; the only calls in expr are constructors of / methods on cosmossdk.io/math values.
func (w *World) pointwiseWrites(rs *ast.RangeStmt, key string, sc *Scope) bool {
	if len(rs.Body.List) == 0 {
		return false
	}
	ranged := w.render(rs.X)
	for _, s := range rs.Body.List {
		as, ok := s.(*ast.AssignStmt)
		if !ok || as.Tok != token.ASSIGN || len(as.Lhs) != 1 || len(as.Rhs) != 1 {
			return false
		}
		ix, ok := unparen(as.Lhs[0]).(*ast.IndexExpr)
		if !ok || !isIdent(ix.Index, key) || w.render(ix.X) == ranged {
			return false
		}
		// the target must be a map (a slice cannot be indexed by a map key in general,
		// but be explicit)
		t, ok := w.one(ix.X, sc, 0)
		if !ok {
			return false
		}
		if u, ok := w.underlying(t); !ok {
			return false
		} else if _, isM := u.E.(*ast.MapType); !isM {
			return false
		}
		// no calls hidden in the target expression
		if containsCall(ix.X) {
			return false
		}
		pure := true
		ast.Inspect(as.Rhs[0], func(n ast.Node) bool {
			if !pure {
				return false
			}
			switch x := n.(type) {
			case *ast.FuncLit:
				pure = false
			case *ast.UnaryExpr:
				if x.Op == token.ARROW {
					pure = false
				}
			case *ast.CallExpr:
				if !w.isMathCall(x, sc) {
					pure = false
				}
			}
			return pure
		})
		if !pure {
			return false
		}
	}
	return true
}

func containsCall(e ast.Expr) bool {
	found := false
	ast.Inspect(e, func(n ast.Node) bool {
		if _, ok := n.(*ast.CallExpr); ok {
			found = true
		}
		return !found
	})
	return found
}

// isMathCall: math.<Func>(…) of cosmossdk.io/math, or a method call whose receiver's type
// is declared in cosmossdk.io/math (math.Int, math.LegacyDec).
func (w *World) isMathCall(c *ast.CallExpr, sc *Scope) bool {
	s, ok := unparen(c.Fun).(*ast.SelectorExpr)
	if !ok {
		return false
	}
	if id, ok := s.X.(*ast.Ident); ok {
		if ipath, isImport := w.importOf(id, sc); isImport {
			return ipath == mathPkg
		}
	}
	t, ok := w.one(s.X, sc, 0)
	if !ok {
		return false
	}
	path, _ := w.declaredIn(t)
	return path == mathPkg
}
