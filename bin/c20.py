"""C20: the part that a Lean theorem cannot exhibit — the real `fundraisingd` binary built
from /repo's working tree: it must start, list every command of the regenerated AutoCLI
table, accept `--help` for each, and turn typed arguments into the message that is sent.
The model's verdict (binding resolution over the regenerated table, Props/C20.lean) is
compared with what the binary does."""
import json
import os
import re
import shutil
import subprocess
import tempfile
import time

import vlib

ADDR = "cosmos1qyqszqgpqyqszqgpqyqszqgpqyqszqgpjnp7du"

# what a user types for each request field, and what must arrive in the message
# (decimals are typed as raw 18-decimal integers: see known finding C20/dec-arg-raw-integer)
SCHED1 = '{"release_time":"2030-01-01T00:00:00Z","weight":"500000000000000000"}'
SCHED2 = '{"release_time":"2031-01-01T00:00:00Z","weight":"500000000000000000"}'
SCHED_MSG = [{"release_time": "2030-01-01T00:00:00Z", "weight": "0.500000000000000000"},
             {"release_time": "2031-01-01T00:00:00Z", "weight": "0.500000000000000000"}]
TYPED = {
    "start_price": ("500000000000000000", "0.500000000000000000"),
    "min_bid_price": ("100000000000000000", "0.100000000000000000"),
    "selling_coin": ("1000dn0", {"denom": "dn0", "amount": "1000"}),
    "paying_coin_denom": ("dn1", "dn1"),
    "max_extended_round": ("3", 3),
    "extended_round_rate": ("200000000000000000", "0.200000000000000000"),
    "start_time": ("2029-01-01T00:00:00Z", "2029-01-01T00:00:00Z"),
    "end_time": ("2029-06-01T00:00:00Z", "2029-06-01T00:00:00Z"),
    "auction_id": ("3", "3"),
    "bid_id": ("9", "9"),
    "bid_type": ("batch-worth", "BID_TYPE_BATCH_WORTH"),
    "price": ("1500000000000000000", "1.500000000000000000"),
    "coin": ("100dn1", {"denom": "dn1", "amount": "100"}),
}
SIGNER_FIELD = {"CreateFixedPriceAuction": "auctioneer", "CreateBatchAuction": "auctioneer",
                "CancelAuction": "auctioneer", "PlaceBid": "bidder", "ModifyBid": "bidder"}


def tx_variants(cmd):
    """(typed args, expected message fields) for a tx command of the table; a repeated field
    is exercised with 0, 1 and 2 elements"""
    if cmd["rpc"] not in SIGNER_FIELD:
        return []
    pos, want = [], {SIGNER_FIELD[cmd["rpc"]]: ADDR}
    sched_positional = False
    # the user types the arguments in the order the USAGE LINE names them; what arrives must be
    # the message with each value in the field of that name
    shown = [t[1:-1].replace("-", "_") for t in cmd["use"].split(" ") if t.startswith("[") and t.endswith("]")]
    if sorted(shown) != sorted(cmd["positional"]):
        shown = cmd["positional"]
    for f in shown:
        if f == "vesting_schedules":
            sched_positional = True
            pos.append(SCHED1)
            continue
        if f not in TYPED:
            return []
        pos.append(TYPED[f][0])
        want[f] = TYPED[f][1]
    if cmd["rpc"] not in ("CreateFixedPriceAuction", "CreateBatchAuction"):
        return [(pos, want, "")]
    if sched_positional:
        w = dict(want); w["vesting_schedules"] = SCHED_MSG[:1]
        return [(pos, w, ":1-schedule")]
    out = []
    for k in (0, 1, 2):
        flags = []
        for sc in (SCHED1, SCHED2)[:k]:
            flags += ["--vesting-schedules", sc]
        w = dict(want); w["vesting_schedules"] = SCHED_MSG[:k]
        out.append((pos + flags, w, ":%d-schedules" % k))
    return out


def parse_table():
    """read cliCmds from the regenerated Lean table (text level)"""
    path = os.path.join(vlib.LEAN, "Fundraising", "Generated", "Tables.lean")
    txt = open(path).read()
    sec = txt[txt.index("def cliCmds"):]
    sec = sec[:sec.index("\n]")]
    cmds = []
    for line in sec.split("\n"):
        m = re.search(r'service := "(\w+)", rpc := "(\w+)", use := "([^"]*)", skip := (\w+), positional := \[(.*?)\],.*conditional := (\w+)', line)
        if m:
            cmds.append(dict(service=m.group(1), rpc=m.group(2), use=m.group(3), skip=m.group(4) == "true",
                             positional=re.findall(r'"([^"]*)"', m.group(5)), conditional=m.group(6) == "true"))
    return cmds


def sh(binp, args, home, timeout=120):
    p = subprocess.run([binp] + args + ["--home", home], stdout=subprocess.PIPE, stderr=subprocess.STDOUT,
                       text=True, timeout=timeout)
    return p.returncode, p.stdout


def run(tier, seed):
    t0 = time.time()
    out = dict(violations=[], coverage={}, evaluations=0, nontrivial=0, samples=[])
    work = tempfile.mkdtemp(prefix="verif-c20-", dir="/var/tmp")
    try:
        binp = os.path.join(work, "fundraisingd")
        home = os.path.join(work, "home")
        p = subprocess.run(["go", "build", "-o", binp, "./cmd/fundraisingd"], cwd=vlib.REPO, env=vlib.GOENV,
                           stdout=subprocess.PIPE, stderr=subprocess.STDOUT, text=True, timeout=3600)
        if p.returncode != 0:
            out["violations"].append(dict(sig="binary-does-not-build", msg=p.stdout[-600:], ops=[], found=True, pid="C20"))
            return out
        cmds = parse_table()
        checks = []

        def expect(name, ok, detail):
            out["evaluations"] += 1
            checks.append(dict(check=name, ok=ok))
            if not ok:
                out["violations"].append(dict(sig=name, msg=detail[-600:], found=True, pid="C20",
                                              ops=["# reproduce: cd /repo && go build -o /var/tmp/fundraisingd ./cmd/fundraisingd && " + detail.split("\n")[0]]))

        rc, o = sh(binp, ["version"], home)
        expect("binary-starts", rc == 0 and "panic" not in o, "/var/tmp/fundraisingd version\n" + o)
        if rc != 0:
            return out
        for service, sub in (("Query", "query"), ("Msg", "tx")):
            rc, o = sh(binp, [sub, "fundraising", "--help"], home)
            expect("%s-help" % sub, rc == 0, "/var/tmp/fundraisingd %s fundraising --help\n%s" % (sub, o))
            for c in cmds:
                if c["service"] != service or c["skip"] or c["conditional"]:
                    continue
                word = c["use"].split(" ")[0]
                expect("cmd-listed:" + word, re.search(r"^\s+%s\s" % re.escape(word), o, flags=re.M) is not None,
                       "/var/tmp/fundraisingd %s fundraising --help   # command %s (rpc %s) is not listed\n%s" % (sub, word, c["rpc"], o))
                rc2, o2 = sh(binp, [sub, "fundraising", word, "--help"], home)
                expect("cmd-help:" + word, rc2 == 0 and c["use"] in o2,
                       "/var/tmp/fundraisingd %s fundraising %s --help   # usage line must be `%s`\n%s" % (sub, word, c["use"], o2))
                out["nontrivial"] += 1
                if service == "Msg":
                    if "vesting_schedules" in c["positional"]:
                        out["violations"].append(dict(
                            sig="repeated-field-positional:" + word, found=True, pid="C20",
                            msg="`%s` binds the repeated field vesting_schedules as a positional argument: exactly one "
                                "schedule can be typed, an auction with no schedule or with two or more instalments "
                                "cannot be created from the command line" % word,
                            ops=["# fundraisingd tx fundraising %s --help   # usage: %s" % (word, c["use"])]))
                    for args, want, tag in tx_variants(c):
                        rc3, o3 = sh(binp, ["tx", "fundraising", word] + args +
                                     ["--from", ADDR, "--generate-only", "--offline", "--account-number", "0", "--sequence", "0"], home)
                        ok = False
                        detail = o3
                        if rc3 == 0:
                            try:
                                msg = json.loads(o3[o3.index("{"):])["body"]["messages"][0]
                                bad = {k: (msg.get(k), v) for k, v in want.items() if msg.get(k) != v}
                                ok = not bad
                                detail = "fields differ (got, want): %s" % bad
                            except Exception as e:
                                detail = "unparsable output: %s\n%s" % (e, o3)
                        expect("typed-is-sent:" + word + tag, ok,
                               "/var/tmp/fundraisingd tx fundraising %s %s --from %s --generate-only --offline --account-number 0 --sequence 0\n%s"
                               % (word, " ".join("'%s'" % a for a in args), ADDR, detail))
                        out["samples"].append(dict(command=word, typed=args))
        # decimals typed as decimals: documented finding
        rc4, o4 = sh(binp, ["tx", "fundraising", "place-bid", "3", "batch-worth", "1.5", "100dn1", "--from", ADDR,
                            "--generate-only", "--offline", "--account-number", "0", "--sequence", "0"], home)
        if rc4 != 0 or '"price":"1.500000000000000000"' not in o4:
            out["violations"].append(dict(sig="dec-arg-raw-integer", found=True, pid="C20",
                                          msg="`place-bid 3 batch-worth 1.5 100dn1` is rejected by the client: " + o4.strip()[-200:],
                                          ops=["# fundraisingd tx fundraising place-bid 3 batch-worth 1.5 100dn1 --from <addr> --generate-only --offline"]))
        chain = None
        if tier == "thorough":
            # single-node chain from the binary: every command end to end, lifecycle through
            # the real node, what the node answers must be displayable
            import c20chain
            cw = os.path.join(work, "chain")
            os.makedirs(cw, exist_ok=True)
            try:
                chain = c20chain.run(binp, cw, lambda *a: None)
            except Exception as e:  # the chain could not be driven at all
                chain = dict(violations=[dict(sig="chain-harness-crashed", msg=str(e)[-400:], cmd="")], checks=[], samples=[])
            seen = set()
            for v in chain["violations"]:
                if v["sig"] in seen:
                    continue
                seen.add(v["sig"])
                out["violations"].append(dict(sig=v["sig"], found=True, pid="C20", msg=v.get("msg", "")[:600],
                                              ops=["# single-node chain (bin/c20chain.py): " + v.get("cmd", "")]))
            out["evaluations"] += len(chain["checks"])
            out["nontrivial"] += len(chain["checks"])
        out["coverage"] = dict(binary_checks=checks, binary_build_s=round(time.time() - t0, 1),
                               commands_in_table=len(cmds),
                               chain_checks=(len(chain["checks"]) if chain else "thorough tier only"),
                               chain_failed_checks=([c["check"] for c in chain["checks"] if not c["ok"]][:40] if chain else []))
        if not out["samples"]:
            out["samples"].append(dict(kind="no tx command exercised"))
    finally:
        shutil.rmtree(work, ignore_errors=True)
    return out
