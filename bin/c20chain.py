"""C20 (chain level): the REAL `fundraisingd` binary run as a single-node chain, offline.

Every fundraising CLI command is driven end to end through the node: what the user types is what
is sent (the stored auction is read back and compared with the typed values), and what the node
answers can be displayed (every query must exit 0 and print parseable JSON).  The auction life
cycle (STAND_BY -> STARTED -> VESTING -> FINISHED, batch extension, CANCELLED) is observed through
the CLI while the chain produces blocks, and the default build must keep the allow-list switch
off at run time (a bid of a non allow-listed bidder and MsgAddAllowedBidder are both rejected).

    run(binary_path, workdir, log) -> {"violations": [...], "checks": [...], "samples": [...]}

Standard library only.  `python3 c20chain.py` builds the binary from /repo into a fresh directory
under /var/tmp, runs, prints the result as JSON, and always removes the directory and the node.

Positional layouts are NOT hard-coded: the `Usage:` line of `--help` of the binary under test is
parsed and the arguments are filled by name.  Decimals are typed as raw 18-decimal integers
(0.5 = 500000000000000000), timestamps as RFC3339.

The CLI is the subject; the node's REST gateway (served by the same process) is only the witness:
when a CLI query cannot be displayed the violation is recorded and the same question is put to the
gateway, so that "the CLI cannot show it" and "the chain did not do it" stay two different findings.

One genesis parameter differs from the default: `extended_period` (unit: DAYS) is set to 0 so that
the extended round of the batch auction ends at once and the auction can be seen FINISHED within
the run; the creation fee keeps its default (100000000stake) and is checked with `query params`.
"""
import datetime
import json
import os
import re
import shutil
import signal
import socket
import subprocess
import sys
import tempfile
import threading
import time
import urllib.error
import urllib.request

REPO = "/repo"
REST_PREFIXES = ("/tendermint/fundraising/fundraising", "/fundraising/fundraising/v1", "/fundraising/fundraising")
CHAIN_ID = "c20"
GENESIS_COINS = "100000000000stake,1000000000dn0,1000000000dn1"
BOB_COINS = "1000000000stake,1000000000dn0,1000000000dn1"
STAKE = "50000000000stake"
DEFAULT_CREATION_FEE = {"denom": "stake", "amount": "100000000"}

# typed values / what must come back
RAW_HALF, DEC_HALF = "500000000000000000", "0.500000000000000000"
RAW_TENTH, DEC_TENTH = "100000000000000000", "0.100000000000000000"
SELLING = ("1000000", "dn0")
PAYING = "dn1"

# schedule of the run, seconds relative to the moment the create tx is typed
A_START, A_LEN, A_REL1, A_REL2 = 4, 9, 3, 6      # (a): start +4 s, end 9 s later, releases end+3 / end+6
B_START, B_LEN = 2, 8                            # (b): start +2 s, end 8 s later
STEP_TIMEOUT = 60.0                              # upper bound of every wait
TOTAL_BUDGET = 170.0                             # whole run

STATUS = {"STAND_BY": "AUCTION_STATUS_STANDBY", "STARTED": "AUCTION_STATUS_STARTED",
          "VESTING": "AUCTION_STATUS_VESTING", "FINISHED": "AUCTION_STATUS_FINISHED",
          "CANCELLED": "AUCTION_STATUS_CANCELLED"}


def rfc3339(t):
    return datetime.datetime.fromtimestamp(int(t), datetime.timezone.utc).strftime("%Y-%m-%dT%H:%M:%SZ")


def same_time(a, b):
    """RFC3339 strings denote the same instant"""
    def p(s):
        s = re.sub(r"\.\d+", "", s.strip()).replace("Z", "+00:00")
        return datetime.datetime.fromisoformat(s)
    try:
        return p(a) == p(b)
    except (ValueError, AttributeError):
        return False


def free_ports(n):
    socks, ports = [], []
    try:
        for _ in range(n):
            s = socket.socket(socket.AF_INET, socket.SOCK_STREAM)
            s.bind(("127.0.0.1", 0))
            socks.append(s)
            ports.append(s.getsockname()[1])
    finally:
        for s in socks:
            s.close()
    return ports


def toml_set(path, section, key, literal):
    """set `key = literal` inside [section] ('' = top level) of a TOML file (text level)"""
    lines = open(path).read().split("\n")
    cur, done = "", False
    for i, ln in enumerate(lines):
        m = re.match(r"^\s*\[([^\[\]]+)\]\s*$", ln)
        if m:
            cur = m.group(1).strip()
            continue
        if cur == section and re.match(r"^\s*%s\s*=" % re.escape(key), ln):
            lines[i] = "%s = %s" % (key, literal)
            done = True
            break
    if not done:
        raise RuntimeError("toml key %s.%s not found in %s" % (section, key, path))
    open(path, "w").write("\n".join(lines))


def first_json(text):
    """the first JSON value contained in text (CLI output may carry log lines before it)"""
    text = text.strip()
    if not text:
        raise ValueError("empty output")
    try:
        return json.loads(text)
    except ValueError:
        pass
    dec = json.JSONDecoder()
    for m in re.finditer(r"[\{\[]", text):
        try:
            return dec.raw_decode(text[m.start():])[0]
        except ValueError:
            continue
    raise ValueError("no JSON value in output")


def clip(text, n=700):
    """head and tail of a long text (CLI errors carry the reason at the end)"""
    text = (text or "").strip()
    return text if len(text) <= n else text[:n // 2] + " [...] " + text[-n // 2:]


def _die_with_parent():
    """child side: be killed if the harness process disappears (best effort, Linux)"""
    try:
        import ctypes
        ctypes.CDLL("libc.so.6", use_errno=True).prctl(1, int(signal.SIGKILL))   # PR_SET_PDEATHSIG
    except Exception:
        pass


def norm_auction(a):
    """one shape for both encodings of an Any: {"@type": T, fields...} and {"type": T, "value": {fields...}}"""
    if isinstance(a, dict) and isinstance(a.get("value"), dict) and isinstance(a.get("type"), str):
        out = dict(a["value"])
        out["@type"] = a["type"]
        return out
    return a


def base_of(auction):
    """the common part of an auction object, wherever the encoding puts it"""
    auction = norm_auction(auction)
    if not isinstance(auction, dict):
        return {}
    for k in ("base_auction", "baseAuction"):
        if isinstance(auction.get(k), dict):
            return auction[k]
    return auction


class Chain:
    def __init__(self, binary, workdir, log):
        self.bin = binary
        self.work = workdir
        self.home = os.path.join(workdir, "home")
        self.log = log or (lambda *a: None)
        self.violations, self.checks, self.samples = [], [], []
        self.proc = None
        self.nodelog = os.path.join(workdir, "node.log")
        self.rpc = None
        self.api = None
        self.rest_prefix = None
        self.seen_violation = set()
        self.t0 = time.time()
        self.addr = {}
        self.usage_cache = {}
        self.lock = threading.Lock()
        # observer state
        self.obs_stop = threading.Event()
        self.obs_thread = None
        self.hist = {}          # auction id -> [(t, status, n_end_times)]
        self.last_auction = {}  # auction id -> last JSON object
        self.vq_hist = []       # [(t, [(auction_id, release_time, released)])]
        self.last_vq = None
        self.obs_errors = []

    # ---- bookkeeping -------------------------------------------------------------------------
    def check(self, name, ok, sig=None, msg="", cmd=""):
        ok = bool(ok)
        with self.lock:
            self.checks.append({"check": name, "ok": ok})
            if not ok:
                sig = sig or ("chain-check-failed:" + name)
                if (sig, cmd) not in self.seen_violation:      # one violation per (sig, cmd)
                    self.seen_violation.add((sig, cmd))
                    self.violations.append({"sig": sig, "msg": str(msg)[:1500], "cmd": cmd})
        self.log("[c20chain %6.1fs] %s %s%s" % (time.time() - self.t0, "ok  " if ok else "FAIL", name,
                                                 "" if ok else "  -- " + str(msg)[:300]))
        return ok

    def sample(self, cmd, rc, out, err=""):
        with self.lock:
            self.samples.append({"cmd": cmd, "rc": rc, "out": out.strip()[:1200], "err": err.strip()[:400]})

    def left(self):
        return TOTAL_BUDGET - (time.time() - self.t0)

    # ---- CLI ---------------------------------------------------------------------------------
    def cli(self, args, timeout=30, node=True, record=False):
        argv = [self.bin] + list(args) + ["--home", self.home]
        if node and self.rpc:
            argv += ["--node", self.rpc]
        shown = "fundraisingd " + " ".join(a if re.match(r"^[\w\-\./:=@,]+$", a) else "'%s'" % a for a in args)
        try:
            p = subprocess.run(argv, stdin=subprocess.DEVNULL, stdout=subprocess.PIPE, stderr=subprocess.PIPE,
                               timeout=timeout, text=True)
            rc, out, err = p.returncode, p.stdout, p.stderr
        except subprocess.TimeoutExpired as e:
            rc, out, err = -9, (e.stdout or b"").decode("utf8", "replace") if isinstance(e.stdout, bytes) else (e.stdout or ""), "timeout after %ss" % timeout
        if record:
            self.sample(shown, rc, out, err)
        return rc, out, err, shown

    def usage(self, group, cmd):
        """(positional names, help text) of `<group> fundraising <cmd>`; None if the command is absent"""
        key = (group, cmd)
        if key in self.usage_cache:
            return self.usage_cache[key]
        rc, out, err, shown = self.cli([group, "fundraising", cmd, "--help"], node=False)
        text = out + err
        m = re.search(r"Usage:\s*\n\s+(.+)", text)
        res = None
        if rc == 0 and m and re.search(r"\bfundraising\s+%s\b" % re.escape(cmd), m.group(1)):
            line = m.group(1)
            names = [n for n in re.findall(r"\[([^\]\s]+)\]", line) if n not in ("flags", "command")]
            res = (names, text)
        self.usage_cache[key] = res
        return res

    def has_flag(self, group, cmd, flag):
        u = self.usage(group, cmd)
        return bool(u and re.search(r"(?m)^\s+(-\w, )?--%s\b" % re.escape(flag), u[1]))

    def query(self, name, args, expect_ok=True, timeout=20):
        """run `query fundraising <name> args --output json`; returns (rc, obj or None, out, err, shown)"""
        rc, out, err, shown = self.cli(["query", "fundraising", name] + list(args) + ["--output", "json"],
                                       timeout=timeout, record=True)
        obj = None
        if rc == 0:
            try:
                obj = first_json(out)
            except ValueError:
                obj = None
        if expect_ok:
            self.check("query %s %s exits 0" % (name, " ".join(args)), rc == 0,
                       "chain-query-failed:" + name, "rc=%s stderr=%s" % (rc, clip(err)), shown)
            if rc == 0:
                self.check("query %s %s prints JSON" % (name, " ".join(args)), obj is not None,
                           "chain-query-unparseable:" + name, out[:600], shown)
        return rc, obj, out, err, shown

    def quiet_query(self, name, args):
        rc, out, err, _ = self.cli(["query", "fundraising", name] + list(args) + ["--output", "json"], timeout=15)
        if rc != 0:
            return None, "rc=%s %s" % (rc, clip(err, 400))
        try:
            return first_json(out), ""
        except ValueError:
            return None, "unparseable: " + out[:300]

    # ---- the witness: the node's REST gateway ---------------------------------------------------
    def rest(self, path):
        """GET <prefix><path> on the node's gateway; (obj or None, url, why)"""
        if not self.api:
            return None, "", "no gateway"
        why = ""
        for pre in ([self.rest_prefix] if self.rest_prefix else list(REST_PREFIXES)):
            url = self.api + pre + path
            try:
                with urllib.request.urlopen(url, timeout=5) as r:
                    obj = json.loads(r.read().decode("utf8"))
                self.rest_prefix = pre
                return obj, url, ""
            except urllib.error.HTTPError as e:
                why = "HTTP %s %s" % (e.code, e.read().decode("utf8", "replace")[:300])
            except (OSError, ValueError) as e:
                why = repr(e)
        return None, self.api + path, why

    def shown_url(self, url):
        """the gateway request without the (random) port, so that violations stay comparable between runs"""
        return "GET <gateway>" + url[len(self.api or ""):]

    @staticmethod
    def pick(obj, *keys):
        if isinstance(obj, dict):
            for k in keys:
                if isinstance(obj.get(k), list):
                    return [norm_auction(x) for x in obj[k]]
        return []

    def list_auctions(self):
        """(auctions, source, why): the CLI's answer, else the gateway's"""
        obj, why = self.quiet_query("list-auction", [])
        if isinstance(obj, dict):
            return self.pick(obj, "auctions", "auction"), "cli", ""
        r, url, why2 = self.rest("/auction")
        if isinstance(r, dict):
            return self.pick(r, "auctions", "auction"), "rest", why
        return None, None, "cli: %s; rest: %s" % (why, why2)

    def list_vqueues(self, aids):
        obj, why = self.quiet_query("list-vesting-queue", [])
        if isinstance(obj, dict):
            return self.pick(obj, "vesting_queues", "vesting_queue", "vestingQueue"), "cli", ""
        qs, ok = {}, True
        for i in aids:
            r, url, why2 = self.rest("/auction/%d/vestings" % i)
            if isinstance(r, dict):
                for q in self.pick(r, "vesting_queues", "vesting_queue", "vestingQueue"):
                    qs[(q.get("auction_id"), q.get("release_time"))] = q   # an answer may repeat other auctions' queues
            else:
                ok = False
        return (list(qs.values()), "rest", why) if ok else (None, None, why)

    def get_auction(self, aid):
        """(auction object or None, source, shown, raw): `get-auction` through the CLI (checked), else the gateway"""
        rc, obj, out, err, shown = self.query("get-auction", [str(aid)])
        if isinstance(obj, dict) and isinstance(obj.get("auction"), dict):
            return norm_auction(obj["auction"]), "cli", shown, out
        r, url, why = self.rest("/auction/%d" % aid)
        if isinstance(r, dict) and isinstance(r.get("auction"), dict):
            return norm_auction(r["auction"]), "rest", self.shown_url(url), json.dumps(r)
        return None, None, shown, (out + err)[-600:]

    def get_vqueues(self, aid):
        flag = self.auction_flag("list-vesting-queue", aid)
        rc, obj, out, err, shown = self.query("list-vesting-queue", flag)
        if isinstance(obj, dict):
            qs, src, raw = self.pick(obj, "vesting_queues", "vesting_queue", "vestingQueue"), "cli", out
        else:
            r, url, why = self.rest("/auction/%d/vestings" % aid)
            if not isinstance(r, dict):
                return None, None, shown, (out + err)[-600:]
            qs, src, shown, raw = self.pick(r, "vesting_queues", "vesting_queue", "vestingQueue"), "rest", self.shown_url(url), json.dumps(r)
        self.vq_foreign = [q for q in qs if int(q.get("auction_id", 0) or 0) != aid]
        return [q for q in qs if int(q.get("auction_id", 0) or 0) == aid], src, shown, raw

    # ---- node --------------------------------------------------------------------------------
    def setup(self):
        os.makedirs(self.work, exist_ok=True)
        if os.path.exists(self.home):
            shutil.rmtree(self.home)
        base = ["--keyring-backend", "test"]
        rc, out, err, shown = self.cli(["init", "n0", "--chain-id", CHAIN_ID], node=False, timeout=60)
        if not self.check("init", rc == 0, "chain-setup-failed:init", err[-600:], shown):
            return False
        for name in ("alice", "bob"):
            rc, out, err, shown = self.cli(["keys", "add", name, "--output", "json"] + base, node=False)
            ok = rc == 0
            if ok:
                try:
                    self.addr[name] = first_json(out if out.strip() else err)["address"]
                except (ValueError, KeyError, TypeError):
                    ok = False
            if not ok:
                rc2, out2, err2, _ = self.cli(["keys", "show", name, "-a"] + base, node=False)
                if rc2 == 0 and out2.strip():
                    self.addr[name] = out2.strip()
                    ok = True
            if not self.check("keys add " + name, ok, "chain-setup-failed:keys-add", (out + err)[-600:], shown):
                return False
        steps = [
            (["genesis", "add-genesis-account", self.addr["alice"], GENESIS_COINS] + base, "add-genesis-account alice"),
            (["genesis", "add-genesis-account", self.addr["bob"], BOB_COINS] + base, "add-genesis-account bob"),
        ]
        for args, name in steps:
            rc, out, err, shown = self.cli(args, node=False, timeout=60)
            if not self.check(name, rc == 0, "chain-setup-failed:" + name.split()[0], (out + err)[-600:], shown):
                return False
        # extended_period is counted in days: 0 lets the extended round end immediately
        gpath = os.path.join(self.home, "config", "genesis.json")
        try:
            g = json.load(open(gpath))
            params = g["app_state"]["fundraising"]["params"]
            self.genesis_params = dict(params)
            params["extended_period"] = 0
            json.dump(g, open(gpath, "w"), indent=1)
            self.check("genesis: fundraising params present, extended_period set to 0", True)
        except (OSError, ValueError, KeyError) as e:
            self.check("genesis: fundraising params present, extended_period set to 0", False,
                       "chain-setup-failed:genesis-params", repr(e), gpath)
            return False
        # ports and block time before gentx (the gentx memo carries the p2p address)
        rpc, p2p, api = free_ports(3)
        self.rpc = "tcp://127.0.0.1:%d" % rpc
        self.api = "http://127.0.0.1:%d" % api
        cfg = os.path.join(self.home, "config", "config.toml")
        app = os.path.join(self.home, "config", "app.toml")
        try:
            toml_set(cfg, "rpc", "laddr", '"tcp://127.0.0.1:%d"' % rpc)
            toml_set(cfg, "rpc", "pprof_laddr", '""')
            toml_set(cfg, "p2p", "laddr", '"tcp://127.0.0.1:%d"' % p2p)
            toml_set(cfg, "consensus", "timeout_commit", '"500ms"')
            toml_set(app, "api", "enable", "true")
            toml_set(app, "api", "address", '"tcp://127.0.0.1:%d"' % api)
            toml_set(app, "grpc", "enable", "false")
            toml_set(app, "grpc-web", "enable", "false")
        except (OSError, RuntimeError) as e:
            self.check("configure ports and timeout_commit", False, "chain-setup-failed:config", repr(e), cfg)
            return False
        for args, name in [
            (["genesis", "gentx", "alice", STAKE, "--chain-id", CHAIN_ID] + base, "gentx"),
            (["genesis", "collect-gentxs"], "collect-gentxs"),
            (["genesis", "validate"], "validate-genesis"),
        ]:
            rc, out, err, shown = self.cli(args, node=False, timeout=60)
            if not self.check(name, rc == 0, "chain-setup-failed:" + name, (out + err)[-600:], shown):
                return False
        return True

    def start_node(self):
        # the ports were free a moment ago; if somebody took one meanwhile the node exits and we say so
        logf = open(self.nodelog, "w")
        self.proc = subprocess.Popen([self.bin, "start", "--home", self.home, "--minimum-gas-prices", "0stake"],
                                     stdin=subprocess.DEVNULL, stdout=logf, stderr=subprocess.STDOUT,
                                     start_new_session=True, preexec_fn=_die_with_parent)
        logf.close()
        deadline = time.time() + min(STEP_TIMEOUT, max(5.0, self.left()))
        height, why = 0, ""
        while time.time() < deadline:
            if self.proc.poll() is not None:
                why = "node exited with code %s" % self.proc.returncode
                break
            rc, out, err, _ = self.cli(["status"], timeout=10)
            if rc == 0:
                try:
                    st = first_json(out if out.strip() else err)
                    si = st.get("sync_info") or st.get("SyncInfo") or {}
                    height = int(si.get("latest_block_height", 0))
                except (ValueError, TypeError, AttributeError):
                    height = 0
                if height >= 2:
                    break
            time.sleep(0.3)
        ok = height >= 2
        if not ok:
            tail = self.node_log_tail(400)
            errs = [ln for ln in tail.split("\n") if re.search(r"^Error|panic|already in use|failed to", ln)][:6]
            tail = "\n".join(errs or tail.split("\n")[-15:])
            if re.search(r"address already in use", tail):
                why = (why + "; a port is busy (address already in use)").strip("; ")
            why = (why or "status did not report height >= 2 in time") + "\n" + tail
        self.check("node starts and reaches height >= 2", ok, "chain-node-did-not-start", why,
                   "fundraisingd start --minimum-gas-prices 0stake")
        return ok

    def node_log_tail(self, n=15):
        try:
            with open(self.nodelog, errors="replace") as f:
                return "\n".join(f.read().split("\n")[-n:])
        except OSError:
            return ""

    def stop_node(self):
        self.obs_stop.set()
        if self.obs_thread is not None:
            self.obs_thread.join(timeout=20)
        p = self.proc
        if p is None:
            return
        if p.poll() is None:
            for sig, wait in ((signal.SIGTERM, 8), (signal.SIGKILL, 5)):
                try:
                    os.killpg(p.pid, sig)
                except (ProcessLookupError, PermissionError):
                    try:
                        p.terminate() if sig == signal.SIGTERM else p.kill()
                    except ProcessLookupError:
                        pass
                try:
                    p.wait(timeout=wait)
                    break
                except subprocess.TimeoutExpired:
                    continue
        try:
            os.killpg(p.pid, signal.SIGKILL)   # stragglers of the group, if any
        except (ProcessLookupError, PermissionError):
            pass
        self.proc = None

    # ---- transactions ------------------------------------------------------------------------
    def tx(self, cmd, args, sender, label=None):
        """broadcast `tx fundraising <cmd> args`; wait for inclusion; returns dict(code, raw_log, hash, cli_rc, stage)"""
        label = label or cmd
        argv = ["tx", "fundraising", cmd] + list(args) + [
            "--from", sender, "--keyring-backend", "test", "--chain-id", CHAIN_ID, "--fees", "0stake",
            "--gas", "1000000", "--broadcast-mode", "sync", "-y", "--output", "json"]
        rc, out, err, shown = self.cli(argv, timeout=30, record=True)
        res = {"cmd": shown, "cli_rc": rc, "stage": "cli", "code": None, "raw_log": "", "hash": None,
               "stderr": err.strip()[-800:], "events": []}
        if rc != 0:
            res["raw_log"] = err.strip()[-800:]
            return res
        return self.await_tx(res, out)

    def await_tx(self, res, out):
        """res completed with the CheckTx answer `out` and, if accepted, with the result once included"""
        try:
            b = first_json(out)
        except ValueError:
            res["raw_log"] = "unparseable broadcast answer: " + out[:400]
            return res
        res.update(stage="checktx", code=b.get("code", 0), raw_log=b.get("raw_log", ""), hash=b.get("txhash"))
        if res["code"] != 0 or not res["hash"]:
            return res
        deadline = time.time() + min(STEP_TIMEOUT, max(5.0, self.left()))
        last = ""
        while time.time() < deadline:
            rc2, out2, err2, _ = self.cli(["query", "tx", res["hash"], "--output", "json"], timeout=10)
            if rc2 == 0:
                try:
                    t = first_json(out2)
                    res.update(stage="deliver", code=t.get("code", 0), raw_log=t.get("raw_log", ""),
                               height=t.get("height"), events=t.get("events") or [])
                    self.sample("fundraisingd query tx %s --output json" % res["hash"], 0,
                                "TX RESULT of [%s]: height=%s codespace=%s code=%s raw_log=%s" % (
                                    res["cmd"].split(" --from")[0], t.get("height"), t.get("codespace", ""),
                                    t.get("code", 0), t.get("raw_log", "")))
                    return res
                except ValueError:
                    last = out2[:300]
            else:
                last = err2.strip()[-300:]
            time.sleep(0.25)
        res.update(stage="not-included", raw_log="tx %s not found after waiting: %s" % (res["hash"], last))
        return res

    def positional(self, group, cmd, values):
        """fill the positional arguments named by the Usage line; returns (argv, names) or (None, names)"""
        u = self.usage(group, cmd)
        if u is None:
            return None, None
        names, _ = u
        argv = []
        for n in names:
            if n not in values:
                self.check("usage of %s: positional [%s] is known" % (cmd, n), False,
                           "chain-cli-unknown-positional:" + cmd, "Usage names %s" % names, cmd)
                return None, names
            argv.append(values[n])
        return argv, names

    # ---- observer ----------------------------------------------------------------------------
    def observe_once(self):
        now = time.time() - self.t0
        lst, src, why = self.list_auctions()
        if why:
            with self.lock:
                self.obs_errors.append((round(now, 2), "list-auction", clip(why, 400)))
        aids = []
        if lst is not None:
            for a in lst:
                b = base_of(a)
                try:
                    aid = int(b.get("id", 0) or 0)
                except (TypeError, ValueError):
                    continue
                aids.append(aid)
                st = b.get("status", "AUCTION_STATUS_UNSPECIFIED")
                ne = len(b.get("end_times") or [])
                with self.lock:
                    h = self.hist.setdefault(aid, [])
                    if not h or (h[-1][1], h[-1][2]) != (st, ne):
                        h.append((round(now, 2), st, ne, src))
                    self.last_auction[aid] = a
        qs, src, why = self.list_vqueues(aids)
        if why:
            with self.lock:
                self.obs_errors.append((round(now, 2), "list-vesting-queue", clip(why, 400)))
        if qs is not None:
            snap = sorted((int(q.get("auction_id", 0) or 0), q.get("release_time", ""), bool(q.get("released", False)))
                          for q in qs)
            with self.lock:
                if not self.vq_hist or self.vq_hist[-1][1] != snap:
                    self.vq_hist.append((round(now, 2), snap, src))

    def observer(self):
        while not self.obs_stop.is_set():
            try:
                self.observe_once()
            except Exception as e:  # the observer must never die silently
                with self.lock:
                    self.obs_errors.append((round(time.time() - self.t0, 2), "observer", repr(e)))
            self.obs_stop.wait(0.2)

    def statuses(self, aid):
        with self.lock:
            out = []
            for h in self.hist.get(aid, []):
                if not out or out[-1] != h[1]:
                    out.append(h[1])
            return out

    def wait_for(self, pred, timeout):
        deadline = time.time() + min(timeout, max(1.0, self.left()))
        while time.time() < deadline:
            if pred():
                return True
            if self.proc is not None and self.proc.poll() is not None:
                return pred()
            time.sleep(0.1)
        return pred()

    # ---- the scenario ------------------------------------------------------------------------
    def scenario(self):
        alice, bob = self.addr["alice"], self.addr["bob"]

        # -- 0. params before anything else
        rc, obj, out, err, shown = self.query("params", [])
        p = (obj or {}).get("params") if isinstance(obj, dict) else None
        self.check("params: object with auction_creation_fee", isinstance(p, dict) and "auction_creation_fee" in p,
                   "chain-query-content:params", out[:600], shown)
        if isinstance(p, dict):
            self.check("params: creation fee is the default 100000000stake",
                       p.get("auction_creation_fee") == [DEFAULT_CREATION_FEE],
                       "chain-query-content:params-fee", json.dumps(p), shown)
            self.check("params: extended_period is the genesis value 0", int(p.get("extended_period", 0) or 0) == 0,
                       "chain-query-content:params-extended-period", json.dumps(p), shown)

        rc, obj, out, err, shown = self.query("list-auction", [])
        self.check("list-auction: empty before any tx",
                   isinstance(obj, dict) and not (obj.get("auctions") or obj.get("auction")),
                   "chain-query-content:list-auction-initial", out[:600], shown)

        self.obs_thread = threading.Thread(target=self.observer, daemon=True)
        self.obs_thread.start()

        # -- 2a. fixed price auction with two vesting schedules
        now = time.time()
        a_start, a_end = now + A_START, now + A_START + A_LEN
        a_rel = [a_end + A_REL1, a_end + A_REL2]
        sched = ['{"release_time":"%s","weight":"%s"}' % (rfc3339(t), RAW_HALF) for t in a_rel]
        values = {"start-price": RAW_HALF, "selling-coin": "".join(SELLING), "paying-coin-denom": PAYING,
                  "start-time": rfc3339(a_start), "end-time": rfc3339(a_end), "vesting-schedules": sched[0]}
        ids = {}
        argv, names = self.positional("tx", "create-fixed-price-auction", values)
        self.check("create-fixed-price-auction exists and its Usage is understood", argv is not None,
                   "chain-cli-missing:create-fixed-price-auction", "names=%s" % names, "create-fixed-price-auction --help")
        n_sched_a = 2
        if argv is not None:
            if "vesting-schedules" in names:
                n_sched_a = 1
                self.check("create-fixed-price-auction: vesting schedules are repeatable (flag, not positional)", False,
                           "chain-cli-repeated-positional:create-fixed-price-auction",
                           "Usage has [vesting-schedules] as a positional argument: exactly one schedule can be typed",
                           "create-fixed-price-auction --help")
            elif self.has_flag("tx", "create-fixed-price-auction", "vesting-schedules"):
                self.check("create-fixed-price-auction: vesting schedules are repeatable (flag, not positional)", True)
                for s in sched:
                    argv += ["--vesting-schedules", s]
            else:
                n_sched_a = 0
                self.check("create-fixed-price-auction: vesting schedules are repeatable (flag, not positional)", False,
                           "chain-cli-no-vesting-schedules:create-fixed-price-auction",
                           "neither a positional nor a --vesting-schedules flag", "create-fixed-price-auction --help")
            r = self.tx("create-fixed-price-auction", argv, "alice")
            ok = self.check("tx create-fixed-price-auction included with code 0", r["stage"] == "deliver" and r["code"] == 0,
                            "chain-tx-failed:create-fixed-price-auction",
                            "stage=%s code=%s log=%s" % (r["stage"], r["code"], r["raw_log"]), r["cmd"])
            if ok:
                ids["a"] = self.new_auction_id(ids)
        self.a_times = (a_start, a_end, a_rel[:n_sched_a] if n_sched_a else [])

        if "a" in ids:
            self.check_auction(ids["a"], "a", alice, "fixed", rfc3339(a_start), [rfc3339(a_end)],
                               [(rfc3339(t), DEC_HALF) for t in a_rel][:n_sched_a],
                               [STATUS["STAND_BY"], STATUS["STARTED"]])
            aid0 = ids["a"]
            self.wait_for(lambda: bool(self.statuses(aid0)), 5)
            self.check("auction (a) is first seen in STAND_BY", (self.statuses(aid0) or [None])[0] == STATUS["STAND_BY"],
                       "chain-lifecycle:not-standby", "history %s" % self.hist.get(aid0), "list-auction")

        # -- 2b. batch auction, no vesting schedule
        now = time.time()
        b_start, b_end = now + B_START, now + B_START + B_LEN
        values = {"start-price": RAW_HALF, "min-bid-price": RAW_TENTH, "selling-coin": "".join(SELLING),
                  "paying-coin-denom": PAYING, "max-extended-round": "1", "extended-round-rate": RAW_TENTH,
                  "start-time": rfc3339(b_start), "end-time": rfc3339(b_end)}
        argv, names = self.positional("tx", "create-batch-auction", values)
        self.check("create-batch-auction exists and its Usage is understood", argv is not None,
                   "chain-cli-missing:create-batch-auction", "names=%s" % names, "create-batch-auction --help")
        if argv is not None:
            r = self.tx("create-batch-auction", argv, "alice")
            ok = self.check("tx create-batch-auction included with code 0", r["stage"] == "deliver" and r["code"] == 0,
                            "chain-tx-failed:create-batch-auction",
                            "stage=%s code=%s log=%s" % (r["stage"], r["code"], r["raw_log"]), r["cmd"])
            if ok:
                ids["b"] = self.new_auction_id(ids)
        if "b" in ids:
            self.check_auction(ids["b"], "b", alice, "batch", rfc3339(b_start), [rfc3339(b_end)], [],
                               [STATUS["STAND_BY"], STATUS["STARTED"]])

        # -- 2c. far-future auction, then cancelled
        now = time.time()
        c_start, c_end = now + 3650 * 86400, now + 3660 * 86400
        values = {"start-price": RAW_HALF, "selling-coin": "".join(SELLING), "paying-coin-denom": PAYING,
                  "start-time": rfc3339(c_start), "end-time": rfc3339(c_end),
                  "vesting-schedules": '{"release_time":"%s","weight":"1000000000000000000"}' % rfc3339(c_end + 86400)}
        argv, names = self.positional("tx", "create-fixed-price-auction", values)
        if argv is not None:
            r = self.tx("create-fixed-price-auction", argv, "alice", "create-fixed-price-auction(c)")
            ok = self.check("tx create-fixed-price-auction (far future, no schedule flag) included with code 0",
                            r["stage"] == "deliver" and r["code"] == 0, "chain-tx-failed:create-fixed-price-auction-c",
                            "stage=%s code=%s log=%s" % (r["stage"], r["code"], r["raw_log"]), r["cmd"])
            if ok:
                ids["c"] = self.new_auction_id(ids)
        if "c" in ids:
            nsc = 1 if "vesting-schedules" in (names or []) else 0
            self.check_auction(ids["c"], "c", alice, "fixed", rfc3339(c_start), [rfc3339(c_end)],
                               [(rfc3339(c_end + 86400), "1.000000000000000000")][:nsc], [STATUS["STAND_BY"]])
            argv, names = self.positional("tx", "cancel-auction", {"auction-id": str(ids["c"])})
            self.check("cancel-auction exists and its Usage is understood", argv is not None,
                       "chain-cli-missing:cancel-auction", "names=%s" % names, "cancel-auction --help")
            if argv is not None:
                r = self.tx("cancel-auction", argv, "alice")
                self.check("tx cancel-auction included with code 0", r["stage"] == "deliver" and r["code"] == 0,
                           "chain-tx-failed:cancel-auction",
                           "stage=%s code=%s log=%s" % (r["stage"], r["code"], r["raw_log"]), r["cmd"])
                a, src, shown, raw = self.get_auction(ids["c"])
                st = base_of(a).get("status")
                self.check("auction (c) is CANCELLED after cancel-auction [%s]" % src, st == STATUS["CANCELLED"],
                           "chain-lifecycle:not-cancelled", raw[:800], shown)
        self.ids = ids

        # -- 4. the allow-list switch is off at run time
        if "a" in ids:
            aid = ids["a"]
            started = self.wait_for(lambda: STATUS["STARTED"] in self.statuses(aid), STEP_TIMEOUT)
            self.check("auction (a) goes STAND_BY -> STARTED", started, "chain-lifecycle:not-started",
                       "history %s last %s" % (self.hist.get(aid), json.dumps(self.last_auction.get(aid))), "list-auction")
            values = {"auction-id": str(aid), "bid-type": "fixed-price", "price": RAW_HALF, "coin": "10" + PAYING}
            argv, names = self.positional("tx", "place-bid", values)
            self.check("place-bid exists and its Usage is understood", argv is not None,
                       "chain-cli-missing:place-bid", "names=%s" % names, "place-bid --help")
            if argv is not None:
                r = self.tx("place-bid", argv, "bob")
                self.bid_result = r
                sent = r["stage"] in ("deliver", "checktx") and r["cli_rc"] == 0
                self.check("place-bid of a non allow-listed bidder reaches the chain (CLI accepts the typed arguments)",
                           sent, "chain-tx-not-sent:place-bid",
                           "stage=%s rc=%s %s" % (r["stage"], r["cli_rc"], r["raw_log"]), r["cmd"])
                if sent:
                    self.check("place-bid of a non allow-listed bidder is rejected by the chain (code != 0)",
                               r["code"] not in (0, None), "chain-nonallowlisted-bid-accepted",
                               "stage=%s code=%s log=%s" % (r["stage"], r["code"], r["raw_log"]), r["cmd"])
                    self.check("place-bid rejection names the allow-list",
                               re.search(r"not allowed|allowed bidder|allow", r["raw_log"] or "", re.I) is not None,
                               "chain-nonallowlisted-bid-wrong-error",
                               "code=%s log=%s" % (r["code"], r["raw_log"]), r["cmd"])
            values = {"auction-id": str(ids.get("b", aid)), "bid-id": "1", "price": RAW_HALF, "coin": "20" + PAYING}
            argv, names = self.positional("tx", "modify-bid", values)
            self.check("modify-bid exists and its Usage is understood", argv is not None,
                       "chain-cli-missing:modify-bid", "names=%s" % names, "modify-bid --help")
            if argv is not None:
                r = self.tx("modify-bid", argv, "bob")
                self.modify_result = r
                sent = r["stage"] in ("deliver", "checktx") and r["cli_rc"] == 0
                self.check("modify-bid of an absent bid reaches the chain and is rejected (code != 0)",
                           sent and r["code"] not in (0, None), "chain-tx-unexpected:modify-bid",
                           "stage=%s rc=%s code=%s log=%s" % (r["stage"], r["cli_rc"], r["code"], r["raw_log"]), r["cmd"])
            self.add_allowed_bidder(aid, bob)

        # -- 3. queries
        self.queries(ids, alice, bob)

        # -- 5. life cycle
        self.lifecycle(ids)

    def new_auction_id(self, ids):
        """the id that the auction list shows and that we have not attributed yet"""
        known = set(ids.values())
        lst, src, why = self.list_auctions()
        cand = []
        for a in lst or []:
            try:
                i = int(base_of(a).get("id", 0) or 0)
            except (TypeError, ValueError):
                continue
            if i not in known:
                cand.append(i)
        if len(cand) == 1:
            return cand[0]
        nxt = (max(known) + 1) if known else 0
        self.check("the new auction is listed", False, "chain-query-content:list-auction-new",
                   "unattributed ids %s (%s); assuming %d" % (cand, why, nxt), "list-auction")
        return nxt

    def check_auction(self, aid, tag, auctioneer, kind, start, ends, scheds, statuses):
        """what was typed is what is stored: the auction read back (CLI, else gateway) against the typed values"""
        a, src, shown, out = self.get_auction(aid)
        b = base_of(a)
        sig = "chain-roundtrip:%s:" % ("create-fixed-price-auction" if kind == "fixed" else "create-batch-auction")
        name = "auction %d (%s) read back [%s]: " % (aid, tag, src)
        self.check("auction %d (%s) can be read back" % (aid, tag), isinstance(a, dict) and bool(b),
                   "chain-query-content:get-auction", out[:600], shown)
        if not b:
            return
        typ = (a.get("@type") or a.get("type") or b.get("type") or "")
        want_t = "FixedPrice" if kind == "fixed" else "Batch"
        self.check(name + "type is %s" % want_t,
                   want_t.lower() in str(typ).replace("_", "").lower() or
                   ("FIXED_PRICE" if kind == "fixed" else "BATCH") in str(b.get("type", "")),
                   sig + "type", "type=%r base.type=%r" % (typ, b.get("type")), shown)
        self.check(name + "id", str(b.get("id", "0")) == str(aid), sig + "id", json.dumps(b)[:400], shown)
        self.check(name + "auctioneer is the sender", b.get("auctioneer") == auctioneer, sig + "auctioneer",
                   "%r != %r" % (b.get("auctioneer"), auctioneer), shown)
        self.check(name + "selling coin as typed", b.get("selling_coin") == {"denom": SELLING[1], "amount": SELLING[0]},
                   sig + "selling_coin", json.dumps(b.get("selling_coin")), shown)
        self.check(name + "paying denom as typed", b.get("paying_coin_denom") == PAYING, sig + "paying_coin_denom",
                   repr(b.get("paying_coin_denom")), shown)
        self.dec_check(name + 'start price "%s"' % DEC_HALF, b.get("start_price"), DEC_HALF, RAW_HALF, sig,
                       "start_price", shown)
        self.check(name + "start time as typed", same_time(b.get("start_time", ""), start), sig + "start_time",
                   "%r != %r" % (b.get("start_time"), start), shown)
        et = b.get("end_times") or []
        self.check(name + "end time as typed", len(et) >= 1 and same_time(et[0], ends[0]), sig + "end_time",
                   "%r != %r" % (et, ends), shown)
        vs = b.get("vesting_schedules") or []
        ok = len(vs) == len(scheds) and all(same_time(v.get("release_time", ""), s[0]) for v, s in zip(vs, scheds))
        self.check(name + "%d vesting schedule(s) with the typed release times" % len(scheds), ok,
                   sig + "vesting_schedules", "%s != %s" % (json.dumps(vs), scheds), shown)
        if ok:
            for i, (v, s) in enumerate(zip(vs, scheds)):
                raw = s[1].replace(".", "").lstrip("0") or "0"
                self.dec_check(name + 'schedule %d weight "%s"' % (i, s[1]), v.get("weight"), s[1], raw, sig,
                               "vesting_schedules.weight", shown)
        self.check(name + "status in %s" % [s.replace("AUCTION_STATUS_", "") for s in statuses],
                   b.get("status") in statuses, "chain-query-content:get-auction-status", repr(b.get("status")), shown)
        for k in ("selling_reserve_address", "paying_reserve_address", "vesting_reserve_address"):
            self.check(name + k + " is shown", isinstance(b.get(k), str) and b.get(k, "").startswith("cosmos1"),
                       "chain-query-content:get-auction-" + k, repr(b.get(k)), shown)
        if kind == "batch":
            self.dec_check(name + 'min bid price "%s"' % DEC_TENTH, a.get("min_bid_price"), DEC_TENTH, RAW_TENTH, sig,
                           "min_bid_price", shown)
            self.check(name + "max extended round 1", int(a.get("max_extended_round", 0) or 0) == 1,
                       sig + "max_extended_round", repr(a.get("max_extended_round")), shown)
            self.dec_check(name + 'extended round rate "%s"' % DEC_TENTH, a.get("extended_round_rate"), DEC_TENTH,
                           RAW_TENTH, sig, "extended_round_rate", shown)
        else:
            self.check(name + "remaining selling coin is the whole selling coin",
                       a.get("remaining_selling_coin") == {"denom": SELLING[1], "amount": SELLING[0]},
                       "chain-query-content:get-auction-remaining", json.dumps(a.get("remaining_selling_coin")), shown)

    def dec_check(self, name, got, dec, raw, sig, field, shown):
        """a decimal must be shown as a decimal; the raw 18-digit integer is a display defect of its own"""
        if got == raw and raw != dec:
            return self.check(name, False, "chain-query-dec-raw:" + field,
                              "%s is displayed as the raw integer %r instead of %r" % (field, got, dec), shown)
        return self.check(name, got == dec, sig + field, "%r != %r" % (got, dec), shown)

    def add_allowed_bidder(self, aid, bob):
        """the default build must refuse MsgAddAllowedBidder at run time ("... is disabled")"""
        ab = {"auction_id": str(aid), "bidder": bob, "max_bid_amount": "100"}
        abj = json.dumps(ab, separators=(",", ":"))
        u = self.usage("tx", "add-allowed-bidder")
        disabled = False
        if u is None:
            self.check("add-allowed-bidder: command absent from the default build", True)
            self.sample("fundraisingd tx fundraising add-allowed-bidder --help", None, "command not present")
        else:
            names, text = u
            values = {"auction-id": str(aid), "allowed-bidder": abj}
            argv = [values[n] for n in names if n in values]
            if "auction-id" not in names and self.has_flag("tx", "add-allowed-bidder", "auction-id"):
                argv += ["--auction-id", str(aid)]
            can_name_bidder = "allowed-bidder" in names
            if not can_name_bidder and self.has_flag("tx", "add-allowed-bidder", "allowed-bidder"):
                argv += ["--allowed-bidder", abj]
                can_name_bidder = True
            r = self.tx("add-allowed-bidder", argv, "bob")
            self.aab_result = r
            rejected = not (r["stage"] == "deliver" and r["code"] == 0)
            self.check("add-allowed-bidder typed at the CLI is rejected in the default build", rejected,
                       "chain-add-allowed-bidder-accepted",
                       "stage=%s code=%s log=%s" % (r["stage"], r["code"], r["raw_log"]), r["cmd"])
            disabled = rejected and re.search(r"disabled", r["raw_log"] or "", re.I) is not None
            self.sample(r["cmd"], r["cli_rc"], "ADD-ALLOWED-BIDDER VIA CLI: positional=%s bidder can be typed=%s stage=%s "
                        "code=%s log=%s" % (names, can_name_bidder, r["stage"], r["code"], r["raw_log"]))
            if can_name_bidder:
                self.check("add-allowed-bidder rejection says the switch is disabled", disabled,
                           "chain-add-allowed-bidder-wrong-error",
                           "stage=%s code=%s log=%s" % (r["stage"], r["code"], r["raw_log"]), r["cmd"])
        if not disabled:
            # the CLI of this build cannot name the bidder (or has no such command): the message is written
            # by hand, signed and broadcast with the binary's generic `tx sign` / `tx broadcast`
            r = self.raw_tx({"@type": "/fundraising.fundraising.v1.MsgAddAllowedBidder", "auction_id": str(aid),
                             "allowed_bidder": ab}, "bob", "add-allowed-bidder(hand-written)")
            self.aab_raw_result = r
            rejected = not (r["stage"] == "deliver" and r["code"] == 0)
            self.check("hand-written MsgAddAllowedBidder is rejected by the node", rejected,
                       "chain-add-allowed-bidder-accepted",
                       "stage=%s code=%s log=%s" % (r["stage"], r["code"], r["raw_log"]), r["cmd"])
            self.check("hand-written MsgAddAllowedBidder: the node says the switch is disabled",
                       rejected and r["stage"] == "deliver" and re.search(r"disabled", r["raw_log"] or "", re.I) is not None,
                       "chain-add-allowed-bidder-wrong-error",
                       "stage=%s code=%s log=%s" % (r["stage"], r["code"], r["raw_log"]), r["cmd"])
        rc, obj, out, err, shown = self.query("list-allowed-bidder", self.auction_flag("list-allowed-bidder", aid))
        lst = self.pick(obj, "allowed_bidders", "allowed_bidder", "allowedBidder")
        self.check("list-allowed-bidder stays empty", isinstance(obj, dict) and not lst,
                   "chain-allowlist-not-empty", out[:600], shown)

    def raw_tx(self, msg, sender, label):
        """sign and broadcast a hand-written message with `tx sign` / `tx broadcast`; same result shape as tx()"""
        unsigned = os.path.join(self.work, "unsigned.json")
        signed = os.path.join(self.work, "signed.json")
        doc = {"body": {"messages": [msg], "memo": "", "timeout_height": "0", "extension_options": [],
                        "non_critical_extension_options": []},
               "auth_info": {"signer_infos": [], "fee": {"amount": [], "gas_limit": "1000000", "payer": "", "granter": ""},
                             "tip": None}, "signatures": []}
        json.dump(doc, open(unsigned, "w"))
        rc, out, err, shown = self.cli(["tx", "sign", unsigned, "--from", sender, "--keyring-backend", "test",
                                        "--chain-id", CHAIN_ID, "--output-document", signed], record=True)
        res = {"cmd": shown, "cli_rc": rc, "stage": "cli", "code": None, "raw_log": err.strip()[-800:], "hash": None,
               "events": []}
        if rc != 0:
            return res
        rc, out, err, shown = self.cli(["tx", "broadcast", signed, "--broadcast-mode", "sync", "--output", "json"],
                                       record=True)
        res.update(cmd=shown + "   # " + json.dumps(msg, separators=(",", ":")), cli_rc=rc)
        if rc != 0:
            res["raw_log"] = err.strip()[-800:]
            return res
        return self.await_tx(res, out)

    def auction_flag(self, cmd, aid):
        """how the auction id is passed to a list query of the binary under test"""
        u = self.usage("query", cmd)
        if u is None:
            return []
        if "auction-id" in u[0]:
            return [str(aid)]
        if self.has_flag("query", cmd, "auction-id"):
            return ["--auction-id", str(aid)]
        return []

    def negative(self, name, args):
        rc, obj, out, err, shown = self.query(name, args, expect_ok=False)
        text = (out + "\n" + err)
        notfound = re.search(r"not ?found|NotFound|does not exist|invalid", text, re.I) is not None
        how = "exit %d" % rc if rc != 0 else ("exit 0 with error text" if notfound else "exit 0, no error")
        self.samples.append({"cmd": shown, "rc": rc, "out": "NEGATIVE CASE: " + how, "err": err.strip()[-300:]})
        self.check("query %s %s: absent object is reported (%s)" % (name, " ".join(args), how),
                   (rc != 0 or notfound) and rc != -9, "chain-query-negative:" + name,
                   "rc=%d out=%s err=%s" % (rc, out[:300], err[-300:]), shown)
        if rc != 0:
            self.check("query %s %s: error names 'not found'" % (name, " ".join(args)), notfound,
                       "chain-query-negative-message:" + name, err[-400:], shown)

    def queries(self, ids, alice, bob):
        rc, obj, out, err, shown = self.query("list-auction", [])
        lst = self.pick(obj, "auctions", "auction")
        if isinstance(obj, dict):
            got = sorted(int(base_of(a).get("id", 0) or 0) for a in lst)
            self.check("list-auction shows the %d created auctions" % len(ids), got == sorted(ids.values()),
                       "chain-query-content:list-auction", "ids %s, want %s" % (got, sorted(ids.values())), shown)
            self.check("list-auction: every entry carries its concrete type",
                       bool(lst) and all(isinstance(a, dict) and (a.get("@type") or a.get("type")) for a in lst),
                       "chain-query-content:list-auction-type", out[:400], shown)
        for flag, val, want in (("status", STATUS["CANCELLED"], [ids["c"]] if "c" in ids else []),
                                ("type", "AUCTION_TYPE_BATCH", [ids["b"]] if "b" in ids else [])):
            if self.has_flag("query", "list-auction", flag):
                rc, obj, out, err, shown = self.query("list-auction", ["--" + flag, val])
                if isinstance(obj, dict):
                    g2 = sorted(int(base_of(a).get("id", 0) or 0) for a in self.pick(obj, "auctions", "auction"))
                    self.check("list-auction --%s %s filters" % (flag, val), g2 == sorted(want),
                               "chain-query-content:list-auction-" + flag, "ids %s, want %s" % (g2, want), shown)
        aid = ids.get("a", 0)
        for name, keys in (("list-bid", ("bids", "bid")),
                           ("list-allowed-bidder", ("allowed_bidders", "allowed_bidder", "allowedBidder")),
                           ("list-vesting-queue", ("vesting_queues", "vesting_queue", "vestingQueue"))):
            if self.usage("query", name) is None:
                self.check("query %s exists" % name, False, "chain-cli-missing:" + name, "", name)
                continue
            flag = self.auction_flag(name, aid)
            self.check("query %s: the auction id can be typed (%s)" % (name, " ".join(flag) or "-"), bool(flag),
                       "chain-cli-no-auction-id:" + name, "neither positional nor --auction-id", name + " --help")
            for args in ([], flag) if flag else ([],):
                rc, obj, out, err, shown = self.query(name, args)
                if isinstance(obj, dict):
                    lst = self.pick(obj, *keys)
                    self.check("query %s %s: an object with pagination" % (name, " ".join(args)), "pagination" in obj,
                               "chain-query-content:" + name, out[:400], shown)
                    if name != "list-vesting-queue":
                        self.check("query %s %s: nothing stored (no bidder can be allow-listed)" % (name, " ".join(args)),
                                   lst == [], "chain-nonallowlisted-bid-stored" if name == "list-bid" else
                                   "chain-allowlist-not-empty", out[:600], shown)
        self.negative("get-auction", ["99"])
        self.negative("get-bid", [str(aid), "1"])
        self.negative("get-allowed-bidder", [str(aid), bob])

    def lifecycle(self, ids):
        a_start, a_end, a_rel = self.a_times

        def last(i):
            with self.lock:
                return "history %s last %s" % (self.hist.get(i), json.dumps(self.last_auction.get(i)))

        if "b" in ids:
            b = ids["b"]
            ok = self.wait_for(lambda: STATUS["STARTED"] in self.statuses(b), STEP_TIMEOUT)
            self.check("auction (b) is STARTED", ok, "chain-lifecycle:batch-not-started", last(b), "list-auction")
            ok = self.wait_for(lambda: STATUS["FINISHED"] in self.statuses(b), STEP_TIMEOUT)
            self.check("auction (b) goes STARTED -> FINISHED", ok, "chain-lifecycle:batch-not-finished", last(b),
                       "list-auction")
            ba, src, shown, raw = self.get_auction(b)
            ba = ba or {}
            et = base_of(ba).get("end_times") or []
            self.check("auction (b) was extended once: two end times (max-extended-round 1, no bids) [%s]" % src,
                       len(et) == 2, "chain-lifecycle:batch-not-extended", "end_times %s" % et, shown)
            if len(et) == 2:
                self.check("auction (b): second end time = first + extended_period (0 days in this genesis)",
                           same_time(et[0], et[1]), "chain-lifecycle:batch-extension-time", "end_times %s" % et, shown)
            self.dec_check("auction (b) FINISHED: matched price is displayed as the decimal 0 (nothing sold) [%s]" % src,
                           ba.get("matched_price"), "0.000000000000000000", "0", "chain-query-content:get-auction-",
                           "matched_price", shown)
            hist = self.statuses(b)
            self.check("auction (b) status sequence is [STAND_BY,] STARTED, FINISHED",
                       hist in ([STATUS["STARTED"], STATUS["FINISHED"]],
                                [STATUS["STAND_BY"], STATUS["STARTED"], STATUS["FINISHED"]]),
                       "chain-lifecycle:batch-sequence", last(b), "list-auction")
        if "a" in ids:
            a = ids["a"]
            ok = self.wait_for(lambda: STATUS["VESTING"] in self.statuses(a) or STATUS["FINISHED"] in self.statuses(a),
                               STEP_TIMEOUT)
            self.check("auction (a) goes STARTED -> VESTING", ok and STATUS["VESTING"] in self.statuses(a),
                       "chain-lifecycle:not-vesting", last(a), "list-auction")

            def queues():
                with self.lock:
                    snap = self.vq_hist[-1][1] if self.vq_hist else []
                return [q for q in snap if q[0] == a]
            self.wait_for(lambda: len(queues()) == len(a_rel), 10)
            qs, src, shown, raw = self.get_vqueues(a)
            qs = qs or []
            self.check("vesting queue list shows %d queues for auction (a) [%s]" % (len(a_rel), src),
                       len(qs) == len(a_rel), "chain-vesting-queue:count", raw[:800], shown)
            okq = len(qs) == len(a_rel) and all(
                same_time(q.get("release_time", ""), rfc3339(t)) and q.get("auctioneer") == self.addr["alice"]
                and isinstance(q.get("paying_coin"), dict) and q["paying_coin"].get("denom") == PAYING
                for q, t in zip(sorted(qs, key=lambda q: q.get("release_time", "")), a_rel))
            self.check("vesting queues carry the typed release times, the auctioneer and the paying coin [%s]" % src, okq,
                       "chain-vesting-queue:content", json.dumps(qs)[:800], shown)
            if "b" in ids:
                qb, srcb, shownb, rawb = self.get_vqueues(ids["b"])
                self.check("vesting queue list asked for auction (b) shows no queue of another auction [%s]" % srcb,
                           qb is not None and not self.vq_foreign, "chain-query-filter-ignored:list-vesting-queue",
                           "asked for auction %d, got %s" % (ids["b"], json.dumps(self.vq_foreign)[:600]), shownb)
            ok = self.wait_for(lambda: STATUS["FINISHED"] in self.statuses(a), STEP_TIMEOUT)
            self.check("auction (a) is FINISHED after both release times", ok, "chain-lifecycle:not-finished", last(a),
                       "list-auction")
            hist = self.statuses(a)
            want = [STATUS["STAND_BY"], STATUS["STARTED"], STATUS["VESTING"], STATUS["FINISHED"]]
            self.check("auction (a) status sequence is STAND_BY, STARTED, VESTING, FINISHED", hist == want,
                       "chain-lifecycle:sequence", last(a), "list-auction")
            with self.lock:
                fin_t = next((h[0] for h in self.hist.get(a, []) if h[1] == STATUS["FINISHED"]), None)
            if fin_t is not None and a_rel:
                self.check("auction (a) is not FINISHED before the last release time",
                           self.t0 + fin_t >= int(a_rel[-1]) - 0.5, "chain-lifecycle:finished-early",
                           "finished at +%.1fs, last release at +%.1fs" % (fin_t, a_rel[-1] - self.t0), "list-auction")
            self.wait_for(lambda: len(queues()) == len(a_rel) and all(q[2] for q in queues()), 15)
            qs, src, shown, raw = self.get_vqueues(a)
            qs = qs or []
            self.check("all vesting queues of (a) show released = true at the end [%s]" % src,
                       len(qs) == len(a_rel) and all(q.get("released") is True for q in qs),
                       "chain-vesting-queue:not-released", raw[:800], shown)
            with self.lock:
                flips = [(h[0], [q[2] for q in h[1] if q[0] == a]) for h in self.vq_hist]
            seq = [f for _, f in flips if f]
            if len(a_rel) == 2:
                self.check("released flags turn true one after the other (FF -> TF -> TT)",
                           seq == [[False, False], [True, False], [True, True]],
                           "chain-vesting-queue:flag-order", "observed %s" % flips, "list-vesting-queue")
            fa, src, shown, raw = self.get_auction(a)
            self.check("auction (a) FINISHED can be read back [%s]; nothing was sold" % src,
                       base_of(fa).get("status") == STATUS["FINISHED"] and
                       (fa or {}).get("remaining_selling_coin") == {"denom": SELLING[1], "amount": SELLING[0]},
                       "chain-query-content:get-auction-final", raw[:800], shown)
        if "c" in ids:
            c = ids["c"]
            ca, src, shown, raw = self.get_auction(c)
            st = base_of(ca).get("status")
            hist = self.statuses(c)
            self.check("auction (c) is CANCELLED and stays so [%s]" % src, st == STATUS["CANCELLED"] and
                       bool(hist) and hist[-1] == STATUS["CANCELLED"] and
                       all(s in (STATUS["STAND_BY"], STATUS["CANCELLED"]) for s in hist),
                       "chain-lifecycle:cancelled-changed", "now %s %s" % (st, last(c)), shown)
        with self.lock:
            errs = list(self.obs_errors)
        kinds = sorted(set(k for _, k, _ in errs))
        self.check("observer: every poll of list-auction / list-vesting-queue through the CLI was displayable",
                   not errs, "chain-query-failed:observer",
                   "%d failed polls (%s); first: %s" % (len(errs), ", ".join(kinds), errs[:1]), "list-auction")
        self.check("node is still running at the end", self.proc is not None and self.proc.poll() is None,
                   "chain-node-died", self.node_log_tail(), "start")

    def result(self):
        with self.lock:
            timeline = {"auction_status_history": {str(k): v for k, v in self.hist.items()},
                        "vesting_queue_history": [(h[0], [list(q) for q in h[1]], h[2]) for h in self.vq_hist],
                        "failed_cli_polls": len(self.obs_errors),
                        "ids": getattr(self, "ids", {}), "wall_seconds": round(time.time() - self.t0, 1)}
            return {"violations": list(self.violations), "checks": list(self.checks),
                    "samples": list(self.samples) + [{"cmd": "timeline", "rc": 0, "out": json.dumps(timeline), "err": ""}]}


def run(binary_path, workdir, log=None):
    ch = Chain(os.path.abspath(binary_path), os.path.abspath(workdir), log)
    try:
        if not (os.path.isfile(ch.bin) and os.access(ch.bin, os.X_OK)):
            ch.check("binary exists", False, "chain-node-did-not-start", "no executable at %s" % ch.bin, ch.bin)
        elif ch.setup() and ch.start_node():
            ch.scenario()
    except Exception as e:  # a harness error is reported, never silently swallowed
        import traceback
        ch.check("harness runs to completion", False, "chain-harness-exception",
                 "%r\n%s" % (e, traceback.format_exc()[-1200:]), "c20chain.run")
    finally:
        ch.stop_node()
    return ch.result()


def build(outdir, log=None):
    env = dict(os.environ, GOFLAGS="-mod=mod", GOPROXY="off", GOSUMDB="off", GOTOOLCHAIN="local")
    out = os.path.join(outdir, "fundraisingd")
    p = subprocess.run(["go", "build", "-o", out, "./cmd/fundraisingd"], cwd=REPO, env=env,
                       stdout=subprocess.PIPE, stderr=subprocess.STDOUT, text=True, timeout=900)
    if p.returncode != 0:
        raise RuntimeError("go build failed:\n" + p.stdout[-2000:])
    return out


def main():
    def on_signal(signum, frame):
        raise KeyboardInterrupt("signal %d" % signum)
    signal.signal(signal.SIGTERM, on_signal)
    signal.signal(signal.SIGHUP, on_signal)
    log = (lambda s: print(s, file=sys.stderr, flush=True)) if "-v" in sys.argv[1:] else None
    tmp = tempfile.mkdtemp(prefix="verif-c20chain-", dir="/var/tmp")
    rc = 1
    try:
        t = time.time()
        binary = build(tmp, log)
        if log:
            log("[c20chain] built in %.1fs" % (time.time() - t))
        res = run(binary, os.path.join(tmp, "work"), log)
        res["wall_seconds"] = round(time.time() - t, 1)
        print(json.dumps(res, indent=1))
        rc = 0 if not res["violations"] else 2
    finally:
        shutil.rmtree(tmp, ignore_errors=True)
    return rc


if __name__ == "__main__":
    sys.exit(main())
