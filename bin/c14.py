"""C14: the part a Lean theorem cannot exhibit — Go's runtime map iteration order.
Settlement-heavy histories from the differential run are re-executed R times in fresh
processes with the complete ordered event stream switched on; every execution must be
byte-identical (state dumps, ordered T lines, ordered E lines)."""
import hashlib
import os
import subprocess

import vlib


def run(tier, seed):
    out = dict(violations=[], coverage={}, evaluations=0, samples=[])
    reps = 8 if tier == "thorough" else 4
    runs, cdir = vlib.correspondence(tier, seed)
    env = dict(vlib.GOENV, HARNESS_EVENTS="1")
    files = [r["ops"] for r in runs][: (8 if tier == "thorough" else 6)]
    settle_multi = 0
    for f in files:
        hashes = {}
        outputs = {}
        procs = [subprocess.Popen([vlib.HBIN, "run", f], cwd=vlib.HARNESS, env=env, stdout=subprocess.PIPE,
                                  stderr=subprocess.DEVNULL) for _ in range(reps)]
        for i, p in enumerate(procs):
            data, _ = p.communicate(timeout=3600)
            h = hashlib.sha256(data).hexdigest()
            hashes.setdefault(h, []).append(i)
            outputs[h] = data
            out["evaluations"] += 1
        if len(hashes) > 1:
            hs = list(hashes)
            a = outputs[hs[0]].decode().split("\n")
            b = outputs[hs[1]].decode().split("\n")
            k = next(i for i in range(min(len(a), len(b))) if a[i] != b[i])
            # find enclosing op and history
            ops = []
            for line in a[:k + 1]:
                if line.startswith("> "):
                    if line[2:].startswith("reset"):
                        ops = []
                    ops.append(line[2:])
            out["violations"].append(dict(
                sig="replay-differs", found=True, pid="C14", ops=ops,
                msg="two executions of the same history differ at output line %d: %r vs %r (run with HARNESS_EVENTS=1, %d executions, %d distinct outputs)"
                    % (k, a[k], b[k], reps, len(hashes))))
            break
    for r in runs:
        settle_multi += r["dist"].get("batch_settlements_with_2plus_winners", 0)
    out["coverage"] = dict(repeated_executions_per_file=reps, files_replayed=len(files),
                           batch_settlements_with_2plus_winners_in_run=settle_multi)
    out["samples"].append(dict(kind="op file re-executed %d times with ordered events" % reps, file=os.path.basename(files[0]) if files else None))
    return out
