#!/usr/bin/env python3
"""Shared machinery of /verif/bin/check: builds, correspondence runs, stream parsing,
projections, replay extraction, evidence.  No third-party imports."""
import fcntl
import hashlib
import json
import os
import re
import shutil
import subprocess
import sys
import time

VERIF = os.path.dirname(os.path.dirname(os.path.abspath(__file__)))
REPO = os.environ.get("VERIF_REPO", "/repo")
LEAN = os.environ.get("VERIF_LEAN", os.path.join(VERIF, "lean"))
HARNESS = os.path.join(VERIF, "harness")
EXTRACT = os.path.join(VERIF, "extract")
CACHE = os.path.join(VERIF, ".cache")
EVIDENCE = os.environ.get("VERIF_EVIDENCE", os.path.join(VERIF, "evidence"))
REPLAYS = os.path.join(VERIF, "replays")
FMODEL = os.path.join(LEAN, ".lake", "build", "bin", "fmodel")
FPREDICT = os.path.join(LEAN, ".lake", "build", "bin", "fpredict")
FMONITOR = os.path.join(LEAN, ".lake", "build", "bin", "fmonitor")
# the harness is compiled against REPO (go.mod `replace … => /repo`); for another tree
# (seeded-change rehearsals on a scratch copy) an alternative mod file and binary are used
if REPO == "/repo":
    HBIN = os.path.join(HARNESS, "bin", "harness")
    HMOD = None
else:
    _tag = hashlib.sha256(REPO.encode()).hexdigest()[:10]
    HBIN = os.path.join(CACHE, "harness-" + _tag, "harness")
    HMOD = os.path.join(CACHE, "harness-" + _tag, "go.alt.mod")
XBIN = os.path.join(EXTRACT, "bin", "extract")

GOENV = dict(os.environ, GOFLAGS="-mod=mod", GOPROXY="off", GOSUMDB="off", GOTOOLCHAIN="local")
NCPU = os.cpu_count() or 4


def log(*a):
    print("#", *a, file=sys.stderr, flush=True)


def run(cmd, cwd=None, env=None, timeout=None, check=True, stdin=None, capture=True):
    p = subprocess.run(cmd, cwd=cwd, env=env, timeout=timeout, input=stdin,
                       stdout=subprocess.PIPE if capture else None,
                       stderr=subprocess.STDOUT if capture else None, text=True)
    if check and p.returncode != 0:
        raise RuntimeError("command failed (%d): %s\n%s" % (p.returncode, " ".join(cmd), (p.stdout or "")[-4000:]))
    return p


class Lock:
    def __init__(self, name):
        os.makedirs(CACHE, exist_ok=True)
        if name.startswith("lean-") or name == "build-lean":
            # one lock per Lean project directory (seed tests run on scratch copies of it)
            name += "-" + hashlib.sha256(LEAN.encode()).hexdigest()[:8]
        self.path = os.path.join(CACHE, name + ".lock")

    def __enter__(self):
        self.f = open(self.path, "w")
        fcntl.flock(self.f, fcntl.LOCK_EX)
        return self

    def __exit__(self, *a):
        fcntl.flock(self.f, fcntl.LOCK_UN)
        self.f.close()


# ------------------------------------------------------------------ fingerprints

def _hash_tree(root, subdirs, exts):
    h = hashlib.sha256()
    for sd in subdirs:
        base = os.path.join(root, sd)
        if os.path.isfile(base):
            with open(base, "rb") as f:
                h.update(sd.encode()); h.update(f.read())
            continue
        for dp, dn, fn in os.walk(base):
            dn[:] = sorted(d for d in dn if d not in (".git", ".lake", "bin", "node_modules"))
            for n in sorted(fn):
                if exts and not n.endswith(exts):
                    continue
                p = os.path.join(dp, n)
                h.update(os.path.relpath(p, root).encode())
                with open(p, "rb") as f:
                    h.update(f.read())
    return h.hexdigest()[:16]


def repo_fp():
    """fingerprint of /repo's CURRENT WORKING TREE (not of HEAD)"""
    return _hash_tree(REPO, ["x", "app", "cmd", "proto", "testutil", "go.mod", "Makefile"],
                      (".go", ".proto", ".mod", "Makefile"))


def machinery_fp():
    return _hash_tree(VERIF, ["harness", "lean/Fundraising/Model", "lean/Main.lean", "bin"],
                      (".go", ".lean", ".py", ".mod", "check"))


# ------------------------------------------------------------------ builds

def build_harness():
    with Lock("build-harness"):
        os.makedirs(os.path.dirname(HBIN), exist_ok=True)
        t = time.time()
        if HMOD is None:
            shutil.copyfile(os.path.join(REPO, "go.sum"), os.path.join(HARNESS, "go.sum"))
            run(["go", "build", "-tags", "verif", "-o", HBIN, "."], cwd=HARNESS, env=GOENV, timeout=1800)
        else:
            mod = open(os.path.join(HARNESS, "go.mod")).read().replace("=> /repo", "=> " + REPO)
            with open(HMOD, "w") as f:
                f.write(mod)
            shutil.copyfile(os.path.join(REPO, "go.sum"), HMOD[:-4] + ".sum")
            run(["go", "build", "-modfile=" + HMOD, "-tags", "verif", "-o", HBIN, "."], cwd=HARNESS, env=GOENV, timeout=1800)
        log("harness built in %.1fs" % (time.time() - t))


def build_model():
    with Lock("build-lean"):
        t = time.time()
        run(["lake", "build", "fmodel", "fpredict", "fmonitor"], cwd=LEAN, timeout=3600)
        log("fmodel built in %.1fs" % (time.time() - t))


def regenerate_tables():
    """delete and re-extract Generated/Tables.lean (finite tables) and Generated/Code/*.lean
    (GoLite translation of the pure core and the keeper functions) from /repo's working tree"""
    import shutil as _sh
    with Lock("build-extract"):
        out = os.path.join(LEAN, "Fundraising", "Generated", "Tables.lean")
        code = os.path.join(LEAN, "Fundraising", "Generated", "Code")
        os.makedirs(os.path.dirname(out), exist_ok=True)
        os.makedirs(os.path.dirname(XBIN), exist_ok=True)
        run(["go", "build", "-o", XBIN, "."], cwd=EXTRACT, env=GOENV, timeout=1800)
        if os.path.exists(out):
            os.remove(out)
        _sh.rmtree(code, ignore_errors=True)
        run([XBIN, "-repo", REPO, "-out", out, "-code", code], cwd=EXTRACT, env=GOENV, timeout=600)
        return out


def lake_build(targets):
    """returns (ok, output)"""
    with Lock("build-lean"):
        p = run(["lake", "build"] + targets, cwd=LEAN, timeout=7200, check=False)
        return p.returncode == 0, p.stdout


ALLOWED_AXIOMS = {"propext", "Classical.choice", "Quot.sound"}
FORBIDDEN = re.compile(r"\b(sorry|admit|native_decide|bv_decide|implemented_by|unsafe)\b|^\s*axiom\s|maxHeartbeats\s+0")


def scan_forbidden(paths):
    """grep the given lean files (comments stripped) for forbidden constructs"""
    hits = []
    for p in paths:
        try:
            src = open(p).read()
        except OSError:
            continue
        src = re.sub(r"/-.*?-/", lambda m: "\n" * m.group(0).count("\n"), src, flags=re.S)
        for i, line in enumerate(src.split("\n"), 1):
            code = line.split("--")[0]
            if FORBIDDEN.search(code):
                hits.append("%s:%d: %s" % (os.path.relpath(p, VERIF), i, line.strip()))
    return hits


def lean_deps(module):
    """transitive project-local imports of a module (files under lean/Fundraising)"""
    seen, todo = [], [module]
    while todo:
        m = todo.pop()
        if m in seen:
            continue
        path = os.path.join(LEAN, m.replace(".", "/") + ".lean")
        if not os.path.exists(path):
            continue
        seen.append(m)
        for line in open(path):
            mm = re.match(r"\s*import\s+(Fundraising[\w.]*)", line)
            if mm:
                todo.append(mm.group(1))
    return [os.path.join(LEAN, m.replace(".", "/") + ".lean") for m in seen]


def audit_axioms(module, names):
    """#print axioms for the given fully-qualified theorem names; returns dict name -> set | None"""
    src = "import %s\n" % module + "".join("#print axioms %s\n" % n for n in names)
    tmp = os.path.join(LEAN, ".audit_%s_%d.lean" % (module.split(".")[-1], os.getpid()))
    with open(tmp, "w") as f:
        f.write(src)
    try:
        with Lock("build-lean"):
            p = run(["lake", "env", "lean", tmp], cwd=LEAN, timeout=3600, check=False)
    finally:
        os.remove(tmp)
    out = p.stdout
    res = {}
    for n in names:
        m = re.search(r"'%s' depends on axioms: \[(.*?)\]" % re.escape(n), out, flags=re.S)
        if m:
            res[n] = set(x.strip() for x in m.group(1).replace("\n", " ").split(",") if x.strip())
        elif re.search(r"'%s' does not depend on any axioms" % re.escape(n), out):
            res[n] = set()
        else:
            res[n] = None
    return res, out


def theorem_names(module):
    """names of the theorems declared in a Props module (namespace Fundraising assumed)"""
    path = os.path.join(LEAN, module.replace(".", "/") + ".lean")
    names = []
    ns = []
    for line in open(path):
        m = re.match(r"\s*namespace\s+([\w.]+)", line)
        if m:
            ns.append(m.group(1))
        m = re.match(r"\s*end\s+([\w.]+)", line)
        if m and ns and ns[-1] == m.group(1):
            ns.pop()
        m = re.match(r"\s*theorem\s+([\w.']+)", line)
        if m:
            names.append(".".join(ns + [m.group(1)]))
    return names


# ------------------------------------------------------------------ streams

class Block:
    __slots__ = ("op", "res", "lines", "hist", "idx")

    def __init__(self, op):
        self.op = op
        self.res = ""
        self.lines = []
        self.hist = 0
        self.idx = 0

    def of(self, kind):
        return [l for l in self.lines if l.startswith(kind + " ")]


def parse_stream(path):
    """parse an observation stream into blocks (comment lines dropped)"""
    blocks = []
    cur = None
    hist = -1
    idx = 0
    with open(path) as f:
        for line in f:
            line = line.rstrip("\n")
            if not line or line.startswith("#"):
                continue
            if line.startswith("> "):
                cur = Block(line[2:])
                if cur.op.split(" ")[0] == "reset":
                    hist += 1
                    idx = 0
                cur.hist = max(hist, 0)
                cur.idx = idx
                idx += 1
            elif line == ".":
                if cur is not None:
                    blocks.append(cur)
                cur = None
            elif cur is not None:
                if line.startswith("res "):
                    cur.res = line
                else:
                    cur.lines.append(line)
    return blocks


def history_ops(blocks, hist, upto_idx):
    return [b.op for b in blocks if b.hist == hist and b.idx <= upto_idx]


MODULE_OPS = {"createF", "createB", "cancel", "place", "modify", "addmsg", "params", "kadd", "kupd", "block"}


# ------------------------------------------------------------------ correspondence runs

FGEN = os.path.join(LEAN, ".lake", "build", "bin", "fgen")


def pure_stream(tier, seed):
    """the pure-function stream: random edge-biased inputs evaluated by the REAL Go functions
    (`harness pure`) and by the Lean driver `fgen` (translated definitions AND model functions).
    Returns dict(cases, counts, gen_mismatch=[(line, go, gen)], model_mismatch=[(line, go, model)], note)."""
    n = 400000 if tier == "thorough" else 40000
    d = os.path.join(CACHE, "pure", "%s-%s-%s-%d" % (repo_fp(), machinery_fp(), tier, seed))
    res = dict(cases=0, counts={}, gen_mismatch=[], model_mismatch=[], note="")
    with Lock("pure-" + os.path.basename(d)):
        os.makedirs(d, exist_ok=True)
        fin, fout, flean = os.path.join(d, "in"), os.path.join(d, "go"), os.path.join(d, "lean")
        if not os.path.exists(os.path.join(d, "DONE")):
            build_harness()
            p = run([HBIN, "pure", "-seed", str(seed), "-n", str(n), "-in", fin, "-out", fout], cwd=HARNESS, env=GOENV,
                    timeout=3600, check=False)
            if p.returncode != 0:
                res["note"] = "harness pure failed: " + p.stdout[-300:]
                return res
            with open(os.path.join(d, "counts"), "w") as f:
                f.write(p.stdout.strip().split("\n")[-1])
            with Lock("build-lean"):
                b = run(["lake", "build", "fgen"], cwd=LEAN, timeout=3600, check=False)
            if b.returncode != 0:
                # the translated code of this tree does not compile: nothing to execute (the tie
                # theorems of the functions concerned are reported by the proof side)
                res["note"] = "fgen does not build against the code translated from this tree"
                open(flean, "w").close()
            else:
                with open(fin) as i, open(flean, "w") as o:
                    subprocess.run([FGEN], stdin=i, stdout=o, timeout=3600)
            open(os.path.join(d, "DONE"), "w").close()
        try:
            res["counts"] = json.loads(open(os.path.join(d, "counts")).read())
        except Exception:
            pass
        ins = open(fin).read().split("\n")
        gos = open(fout).read().split("\n")
        les = open(flean).read().split("\n")
        if len(les) < len(gos) - 1:
            res["note"] = res["note"] or "fgen produced %d lines for %d cases" % (len(les), len(gos))
        for line, g, l in zip(ins, gos, les):
            if not line or not l:
                continue
            res["cases"] += 1
            try:
                gen, model = l.split(" | ")
                gen, model = gen[4:].strip(), model[6:].strip()
            except ValueError:
                res["gen_mismatch"].append((line, g, l))
                continue
            if g.strip() != gen:
                res["gen_mismatch"].append((line, g.strip(), gen))
            if g.strip() != model:
                res["model_mismatch"].append((line, g.strip(), model))
    return res


def tier_plan(tier):
    if tier == "thorough":
        return dict(workers=NCPU, histories=120, maxops=60, profile="thorough")
    return dict(workers=NCPU, histories=14, maxops=40, profile="quick")


def correspondence(tier, seed, focus=None, histories=None, maxops=None):
    """generate histories on the real code, run the model on the same ops.
    Cached per (repo working tree, machinery, tier, seed, focus).  Returns list of dicts
    {ops, obs, model, dist} and the cache dir."""
    plan = tier_plan(tier)
    if histories:
        plan["histories"] = histories
    if maxops:
        plan["maxops"] = maxops
    key = "%s-%s-%s-%d-%s-%d-%d" % (repo_fp(), machinery_fp(), tier, seed, focus or "std",
                                     plan["histories"], plan["maxops"])
    if os.environ.get("HARNESS_FORGE_SELF") == "1":
        key += "-forgeself"     # self-test of the forged-signer probe: never share a cache entry with a real run
    d = os.path.join(CACHE, "corr", key)
    with Lock("corr-" + key):
        done = os.path.join(d, "DONE")
        if not os.path.exists(done):
            if os.path.exists(d):
                shutil.rmtree(d)
            os.makedirs(d)
            build_harness()
            build_model()
            t0 = time.time()
            procs = []
            for w in range(plan["workers"]):
                ops = os.path.join(d, "w%d.ops" % w)
                obs = os.path.join(d, "w%d.obs" % w)
                cmd = [HBIN, "appgen" if focus == "app" else "gen", "-seed", str(seed * 1000 + w),
                       "-histories", str(max(2, plan["histories"] // 2) if focus == "app" else plan["histories"]),
                       "-maxops", str(plan["maxops"]), "-ops", ops, "-obs", obs, "-profile", plan["profile"]]
                if focus and focus != "app":
                    cmd += ["-focus", focus]
                procs.append((w, subprocess.Popen(cmd, cwd=HARNESS, env=GOENV, stdout=subprocess.PIPE,
                                                  stderr=subprocess.PIPE, text=True)))
            for w, p in procs:
                out, err = p.communicate(timeout=3600)
                with open(os.path.join(d, "w%d.dist" % w), "w") as f:
                    f.write(out)
                with open(os.path.join(d, "w%d.err" % w), "w") as f:
                    f.write("exit=%d\n%s" % (p.returncode, err))
            t1 = time.time()
            mprocs = []
            for w in range(plan["workers"]):
                ops = os.path.join(d, "w%d.ops" % w)
                if not os.path.exists(ops):
                    continue
                fin = open(ops)
                fout = open(os.path.join(d, "w%d.model" % w), "w")
                mprocs.append((subprocess.Popen([FMODEL], stdin=fin, stdout=fout), fin, fout))
            for p, fin, fout in mprocs:
                p.wait(timeout=3600)
                fin.close(); fout.close()
            # one-step predictions: the model started from the IMPLEMENTATION's previous state
            pprocs = []
            for w in range(plan["workers"]):
                obs = os.path.join(d, "w%d.obs" % w)
                if not os.path.exists(obs):
                    continue
                fin = open(obs)
                fout = open(os.path.join(d, "w%d.pred" % w), "w")
                pprocs.append((subprocess.Popen([FPREDICT], stdin=fin, stdout=fout), fin, fout))
            for p, fin, fout in pprocs:
                p.wait(timeout=3600)
                fin.close(); fout.close()
            with open(done, "w") as f:
                json.dump({"gen_s": t1 - t0, "model_s": time.time() - t1}, f)
            log("correspondence run %s: gen %.1fs, model %.1fs" % (key, t1 - t0, time.time() - t1))
    _prune(os.path.join(CACHE, "corr"), keep=8, protect=d)
    _prune(os.path.join(CACHE, "pure"), keep=8, protect=None)
    _prune(CACHE, keep=6, protect=None, prefix="harness-")
    _prune(CACHE, keep=6, protect=None, prefix="replay-")
    runs = []
    for w in range(plan["workers"]):
        ops = os.path.join(d, "w%d.ops" % w)
        if not os.path.exists(ops):
            continue
        dist = {}
        try:
            txt = open(os.path.join(d, "w%d.dist" % w)).read()
            dist = json.loads(txt[txt.index("{"):txt.rindex("}") + 1])
        except Exception:
            pass
        err = open(os.path.join(d, "w%d.err" % w)).read()
        runs.append(dict(w=w, ops=ops, obs=os.path.join(d, "w%d.obs" % w),
                         model=os.path.join(d, "w%d.model" % w), pred=os.path.join(d, "w%d.pred" % w),
                         dist=dist, err=err))
    return runs, d


def _prune(root, keep, protect, prefix=""):
    """disk hygiene: keep only the most recent cached runs"""
    try:
        ds = sorted((os.path.join(root, n) for n in os.listdir(root) if n.startswith(prefix)), key=os.path.getmtime, reverse=True)
        now = time.time()
        for old in ds[keep:]:
            # never touch a run another concurrent check may still be reading
            if old != protect and now - os.path.getmtime(old) > 45 * 60:
                shutil.rmtree(old, ignore_errors=True)
    except OSError:
        pass


def run_ops(ops_lines, workdir, tag):
    """execute an explicit op list on both sides; returns (impl blocks, model blocks)"""
    os.makedirs(workdir, exist_ok=True)
    f = os.path.join(workdir, tag + ".ops")
    with open(f, "w") as fh:
        fh.write("\n".join(ops_lines) + "\n")
    obs = os.path.join(workdir, tag + ".obs")
    mod = os.path.join(workdir, tag + ".model")
    with open(obs, "w") as fo:
        subprocess.run([HBIN, "run", f], cwd=HARNESS, env=GOENV, stdout=fo, stderr=subprocess.DEVNULL, timeout=600)
    with open(f) as fi, open(mod, "w") as fo:
        subprocess.run([FMODEL], stdin=fi, stdout=fo, timeout=600)
    pred = os.path.join(workdir, tag + ".pred")
    with open(obs) as fi, open(pred, "w") as fo:
        subprocess.run([FPREDICT], stdin=fi, stdout=fo, timeout=600)
    return parse_stream(obs), parse_stream(mod)


def merge_dist(runs):
    tot = {}

    def add(dst, src):
        for k, v in src.items():
            if isinstance(v, dict):
                add(dst.setdefault(k, {}), v)
            elif isinstance(v, (int, float)):
                if k.startswith("max"):
                    dst[k] = max(dst.get(k, 0), v)
                else:
                    dst[k] = dst.get(k, 0) + v
    for r in runs:
        add(tot, r["dist"])
    return tot


# ------------------------------------------------------------------ evidence / findings

def write_evidence(pid, tier, seed, level, coverage, assumptions, wall, violations):
    os.makedirs(EVIDENCE, exist_ok=True)
    ev = dict(property_id=pid, tier=tier, seed=seed, level=level, coverage=coverage,
              assumptions=assumptions, wall_s=round(wall, 2), violations=violations)
    tmp = os.path.join(EVIDENCE, ".%s.json.tmp%d" % (pid, os.getpid()))
    with open(tmp, "w") as f:
        json.dump(ev, f, indent=1)
    os.replace(tmp, os.path.join(EVIDENCE, pid + ".json"))


def known_findings():
    p = os.path.join(VERIF, "known_findings.json")
    try:
        return json.load(open(p))
    except Exception:
        return {"findings": [], "fixed": []}


def write_replay(pid, sig, lines):
    os.makedirs(REPLAYS, exist_ok=True)
    name = "%s-%s.ops" % (pid, hashlib.sha256(sig.encode()).hexdigest()[:10])
    p = os.path.join(REPLAYS, name)
    with open(p, "w") as f:
        f.write("\n".join(lines) + "\n")
    return p
